//! Coverage-guided companion of C05 and C06: arbitrary bytes as the text of a one-file project.
//! The semantic oracles are inside the target: the lossless-parse round trip (C05) and the clean-handling
//! monitor of the whole pipeline (C06: parse, codegen in build and analysis mode, binary writer, listing,
//! VICE symbols, formatter). A failure aborts the process, which libFuzzer records as a crash artifact.
#![no_main]
use libfuzzer_sys::fuzz_target;
use mosverif::engine::{CaseLog, Verdict};
use mosverif::sut::core::Project;
use std::sync::Once;

static INIT: Once = Once::new();

fn fail(property: &str, kind: &str, detail: &str) -> ! {
    eprintln!("FUZZ-FAILURE property={} kind={}\n{}", property, kind, detail);
    std::process::abort();
}

fuzz_target!(|data: &[u8]| {
    // (replaces libFuzzer's abort-on-panic hook: panics of the code under test are caught and classified)
    INIT.call_once(mosverif::sut::core::install_panic_hook);
    let text = match std::str::from_utf8(data) {
        Ok(t) => t,
        Err(_) => return,
    };
    if !mosverif::props::c06::fuzz_domain(text) {
        return;
    }
    // C05
    let mut log = CaseLog::default();
    if let Verdict::Fail { kind, detail } = mosverif::props::c05::check_text(text, &mut log) {
        fail("C05", &kind, &detail);
    }
    // C06
    let p = Project::single(text);
    let r = mosverif::props::c06::run_pipeline(&p);
    for k in ["panic", "diverged", "bad_span"] {
        if let Some(v) = r.get(k) {
            fail("C06", k, &format!("{}\ninput: {:?}", v, text));
        }
    }
    if r.get("no_output_no_diag").and_then(|v| v.as_bool()) == Some(true) {
        fail("C06", "no-output-no-diagnostic", &format!("input: {:?}", text));
    }
});
