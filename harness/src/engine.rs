//! Campaign runner (proptest TestRunner from a binary), counters, known findings, evidence.

use proptest::strategy::{Strategy, ValueTree};
use proptest::test_runner::{
    Config, RngAlgorithm, TestCaseError, TestError, TestRng, TestRunner,
};
use serde::{Deserialize, Serialize};
use serde_json::{json, Value};
use std::cell::RefCell;
use std::collections::hash_map::DefaultHasher;
use std::collections::{BTreeMap, BTreeSet, HashSet};
use std::hash::{Hash, Hasher};
use std::path::PathBuf;
use std::time::Instant;

#[derive(Clone, Copy, Debug, PartialEq, Eq)]
pub enum Tier {
    Quick,
    Thorough,
}

impl Tier {
    pub fn name(&self) -> &'static str {
        match self {
            Tier::Quick => "quick",
            Tier::Thorough => "thorough",
        }
    }
    pub fn pick(&self, quick: u32, thorough: u32) -> u32 {
        let n = match self {
            Tier::Quick => quick,
            Tier::Thorough => thorough,
        };
        // development aid: MV_SCALE=0.1 runs a tenth of the cases
        match std::env::var("MV_SCALE").ok().and_then(|s| s.parse::<f64>().ok()) {
            Some(f) => ((n as f64 * f) as u32).max(1),
            None => n,
        }
    }
}

pub fn verif_dir() -> PathBuf {
    std::env::var("VERIF_DIR")
        .map(PathBuf::from)
        .unwrap_or_else(|_| PathBuf::from("/verif"))
}

pub fn hash_of<T: Hash>(t: &T) -> u64 {
    let mut h = DefaultHasher::new();
    t.hash(&mut h);
    h.finish()
}

#[derive(Clone, Debug, Serialize, Deserialize)]
pub struct KnownFinding {
    pub property: String,
    pub signature: String,
    /// "open" or "fixed"
    pub status: String,
    pub what: String,
    #[serde(default)]
    pub commit: Option<String>,
    #[serde(default)]
    pub example: Option<Value>,
}

pub fn load_known_findings() -> Vec<KnownFinding> {
    let p = verif_dir().join("known-findings.jsonl");
    let mut v = vec![];
    if let Ok(s) = std::fs::read_to_string(p) {
        for line in s.lines() {
            let line = line.trim();
            if line.is_empty() || line.starts_with('#') {
                continue;
            }
            match serde_json::from_str::<KnownFinding>(line) {
                Ok(k) => v.push(k),
                Err(e) => {
                    eprintln!("known-findings.jsonl: bad line: {} ({})", line, e);
                    std::process::exit(2);
                }
            }
        }
    }
    v
}

/// Outcome of evaluating the property on one case.
#[derive(Clone, Debug)]
pub enum Verdict {
    Pass,
    /// Property violated. `kind` is the stable part of the signature.
    Fail { kind: String, detail: String },
    /// Case is outside the property's domain (counted, not judged)
    Discard(String),
}

impl Verdict {
    pub fn fail(kind: impl Into<String>, detail: impl Into<String>) -> Verdict {
        Verdict::Fail {
            kind: kind.into(),
            detail: detail.into(),
        }
    }
}

/// Per-case log handed to the property closure.
#[derive(Default)]
pub struct CaseLog {
    pub labels: Vec<String>,
    pub nontrivial: bool,
}

impl CaseLog {
    pub fn label(&mut self, l: impl Into<String>) {
        self.labels.push(l.into());
    }
    pub fn label_if(&mut self, c: bool, l: &str) {
        if c {
            self.labels.push(l.to_string());
        }
    }
}

#[derive(Clone, Debug)]
pub struct Violation {
    pub signature: String,
    pub detail: String,
    pub replay: PathBuf,
}

pub struct Ctx {
    pub id: String,
    pub tier: Tier,
    pub seed: u64,
    pub start: Instant,
    pub evaluations: u64,
    pub distinct_nontrivial: HashSet<u64>,
    pub labels: BTreeMap<String, u64>,
    pub samples: Vec<Value>,
    pub campaigns: Vec<Value>,
    pub known: Vec<KnownFinding>,
    pub known_hit: BTreeSet<String>,
    pub violations: Vec<Violation>,
    pub inconclusive: u64,
    pub discarded: u64,
    pub excluded: BTreeMap<String, u64>,
    pub rule: String,
    pub exhaustive: Vec<String>,
    pub assumptions: Vec<String>,
    pub health_problems: Vec<String>,
    pub extra: BTreeMap<String, Value>,
    pub max_samples: usize,
}

impl Ctx {
    pub fn new(id: &str, tier: Tier, seed: u64) -> Ctx {
        let known = load_known_findings()
            .into_iter()
            .filter(|k| k.property == id)
            .collect();
        Ctx {
            id: id.to_string(),
            tier,
            seed,
            start: Instant::now(),
            evaluations: 0,
            distinct_nontrivial: HashSet::new(),
            labels: BTreeMap::new(),
            samples: vec![],
            campaigns: vec![],
            known,
            known_hit: BTreeSet::new(),
            violations: vec![],
            inconclusive: 0,
            discarded: 0,
            excluded: BTreeMap::new(),
            rule: String::new(),
            exhaustive: vec![],
            assumptions: vec![],
            health_problems: vec![],
            extra: BTreeMap::new(),
            max_samples: 6,
        }
    }

    pub fn is_known_open(&self, sig: &str) -> Option<&KnownFinding> {
        self.known
            .iter()
            .find(|k| k.status == "open" && k.signature == sig)
    }

    pub fn count(&mut self, label: &str) {
        *self.labels.entry(label.to_string()).or_insert(0) += 1;
    }

    pub fn label_count(&self, label: &str) -> u64 {
        self.labels.get(label).copied().unwrap_or(0)
    }

    pub fn sample(&mut self, v: Value) {
        if self.samples.len() < self.max_samples {
            self.samples.push(v);
        }
    }

    /// Record one evaluated case (outside proptest campaigns: enumerations).
    pub fn record_case<T: Hash>(&mut self, case: &T, log: &CaseLog) {
        self.evaluations += 1;
        for l in &log.labels {
            *self.labels.entry(l.clone()).or_insert(0) += 1;
        }
        if log.nontrivial {
            self.distinct_nontrivial.insert(hash_of(case));
        }
    }

    /// Handle a failure: known finding (print KNOWN-FINDING once) or violation (write replay).
    pub fn report_failure(&mut self, signature: &str, detail: &str, replay_case: Value) {
        if let Some(k) = self.is_known_open(signature) {
            let what = k.what.clone();
            if self.known_hit.insert(signature.to_string()) {
                println!("KNOWN-FINDING: property={} {} [{}]", self.id, what, signature);
            }
            return;
        }
        if self
            .violations
            .iter()
            .any(|v| v.signature == signature)
        {
            return;
        }
        let dir = verif_dir().join("replay").join(&self.id);
        let _ = std::fs::create_dir_all(&dir);
        let body = json!({"property": self.id, "signature": signature, "detail": detail, "case": replay_case});
        let text = serde_json::to_string_pretty(&body).unwrap();
        let name = format!("{:016x}.json", hash_of(&text));
        let path = dir.join(name);
        let _ = std::fs::write(&path, text);
        println!("VIOLATION property={} replay={}", self.id, path.display());
        println!("  signature: {}", signature);
        for l in detail.lines().take(40) {
            println!("  | {}", l);
        }
        self.violations.push(Violation {
            signature: signature.to_string(),
            detail: detail.to_string(),
            replay: path,
        });
    }

    pub fn health(&mut self, ok: bool, msg: impl Into<String>) {
        if !ok {
            self.health_problems.push(msg.into());
        }
    }

    /// Run a proptest campaign. `prop` is a pure function of the case.
    /// Failures whose signature is a known open finding are tolerated (counted) and the campaign
    /// continues; the first other failure is shrunk (keeping its signature) and reported.
    pub fn campaign<S, F, G>(&mut self, name: &str, cases: u32, strategy: S, prop: F, to_json: G)
    where
        S: Strategy,
        S::Value: Hash + Clone + std::fmt::Debug,
        F: Fn(&S::Value, &mut CaseLog) -> Verdict,
        G: Fn(&S::Value) -> Value,
    {
        let known = self.known_open_sigs();
        let want = self.max_samples.saturating_sub(self.samples.len()).min(3);
        let out = run_campaign(&self.id, self.seed, name, 0, &known, cases, strategy, &prop, &to_json, want);
        self.absorb(name, cases, vec![out]);
    }

    /// The same campaign split over `threads` independent runners (own seed stream each).
    pub fn campaign_parallel<S, SF, F, G>(&mut self, name: &str, cases: u32, threads: usize, make_strategy: SF, prop: F, to_json: G)
    where
        S: Strategy,
        S::Value: Hash + Clone + std::fmt::Debug,
        SF: Fn() -> S + Sync,
        F: Fn(&S::Value, &mut CaseLog) -> Verdict + Sync,
        G: Fn(&S::Value) -> Value + Sync,
    {
        let known = self.known_open_sigs();
        let want = self.max_samples.saturating_sub(self.samples.len()).min(3);
        let threads = threads.max(1);
        let per = (cases + threads as u32 - 1) / threads as u32;
        let id = self.id.clone();
        let seed = self.seed;
        let mut outs = vec![];
        std::thread::scope(|sc| {
            let mut hs = vec![];
            for t in 0..threads {
                let known = &known;
                let id = &id;
                let make_strategy = &make_strategy;
                let prop = &prop;
                let to_json = &to_json;
                hs.push(sc.spawn(move || {
                    run_campaign(id, seed, name, t as u64 + 1, known, per, make_strategy(), prop, to_json, if t == 0 { want } else { 0 })
                }));
            }
            for h in hs {
                match h.join() {
                    Ok(o) => outs.push(o),
                    Err(_) => {}
                }
            }
        });
        if outs.len() != threads {
            self.health_problems.push(format!("campaign {}: a runner thread panicked", name));
        }
        self.absorb(name, cases, outs);
    }

    fn known_open_sigs(&self) -> Vec<String> {
        self.known.iter().filter(|k| k.status == "open").map(|k| k.signature.clone()).collect()
    }

    fn absorb(&mut self, name: &str, cases: u32, outs: Vec<CampaignOutcome>) {
        let mut evaluated = 0;
        let mut discarded = 0;
        let mut distinct = 0;
        let mut known_json = vec![];
        let mut outcomes = vec![];
        let mut wall: f64 = 0.0;
        for o in outs {
            evaluated += o.evaluations;
            discarded += o.discarded;
            distinct += o.distinct.len();
            self.evaluations += o.evaluations;
            self.discarded += o.discarded;
            self.inconclusive += o.labels.get("inconclusive").copied().unwrap_or(0);
            for (k, v) in &o.labels {
                *self.labels.entry(k.clone()).or_insert(0) += v;
                if k.starts_with("harness-panic:") {
                    self.health_problems.push(format!("campaign {}: {} x {}", name, v, k));
                }
            }
            for h in &o.distinct {
                self.distinct_nontrivial.insert(*h);
            }
            for v in o.samples {
                self.sample(v);
            }
            for (sig, (n, example)) in &o.known_hits {
                known_json.push(json!({"signature": sig, "hits": n}));
                self.report_failure(sig, "", example.clone());
            }
            if let Some((sig, detail, case)) = o.failure {
                outcomes.push(format!("fail:{}", sig));
                let detail = format!("campaign {}\n{}", name, detail);
                self.report_failure(&sig, &detail, case);
            }
            if let Some(reason) = o.aborted {
                outcomes.push(format!("abort:{}", reason));
                self.health_problems.push(format!("campaign {} aborted: {}", name, reason));
            }
            wall = wall.max(o.wall_s);
        }
        if outcomes.is_empty() {
            outcomes.push("pass".into());
        }
        self.campaigns.push(json!({
            "name": name, "cases_requested": cases, "evaluated": evaluated,
            "discarded": discarded, "distinct_nontrivial": distinct,
            "known_findings_hit": known_json, "outcome": outcomes,
            "wall_s": wall,
        }));
    }

    /// Replay one stored case through a property function.
    pub fn replay_one<T, F>(&mut self, case: &T, prop: F, case_json: Value)
    where
        F: Fn(&T, &mut CaseLog) -> Verdict,
        T: Hash,
    {
        let mut log = CaseLog::default();
        let v = prop(case, &mut log);
        self.record_case(case, &log);
        if let Verdict::Fail { kind, detail } = v {
            let sig = format!("{}|{}", self.id, kind);
            self.report_failure(&sig, &detail, case_json);
        }
    }

    /// Finish a --replay run: print the verdict, do not rewrite evidence.
    pub fn finish_replay(self) -> i32 {
        if !self.violations.is_empty() {
            1
        } else if crate::sut::cli::cli_timeouts() > 0 {
            println!("{} replay: mos was killed by the watchdog (inconclusive)", self.id);
            2
        } else {
            println!("{} replay: property held on the stored case (known findings: {})", self.id, self.known_hit.len());
            0
        }
    }

    pub fn finish(mut self) -> i32 {
        let killed = crate::sut::cli::cli_timeouts();
        if killed > 0 {
            self.health_problems.push(format!("{} invocation(s) of mos were killed by the watchdog after {} s (inconclusive, not a violation)", killed, crate::sut::cli::cli_timeout_secs()));
        }
        // known findings that are listed as open but were not seen are merely reported
        let open_not_seen: Vec<String> = self
            .known
            .iter()
            .filter(|k| k.status == "open" && !self.known_hit.contains(&k.signature))
            .map(|k| k.signature.clone())
            .collect();
        let wall = self.start.elapsed().as_secs_f64();
        let mut coverage = serde_json::Map::new();
        coverage.insert("evaluations".into(), json!(self.evaluations));
        coverage.insert(
            "distinct_nontrivial".into(),
            json!(self.distinct_nontrivial.len()),
        );
        coverage.insert("rule".into(), json!(self.rule));
        if self.samples.is_empty() {
            self.samples.push(json!("<no sample recorded>"));
        }
        coverage.insert("samples".into(), json!(self.samples));
        coverage.insert("labels".into(), json!(self.labels));
        coverage.insert("campaigns".into(), json!(self.campaigns));
        coverage.insert("discarded".into(), json!(self.discarded));
        coverage.insert("inconclusive".into(), json!(self.inconclusive));
        coverage.insert(
            "excluded_by_construction".into(),
            json!(self.excluded),
        );
        coverage.insert(
            "known_findings_confirmed".into(),
            json!(self.known_hit.iter().collect::<Vec<_>>()),
        );
        coverage.insert("known_findings_not_seen".into(), json!(open_not_seen));
        coverage.insert("exhaustive".into(), json!(!self.exhaustive.is_empty()));
        coverage.insert("exhaustive_subspaces".into(), json!(self.exhaustive));
        coverage.insert("health_problems".into(), json!(self.health_problems));
        for (k, v) in &self.extra {
            coverage.insert(k.clone(), v.clone());
        }
        let ev = json!({
            "property_id": self.id,
            "tier": self.tier.name(),
            "seed": self.seed,
            "level": "exploration",
            "coverage": Value::Object(coverage),
            "assumptions": self.assumptions,
            "wall_s": wall,
            "violations": self.violations.len(),
        });
        let dir = verif_dir().join("evidence");
        let _ = std::fs::create_dir_all(&dir);
        let path = dir.join(format!("{}.json", self.id));
        std::fs::write(&path, serde_json::to_string_pretty(&ev).unwrap()).unwrap();
        println!(
            "{} {}: evaluations={} distinct_nontrivial={} violations={} known={} wall={:.1}s",
            self.id,
            self.tier.name(),
            self.evaluations,
            self.distinct_nontrivial.len(),
            self.violations.len(),
            self.known_hit.len(),
            wall
        );
        if !self.violations.is_empty() {
            return 1;
        }
        if !self.health_problems.is_empty() {
            for h in &self.health_problems {
                eprintln!("HEALTH: {}", h);
            }
            return 2;
        }
        0
    }
}

pub struct CampaignOutcome {
    pub evaluations: u64,
    pub discarded: u64,
    pub labels: BTreeMap<String, u64>,
    pub distinct: HashSet<u64>,
    pub known_hits: BTreeMap<String, (u64, Value)>,
    pub samples: Vec<Value>,
    /// (signature, detail, replay case)
    pub failure: Option<(String, String, Value)>,
    pub aborted: Option<String>,
    pub wall_s: f64,
}

#[allow(clippy::too_many_arguments)]
pub fn run_campaign<S, F, G>(
    id: &str,
    seed: u64,
    name: &str,
    stream: u64,
    known: &[String],
    cases: u32,
    strategy: S,
    prop: &F,
    to_json: &G,
    want_samples: usize,
) -> CampaignOutcome
where
    S: Strategy,
    S::Value: Hash + Clone + std::fmt::Debug,
    F: Fn(&S::Value, &mut CaseLog) -> Verdict,
    G: Fn(&S::Value) -> Value,
{
    let t0 = Instant::now();
    let mut seed_bytes = [0u8; 32];
    let salt = hash_of(&(id, name));
    seed_bytes[..8].copy_from_slice(&seed.to_le_bytes());
    seed_bytes[8..16].copy_from_slice(&salt.to_le_bytes());
    seed_bytes[16..24].copy_from_slice(&stream.to_le_bytes());
    let rng = TestRng::from_seed(RngAlgorithm::ChaCha, &seed_bytes);
    let mut config = Config::default();
    config.cases = cases;
    config.failure_persistence = None;
    config.max_shrink_iters = std::env::var("MV_MAX_SHRINK").ok().and_then(|v| v.parse().ok()).unwrap_or(2000);
    config.max_global_rejects = cases.saturating_mul(4).max(1024);
    config.verbose = 0;
    config.source_file = None;
    let mut runner = TestRunner::new_with_rng(config, rng);

    struct St {
        counting: bool,
        first_sig: Option<String>,
        evaluations: u64,
        discarded: u64,
        labels: BTreeMap<String, u64>,
        distinct: HashSet<u64>,
        known_hits: BTreeMap<String, (u64, Value)>,
        samples: Vec<Value>,
        last_fail: Option<(String, String)>,
    }
    let st = RefCell::new(St {
        counting: true,
        first_sig: None,
        evaluations: 0,
        discarded: 0,
        labels: BTreeMap::new(),
        distinct: HashSet::new(),
        known_hits: BTreeMap::new(),
        samples: vec![],
        last_fail: None,
    });

    let shrink_secs: u64 = std::env::var("MV_SHRINK_SECS").ok().and_then(|v| v.parse().ok()).unwrap_or(90);
    let shrink_deadline: RefCell<Option<std::time::Instant>> = RefCell::new(None);
    let result = runner.run(&strategy, |case| {
        // Shrinking is bounded in time as well as in steps (a failure that takes seconds per evaluation, e.g. a stack
        // overflow in a worker process, would otherwise shrink for hours). This bounds minimality, never a verdict: past
        // the deadline every further simplification counts as "does not fail", so the best case so far is reported.
        {
            let st_ref = st.borrow();
            if !st_ref.counting {
                let mut d = shrink_deadline.borrow_mut();
                match *d {
                    None => *d = Some(std::time::Instant::now() + std::time::Duration::from_secs(shrink_secs)),
                    Some(t) if std::time::Instant::now() > t => return Ok(()),
                    _ => {}
                }
            }
        }
        let mut log = CaseLog::default();
        // Panics of the code under test are caught and classified inside the properties; a panic that arrives here is the
        // harness's own (an unwrap on a spawn under load, a slicing mistake): a health problem (exit 2), never a violation.
        let verdict = match std::panic::catch_unwind(std::panic::AssertUnwindSafe(|| prop(&case, &mut log))) {
            Ok(v) => v,
            Err(p) => {
                let msg = p.downcast_ref::<String>().cloned().or_else(|| p.downcast_ref::<&str>().map(|s| s.to_string())).unwrap_or_else(|| "panic".into());
                log.label(format!("harness-panic:{}", msg.chars().take(160).collect::<String>()));
                Verdict::Pass
            }
        };
        let mut s = st.borrow_mut();
        if s.counting {
            match &verdict {
                Verdict::Discard(_) => s.discarded += 1,
                _ => {
                    s.evaluations += 1;
                    for l in &log.labels {
                        *s.labels.entry(l.clone()).or_insert(0) += 1;
                    }
                    if log.nontrivial {
                        let h = hash_of(&case);
                        if s.distinct.insert(h) && s.samples.len() < want_samples {
                            s.samples.push(to_json(&case));
                        }
                    }
                }
            }
        }
        match verdict {
            Verdict::Pass => Ok(()),
            Verdict::Discard(why) => Err(TestCaseError::reject(why)),
            Verdict::Fail { kind, detail } => {
                let sig = format!("{}|{}", id, kind);
                if known.contains(&sig) {
                    if s.counting {
                        let e = s.known_hits.entry(sig.clone()).or_insert_with(|| (0, to_json(&case)));
                        e.0 += 1;
                    }
                    // a known finding while shrinking another failure is not that failure
                    return Ok(());
                }
                match &s.first_sig {
                    None => {
                        s.first_sig = Some(sig.clone());
                        s.counting = false;
                        s.last_fail = Some((sig.clone(), detail.clone()));
                        Err(TestCaseError::fail(sig))
                    }
                    Some(f) if *f == sig => {
                        s.last_fail = Some((sig.clone(), detail.clone()));
                        Err(TestCaseError::fail(sig))
                    }
                    Some(_) => Ok(()),
                }
            }
        }
    });

    let s = st.into_inner();
    let mut out = CampaignOutcome {
        evaluations: s.evaluations,
        discarded: s.discarded,
        labels: s.labels,
        distinct: s.distinct,
        known_hits: s.known_hits,
        samples: s.samples,
        failure: None,
        aborted: None,
        wall_s: 0.0,
    };
    match result {
        Ok(()) => {}
        Err(TestError::Fail(_reason, minimal)) => {
            // recompute the verdict on the minimal case for a faithful detail text
            let mut log = CaseLog::default();
            let (sig, detail) = match prop(&minimal, &mut log) {
                Verdict::Fail { kind, detail } => (format!("{}|{}", id, kind), detail),
                _ => s.last_fail.clone().unwrap_or(("?".to_string(), "?".to_string())),
            };
            let mut case_dbg = format!("{:?}", minimal);
            if case_dbg.len() > 1500 {
                case_dbg.truncate(1500);
                case_dbg.push_str("...");
            }
            let detail = format!("case: {}\n{}", case_dbg, detail);
            out.failure = Some((sig, detail, to_json(&minimal)));
        }
        Err(TestError::Abort(reason)) => {
            out.aborted = Some(reason.to_string());
        }
    }
    out.wall_s = t0.elapsed().as_secs_f64();
    out
}

/// Build a strategy value from a seed without a runner (for enumerations that want random picks).
pub fn sample_strategy<S: Strategy>(s: &S, seed: u64) -> S::Value {
    let mut seed_bytes = [0u8; 32];
    seed_bytes[..8].copy_from_slice(&seed.to_le_bytes());
    let rng = TestRng::from_seed(RngAlgorithm::ChaCha, &seed_bytes);
    let mut runner = TestRunner::new_with_rng(Config::default(), rng);
    s.new_tree(&mut runner).unwrap().current()
}
