pub mod ast;
pub mod build;
pub mod exprgen;
pub mod trivia;
pub mod binding;
