pub mod ast;
pub mod build;
