//! Entropy-driven program builder: every random choice comes from a `Vec<u32>` produced by a
//! proptest strategy (so shrinking and replay work); construction instead of rejection.

use crate::gen::ast::*;
use crate::model::eval::{self, Env, EvalErr, Value};
use crate::model::isa::{self, Form, Mode};
use serde::{Deserialize, Serialize};
use std::collections::{BTreeMap, BTreeSet, HashMap};

pub struct Ent<'a> {
    data: &'a [u32],
    pos: usize,
}

impl<'a> Ent<'a> {
    pub fn new(data: &'a [u32]) -> Self {
        Ent { data, pos: 0 }
    }
    pub fn next(&mut self) -> u32 {
        let v = self.data.get(self.pos).copied().unwrap_or(0);
        self.pos += 1;
        v
    }
    /// monotone mapping of a u32 to 0..n
    pub fn below(&mut self, n: usize) -> usize {
        if n == 0 {
            return 0;
        }
        ((self.next() as u64 * n as u64) >> 32) as usize
    }
    pub fn chance(&mut self, num: usize, den: usize) -> bool {
        // values shrink towards 0: make "false" the simple outcome
        self.below(den) >= den - num
    }
    pub fn range(&mut self, lo: i64, hi: i64) -> i64 {
        lo + self.below((hi - lo + 1) as usize) as i64
    }
    pub fn pick<'b, T>(&mut self, v: &'b [T]) -> &'b T {
        &v[self.below(v.len())]
    }
    pub fn exhausted(&self) -> bool {
        self.pos >= self.data.len()
    }
}

#[derive(Clone, Debug, Hash, PartialEq, Eq, Serialize, Deserialize)]
#[serde(default)]
pub struct GenCfg {
    pub max_stmts: usize,
    pub max_depth: usize,
    pub segments: bool,
    pub relocated: bool,
    pub loops: bool,
    pub macros: bool,
    pub ifs: bool,
    pub imports: bool,
    pub vars: bool,
    pub align: bool,
    pub setpc: bool,
    pub text: bool,
    pub zp_segment: bool,
    /// finding features (off in the clean domain)
    pub defs_in_loop: bool,
    pub setpc_in_relocated: bool,
    pub tests: bool,
    /// finding feature: forward reference to a definition that shadows an outer definition of the same name
    pub shadow_forward_ref: bool,
    /// generate loops / conditionals / macro calls more often
    pub constructs_boost: bool,
    /// references to the start (`-`) and the end (`+`) of the enclosing block
    #[serde(default)]
    pub block_labels: bool,
    /// a variable that inner scopes redefine in terms of itself (sequential semantics)
    #[serde(default)]
    pub var_shadow: bool,
    /// a name that both branches of an `.if` on a constant define, used outside of the `.if`
    #[serde(default)]
    pub cond_defs: bool,
    /// the forward reference to a shadowing definition sits right in front of the zero page boundary (where the size of the
    /// instruction decides on which side the definition ends up)
    #[serde(default)]
    pub straddle_shadow: bool,
}

impl Default for GenCfg {
    fn default() -> Self {
        GenCfg::c02()
    }
}

impl GenCfg {
    pub fn c02() -> GenCfg {
        GenCfg {
            max_stmts: 60,
            max_depth: 3,
            segments: true,
            relocated: true,
            loops: false,
            macros: false,
            ifs: false,
            imports: false,
            vars: true,
            align: true,
            setpc: true,
            text: true,
            zp_segment: true,
            defs_in_loop: true,
            setpc_in_relocated: true,
            tests: false,
            shadow_forward_ref: true,
            constructs_boost: false,
            block_labels: true,
            var_shadow: true,
            cond_defs: false,
            straddle_shadow: false,
        }
    }
    pub fn full() -> GenCfg {
        GenCfg { loops: true, macros: true, ifs: true, imports: true, ..GenCfg::c02() }
    }
}

pub const NAME_START: &[u8] = b"ghkmquvwz";
/// mnemonics and keywords that a name may start with (`start`, `inc16`, `truecolor`, ...)
pub const NAME_STEMS: &[&str] = &["sta", "inc", "true", "lda", "false", "and", "ascii", "bit", "else", "tax", "petscii", "as", "from", "rts", "Sta", "TRUE"];

const KIND_ADDR: i64 = 0;
const KIND_IMM: i64 = 1;
const KIND_BRANCH: i64 = 2;
const KIND_ZPISH: i64 = 3;
const KIND_STR: i64 = 4;

fn placeholder(kind: i64, sel: u32) -> Expr {
    Expr::Call("@".into(), vec![Expr::num(kind), Expr::num(sel as i64)])
}

#[derive(Clone, Debug, Default, Serialize, Deserialize, PartialEq, Eq, Hash)]
pub struct BuildStats {
    pub labels: usize,
    pub consts: usize,
    pub refs: usize,
    pub forward_refs: usize,
    pub super_paths: usize,
    pub dotted_paths: usize,
    pub shadowed: usize,
    pub segments: usize,
    pub relocated: usize,
    pub cross_segment_refs: usize,
    pub loops: usize,
    pub macros: usize,
    pub macro_calls: usize,
    pub ifs: usize,
    pub imports: usize,
    pub zp_segment: bool,
    pub setpc_in_relocated: usize,
    pub features: BTreeSet<String>,
    #[serde(default)]
    pub block_label_refs: usize,
}

#[derive(Clone, Debug)]
struct Def {
    name: String,
    scope: usize,
    /// walk order index
    order: usize,
    seg: usize,
    kind: DefKind,
    /// inside macro `m` (index) / inside a loop body: only referable from inside
    dyn_owner: Option<usize>,
    unique: bool,
}

#[derive(Clone, Debug, PartialEq, Eq)]
enum DefKind {
    Label,
    ConstPure,
    ConstAddr,
    StrConst,
    Param,
    Index,
}

#[derive(Clone, Debug)]
struct SNode {
    parent: Option<usize>,
    name: Option<String>,
    children: BTreeMap<String, usize>,
    defs: BTreeMap<String, usize>,
    dyn_owner: Option<usize>,
}

struct Builder<'e> {
    e: Ent<'e>,
    cfg: GenCfg,
    next_name: usize,
    budget: usize,
    pure_vals: BTreeMap<String, i64>,
    str_consts: Vec<String>,
    macros: Vec<(String, usize)>,
    seg_names: Vec<String>,
    relocated_segs: BTreeSet<String>,
    stats: BuildStats,
    in_loop: usize,
    in_macro: bool,
    cur_seg_relocated: bool,
    recent_names: Vec<String>,
    scope_names: Vec<BTreeSet<String>>,
}

impl<'e> Builder<'e> {
    fn fresh(&mut self, prefix: &str) -> String {
        self.next_name += 1;
        let c = NAME_START[self.next_name % NAME_START.len()] as char;
        if self.next_name % 4 == 3 {
            // a name that merely starts with a mnemonic or a keyword
            let stem = NAME_STEMS[(self.next_name / 4) % NAME_STEMS.len()];
            return format!("{}{}{}", stem, prefix, self.next_name);
        }
        format!("{}{}{}", c, prefix, self.next_name)
    }

    fn name_for_def(&mut self) -> String {
        // sometimes reuse a recent name to create shadowing in a nested scope
        if !self.recent_names.is_empty() && self.e.chance(if self.cfg.shadow_forward_ref { 3 } else { 1 }, 6) {
            let n = self.e.pick(&self.recent_names).clone();
            if !self.scope_names.last().map(|s| s.contains(&n)).unwrap_or(false) {
                if let Some(s) = self.scope_names.last_mut() {
                    s.insert(n.clone());
                }
                return n;
            }
        }
        let n = self.fresh("l");
        if let Some(s) = self.scope_names.last_mut() {
            s.insert(n.clone());
        }
        self.recent_names.push(n.clone());
        if self.recent_names.len() > 8 {
            self.recent_names.remove(0);
        }
        n
    }

    fn small_lit(&mut self) -> Expr {
        let v = match self.e.below(6) {
            0 => self.e.range(0, 16),
            1 => self.e.range(0, 255),
            2 => *self.e.pick(&[0i64, 1, 127, 128, 255]),
            3 => self.e.range(0, 255),
            4 => self.e.range(1, 9),
            _ => self.e.range(16, 200),
        };
        let radix = *self.e.pick(&[10u8, 16, 2, 10, 16]);
        let zeros = if self.e.chance(1, 8) { self.e.below(3) as u8 } else { 0 };
        Expr::Num { v, radix, zeros }
    }

    fn word_lit(&mut self) -> Expr {
        let v = match self.e.below(5) {
            0 => self.e.range(0x100, 0xffff),
            1 => *self.e.pick(&[0x100i64, 0x101, 0xff, 0xffff, 0x1234, 0xd020, 0x0400]),
            2 => self.e.range(0, 0x1ff),
            _ => self.e.range(0x200, 0xfff0),
        };
        Expr::Num { v, radix: *self.e.pick(&[16u8, 10, 16]), zeros: 0 }
    }

    fn instr(&mut self) -> Stmt {
        let table = isa::table();
        loop {
            let (mn, modes) = &table[self.e.below(table.len())];
            let (mode, _) = modes[self.e.below(modes.len())];
            let sel = self.e.next();
            let (form, operand) = match mode {
                Mode::Imp => (Form::None, None),
                Mode::Imm => {
                    let op = if self.e.chance(1, 2) { placeholder(KIND_IMM, sel) } else { self.small_lit() };
                    (Form::Imm, Some(op))
                }
                Mode::Zp | Mode::Abs => (Form::Plain, Some(self.addr_operand(sel))),
                Mode::Zpx | Mode::Abx => (Form::PlainX, Some(self.addr_operand(sel))),
                Mode::Zpy | Mode::Aby => (Form::PlainY, Some(self.addr_operand(sel))),
                Mode::Izx => (Form::IndX, Some(self.zp_operand())),
                Mode::Izy => (Form::IndY, Some(self.zp_operand())),
                Mode::Ind => (Form::Ind, Some(self.addr_operand(sel))),
                Mode::Rel => (Form::Plain, Some(placeholder(KIND_BRANCH, sel))),
            };
            // forms whose only encoding is zero page need a value <= 255 (stx v,y / sty v,x)
            let zp_only = matches!(form, Form::PlainX | Form::PlainY | Form::Plain)
                && isa::candidates(mn, form).iter().all(|c| c.2 == 1)
                && mode != Mode::Rel;
            let operand = if zp_only { Some(self.zp_operand()) } else { operand };
            return Stmt::Instr { mn: mn.to_string(), form, operand };
        }
    }

    fn instr_simple(&mut self) -> Stmt {
        let (mn, form, operand) = match self.e.below(5) {
            0 => ("nop", Form::None, None),
            1 => ("lda", Form::Imm, Some(self.small_lit())),
            2 => ("sta", Form::Plain, Some(self.word_lit())),
            3 => ("inx", Form::None, None),
            _ => ("asl", Form::None, None),
        };
        Stmt::Instr { mn: mn.into(), form, operand }
    }

    fn zp_operand(&mut self) -> Expr {
        if self.e.chance(1, 3) {
            placeholder(KIND_IMM, self.e.next())
        } else {
            self.small_lit()
        }
    }

    fn addr_operand(&mut self, sel: u32) -> Expr {
        match self.e.below(10) {
            0 => self.small_lit(),
            1 => self.word_lit(),
            2 | 3 => placeholder(KIND_ZPISH, sel),
            _ => placeholder(KIND_ADDR, sel),
        }
    }

    fn data(&mut self) -> Stmt {
        let size = *self.e.pick(&[DataSize::Byte, DataSize::Word, DataSize::Dword, DataSize::Byte, DataSize::Word]);
        let n = 1 + self.e.below(4);
        let mut vals = vec![];
        for _ in 0..n {
            let sel = self.e.next();
            vals.push(match self.e.below(5) {
                0 | 1 => placeholder(KIND_ADDR, sel),
                2 => self.word_lit(),
                3 => {
                    if size == DataSize::Byte {
                        placeholder(KIND_IMM, sel)
                    } else {
                        placeholder(KIND_ZPISH, sel)
                    }
                }
                _ => self.small_lit(),
            });
        }
        Stmt::Data { size, vals }
    }

    fn text(&mut self) -> Stmt {
        let enc = *self.e.pick(&[Encoding::Default, Encoding::Ascii, Encoding::Petscii, Encoding::Petscreen]);
        let words = ["hello", "abc", "x1 y2", "mos 6502", "a@b", "[q]", "Hi There", "z"];
        let e = if !self.str_consts.is_empty() && self.e.chance(1, 3) {
            let n = self.e.pick(&self.str_consts.clone()).clone();
            if self.e.chance(1, 2) {
                Expr::Str(vec![StrPart::Lit("<".into()), StrPart::Interp(vec![n]), StrPart::Lit(">".into())])
            } else {
                Expr::bin(Expr::id(&n), BinOp::Add, Expr::str(*self.e.pick(&words[..])))
            }
        } else {
            Expr::str(*self.e.pick(&words[..]))
        };
        Stmt::Text { enc, e }
    }

    fn pure_expr(&mut self, lo: i64, hi: i64) -> (Expr, i64) {
        // literal or an earlier pure constant whose value lies in range
        let cands: Vec<(String, i64)> = self.pure_vals.iter().filter(|(_, v)| **v >= lo && **v <= hi).map(|(k, v)| (k.clone(), *v)).collect();
        if !cands.is_empty() && !self.in_macro && self.e.chance(1, 3) {
            let (n, v) = self.e.pick(&cands).clone();
            (Expr::id(&n), v)
        } else {
            let v = self.e.range(lo, hi);
            if (v == 0 || v == 1) && self.e.chance(1, 2) {
                // the keyword spelling of 0 and 1 (a case-insensitive keyword operand: the renderer varies its letter case)
                return (Expr::Bool(v == 1), v);
            }
            (Expr::Num { v, radix: *self.e.pick(&[10u8, 16, 10]), zeros: 0 }, v)
        }
    }

    fn block(&mut self, depth: usize, n: usize, top: bool) -> Vec<Stmt> {
        let mut out = vec![];
        for _ in 0..n {
            if self.budget == 0 {
                break;
            }
            self.budget -= 1;
            let mut k = self.e.below(100);
            if self.cfg.constructs_boost && self.e.chance(1, 4) {
                k = 87 + self.e.below(9);
            }
            let can_nest = depth < self.cfg.max_depth;
            let defs_ok = self.in_loop == 0 || self.cfg.defs_in_loop;
            let s = match k {
                0..=39 => self.instr(),
                40..=49 => self.data(),
                50..=53 if self.cfg.text => self.text(),
                54..=63 if defs_ok => {
                    self.stats.labels += 1;
                    Stmt::Label { name: self.name_for_def(), block: None }
                }
                64..=69 if can_nest && defs_ok => {
                    self.stats.labels += 1;
                    let name = self.name_for_def();
                    let m = 1 + self.e.below(5);
                    self.scope_names.push(BTreeSet::new());
                    let b = self.block(depth + 1, m, false);
                    self.scope_names.pop();
                    Stmt::Label { name, block: Some(b) }
                }
                70..=73 if can_nest => {
                    let m = 1 + self.e.below(4);
                    self.scope_names.push(BTreeSet::new());
                    let b = self.block(depth + 1, m, false);
                    self.scope_names.pop();
                    Stmt::Braces(b)
                }
                74..=78 if defs_ok => {
                    self.stats.consts += 1;
                    let name = self.fresh("c");
                    let sel = self.e.next();
                    let kind = if self.e.chance(1, 2) { KIND_ZPISH } else { KIND_ADDR };
                    Stmt::Const { name, e: placeholder(kind, sel) }
                }
                79..=80 if self.cfg.vars && defs_ok && !self.in_macro && top => {
                    let name = self.fresh("v");
                    let (e, v) = self.pure_expr(0, 300);
                    self.pure_vals.insert(name.clone(), v);
                    Stmt::Var { name, e }
                }
                81..=83 if self.cfg.setpc && self.in_loop == 0 && !self.in_macro && (!self.cur_seg_relocated || self.cfg.setpc_in_relocated) => {
                    if self.cur_seg_relocated {
                        self.stats.setpc_in_relocated += 1;
                    }
                    let k = self.e.range(1, 40);
                    Stmt::SetPc(Expr::bin(Expr::Pc, BinOp::Add, Expr::num(k)))
                }
                84..=86 if self.cfg.align => {
                    let n = *self.e.pick(&[2i64, 4, 8, 16, 3, 256, 1, 32]);
                    Stmt::Align(Expr::num(n))
                }
                87..=89 if self.cfg.loops && can_nest => {
                    self.stats.loops += 1;
                    let (count, _) = self.pure_expr(0, 4);
                    let m = 1 + self.e.below(4);
                    self.in_loop += 1;
                    self.scope_names.push(BTreeSet::new());
                    let body = self.block(depth + 1, m, false);
                    self.scope_names.pop();
                    self.in_loop -= 1;
                    Stmt::Loop { count, body }
                }
                90..=92 if self.cfg.ifs && can_nest => {
                    self.stats.ifs += 1;
                    let (a, _) = self.pure_expr(0, 9);
                    let (b, _) = self.pure_expr(0, 9);
                    let op = *self.e.pick(&[BinOp::Eq, BinOp::Ne, BinOp::Lt, BinOp::GtEq, BinOp::Gt, BinOp::LtEq]);
                    let mut cond = Expr::bin(a.clone(), op, b);
                    if self.e.chance(1, 4) {
                        // `.if defined(name)` / `.if !defined(nothing)`
                        cond = match &a {
                            Expr::Id { path, .. } => Expr::Defined(path.clone()),
                            _ => Expr::Not(Box::new(Expr::Defined(vec!["zzundefined".to_string()]))),
                        };
                    }
                    let m = 1 + self.e.below(3);
                    // definitions inside conditionals are only visible when the branch is taken: keep bodies definition-free
                    self.in_loop += 1;
                    let save = self.cfg.defs_in_loop;
                    self.cfg.defs_in_loop = false;
                    let then = self.block(depth + 1, m, false);
                    let els = if self.e.chance(1, 2) {
                        let m = 1 + self.e.below(3);
                        Some(self.block(depth + 1, m, false))
                    } else {
                        None
                    };
                    self.cfg.defs_in_loop = save;
                    self.in_loop -= 1;
                    Stmt::If { cond, then, els }
                }
                93..=95 if self.cfg.macros && !self.macros.is_empty() && !self.in_macro => {
                    self.stats.macro_calls += 1;
                    let (name, np) = self.e.pick(&self.macros.clone()).clone();
                    let mut args = vec![];
                    for _ in 0..np {
                        let sel = self.e.next();
                        args.push(match self.e.below(3) {
                            0 => placeholder(KIND_ADDR, sel),
                            1 => self.small_lit(),
                            _ => self.word_lit(),
                        });
                    }
                    Stmt::MacroCall { name, args }
                }
                96..=98 if top && self.seg_names.len() > 1 && self.in_loop == 0 => {
                    let name = self.e.pick(&self.seg_names.clone()).clone();
                    let m = 1 + self.e.below(5);
                    let save = self.cur_seg_relocated;
                    self.cur_seg_relocated = self.relocated_segs.contains(&name);
                    let b = self.block(depth + 1, m, false);
                    self.cur_seg_relocated = save;
                    Stmt::Segment { name, block: Some(b) }
                }
                _ => self.instr(),
            };
            out.push(s);
        }
        out
    }
}

// ------------------------------------------------------------------ reference resolution (pass 2)

struct Resolver {
    nodes: Vec<SNode>,
    defs: Vec<Def>,
    name_count: HashMap<String, usize>,
}

impl Resolver {
    fn new_node(&mut self, parent: Option<usize>, name: Option<String>, dyn_owner: Option<usize>) -> usize {
        self.nodes.push(SNode { parent, name: name.clone(), children: BTreeMap::new(), defs: BTreeMap::new(), dyn_owner });
        let id = self.nodes.len() - 1;
        if let (Some(p), Some(n)) = (parent, name) {
            self.nodes[p].children.insert(n, id);
        }
        id
    }

    fn try_index(&self, from: usize, path: &[String]) -> Option<(usize, String)> {
        // returns (scope that holds the final component, final name) if it names a def
        let mut cur = from;
        for (i, comp) in path.iter().enumerate() {
            let last = i + 1 == path.len();
            if comp == "super" {
                cur = self.nodes[cur].parent?;
                if last {
                    return None;
                }
            } else if last {
                if self.nodes[cur].defs.contains_key(comp) || self.nodes[cur].children.contains_key(comp) {
                    return Some((cur, comp.clone()));
                }
                return None;
            } else {
                cur = *self.nodes[cur].children.get(comp)?;
            }
        }
        None
    }

    fn resolve(&self, from: usize, path: &[String]) -> Option<usize> {
        let has_super = path.iter().any(|c| c == "super");
        let mut cur = Some(from);
        while let Some(c) = cur {
            if let Some((scope, name)) = self.try_index(c, path) {
                return self.nodes[scope].defs.get(&name).copied();
            }
            if has_super {
                return None;
            }
            cur = self.nodes[c].parent;
        }
        None
    }

    /// all paths (up to a few) by which `def` can be named from scope `from`
    fn paths_to(&self, from: usize, def: usize) -> Vec<Vec<String>> {
        let d = &self.defs[def];
        let mut out = vec![];
        // chain of named scopes from each ancestor of `from` down to d.scope
        let mut chain = vec![];
        let mut s = Some(d.scope);
        let mut names_down: Vec<String> = vec![];
        // ancestors of d.scope with the names needed to descend
        while let Some(sc) = s {
            chain.push((sc, names_down.clone()));
            match (&self.nodes[sc].name, self.nodes[sc].parent) {
                (Some(n), Some(p)) => {
                    names_down.insert(0, n.clone());
                    s = Some(p);
                }
                _ => break,
            }
        }
        for (anc, down) in &chain {
            // is anc an ancestor-or-self of from?
            let mut k = 0;
            let mut cur = Some(from);
            let mut found = false;
            while let Some(c) = cur {
                if c == *anc {
                    found = true;
                    break;
                }
                k += 1;
                cur = self.nodes[c].parent;
            }
            if !found {
                continue;
            }
            let mut p: Vec<String> = down.clone();
            p.push(d.name.clone());
            if self.resolve(from, &p) == Some(def) {
                out.push(p.clone());
            }
            // explicit super chain
            if k > 0 && k <= 3 {
                let mut sp: Vec<String> = vec!["super".to_string(); k];
                sp.extend(p.clone());
                if self.resolve(from, &sp) == Some(def) {
                    out.push(sp);
                }
            }
        }
        out
    }
}

struct Pass2<'e> {
    shadow_forward_ref: bool,
    e: Ent<'e>,
    r: Resolver,
    stats: BuildStats,
    order: usize,
    /// per (block identity) list used for near-label search handled inline
    seg_of_order: Vec<usize>,
}

fn collect_defs(body: &[Stmt], scope: usize, r: &mut Resolver, order: &mut usize, seg: &mut usize, seg_names: &[String], dyn_owner: Option<usize>, owner_ctr: &mut usize) {
    for s in body {
        *order += 1;
        match s {
            Stmt::Label { name, block } => {
                add_def(r, scope, name, *order, *seg, DefKind::Label, dyn_owner);
                if let Some(b) = block {
                    let inner = match r.nodes[scope].children.get(name) {
                        Some(&c) => c,
                        None => r.new_node(Some(scope), Some(name.clone()), dyn_owner),
                    };
                    collect_defs(b, inner, r, order, seg, seg_names, dyn_owner, owner_ctr);
                }
            }
            Stmt::Braces(b) => {
                let inner = r.new_node(Some(scope), None, dyn_owner);
                collect_defs(b, inner, r, order, seg, seg_names, dyn_owner, owner_ctr);
            }
            Stmt::Const { name, e } => {
                let kind = match e {
                    Expr::Str(_) => DefKind::StrConst,
                    Expr::Call(..) => DefKind::ConstAddr,
                    _ => DefKind::ConstPure,
                };
                add_def(r, scope, name, *order, *seg, kind, dyn_owner);
            }
            Stmt::Var { .. } => {}
            Stmt::Loop { body, .. } => {
                *owner_ctr += 1;
                let owner = Some(*owner_ctr);
                let inner = r.new_node(Some(scope), None, owner);
                add_def(r, inner, "index", *order, *seg, DefKind::Index, owner);
                collect_defs(body, inner, r, order, seg, seg_names, owner, owner_ctr);
            }
            Stmt::If { then, els, .. } => {
                collect_defs(then, scope, r, order, seg, seg_names, dyn_owner, owner_ctr);
                if let Some(e) = els {
                    collect_defs(e, scope, r, order, seg, seg_names, dyn_owner, owner_ctr);
                }
            }
            Stmt::MacroDef { params, body, .. } => {
                *owner_ctr += 1;
                let owner = Some(*owner_ctr);
                let inner = r.new_node(Some(scope), None, owner);
                for p in params {
                    add_def(r, inner, p, *order, *seg, DefKind::Param, owner);
                }
                collect_defs(body, inner, r, order, seg, seg_names, owner, owner_ctr);
            }
            Stmt::Test { body, .. } => collect_defs(body, scope, r, order, seg, seg_names, dyn_owner, owner_ctr),
            Stmt::Segment { name, block } => {
                let idx = seg_names.iter().position(|n| n == name).unwrap_or(0);
                match block {
                    Some(b) => {
                        let old = *seg;
                        *seg = idx;
                        collect_defs(b, scope, r, order, seg, seg_names, dyn_owner, owner_ctr);
                        *seg = old;
                    }
                    None => *seg = idx,
                }
            }
            _ => {}
        }
    }
}

fn add_def(r: &mut Resolver, scope: usize, name: &str, order: usize, seg: usize, kind: DefKind, dyn_owner: Option<usize>) {
    *r.name_count.entry(name.to_string()).or_insert(0) += 1;
    if r.nodes[scope].defs.contains_key(name) {
        return;
    }
    r.defs.push(Def { name: name.to_string(), scope, order, seg, kind, dyn_owner, unique: false });
    let id = r.defs.len() - 1;
    r.nodes[scope].defs.insert(name.to_string(), id);
}

impl<'e> Pass2<'e> {
    fn fill_block(&mut self, body: &mut Vec<Stmt>, scope: usize, seg: &mut usize, seg_names: &[String], dyn_owner: Option<usize>, child_scopes: &mut ChildIter) {
        let n = body.len();
        for i in 0..n {
            self.order += 1;
            let here = self.order;
            // near labels for branches: siblings within +-5 statements separated only by simple statements
            let near: Vec<String> = {
                let lo = i.saturating_sub(5);
                let hi = (i + 6).min(n);
                let mut v = vec![];
                for j in lo..hi {
                    if let Stmt::Label { name, .. } = &body[j] {
                        let (a, b) = if j < i { (j, i) } else { (i, j) };
                        let simple = body[a..b].iter().all(|s| match s {
                            Stmt::Instr { .. } | Stmt::Label { block: None, .. } | Stmt::Const { .. } => true,
                            Stmt::Data { vals, .. } => vals.len() <= 2,
                            _ => false,
                        });
                        // the label statement itself may carry a block only when it comes after the branch
                        let ok = match &body[j] {
                            Stmt::Label { block: Some(_), .. } => j > i,
                            _ => true,
                        };
                        if simple && ok {
                            v.push(name.clone());
                        }
                    }
                }
                v
            };
            let s = &mut body[i];
            match s {
                Stmt::Instr { operand, mn, .. } => {
                    if let Some(e) = operand {
                        let is_branch = isa::is_branch(mn);
                        let new = self.fill_expr(e, scope, *seg, here, dyn_owner, &near);
                        match new {
                            Some(ne) => *e = ne,
                            None => {
                                if is_branch {
                                    *s = Stmt::Instr { mn: "nop".into(), form: Form::None, operand: None };
                                }
                            }
                        }
                    }
                }
                Stmt::Data { vals, .. } => {
                    for v in vals.iter_mut() {
                        if let Some(ne) = self.fill_expr(v, scope, *seg, here, dyn_owner, &near) {
                            *v = ne;
                        }
                    }
                }
                Stmt::Const { e, .. } => {
                    if let Some(ne) = self.fill_expr(e, scope, *seg, here, dyn_owner, &near) {
                        *e = ne;
                    }
                }
                Stmt::MacroCall { args, .. } | Stmt::Trace { args: Some(args) } => {
                    for v in args.iter_mut() {
                        if let Some(ne) = self.fill_expr(v, scope, *seg, here, dyn_owner, &near) {
                            *v = ne;
                        }
                    }
                }
                Stmt::Assert { e, .. } => {
                    if let Some(ne) = self.fill_expr(e, scope, *seg, here, dyn_owner, &near) {
                        *e = ne;
                    }
                }
                Stmt::Test { body: b, .. } => self.fill_block(b, scope, seg, seg_names, dyn_owner, child_scopes),
                Stmt::Label { name, block: Some(b) } => {
                    let inner = self.r.nodes[scope].children.get(name.as_str()).copied().unwrap();
                    self.fill_block(b, inner, seg, seg_names, dyn_owner, child_scopes);
                }
                Stmt::Braces(b) => {
                    let inner = child_scopes.next_anon(&self.r, scope);
                    self.fill_block(b, inner, seg, seg_names, dyn_owner, child_scopes);
                }
                Stmt::Loop { body: b, .. } => {
                    let inner = child_scopes.next_anon(&self.r, scope);
                    let owner = self.r.nodes[inner].dyn_owner;
                    self.fill_block(b, inner, seg, seg_names, owner, child_scopes);
                }
                Stmt::If { then, els, .. } => {
                    self.fill_block(then, scope, seg, seg_names, dyn_owner, child_scopes);
                    if let Some(e) = els {
                        self.fill_block(e, scope, seg, seg_names, dyn_owner, child_scopes);
                    }
                }
                Stmt::MacroDef { body: b, .. } => {
                    let inner = child_scopes.next_anon(&self.r, scope);
                    let owner = self.r.nodes[inner].dyn_owner;
                    self.fill_block(b, inner, seg, seg_names, owner, child_scopes);
                }
                Stmt::Segment { name, block } => {
                    let idx = seg_names.iter().position(|n| n == name).unwrap_or(0);
                    match block {
                        Some(b) => {
                            let old = *seg;
                            *seg = idx;
                            self.fill_block(b, scope, seg, seg_names, dyn_owner, child_scopes);
                            *seg = old;
                        }
                        None => *seg = idx,
                    }
                }
                _ => {}
            }
        }
    }

    /// returns the replacement for a placeholder (or rewrites nested placeholders); None = no candidate
    fn fill_expr(&mut self, e: &Expr, scope: usize, seg: usize, here: usize, dyn_owner: Option<usize>, near: &[String]) -> Option<Expr> {
        match e {
            Expr::Call(name, args) if name == "@" => {
                let kind = match &args[0] {
                    Expr::Num { v, .. } => *v,
                    _ => 0,
                };
                let sel = match &args[1] {
                    Expr::Num { v, .. } => *v as u32,
                    _ => 0,
                };
                self.make_ref(kind, sel, scope, seg, here, dyn_owner, near)
            }
            Expr::Bin(l, op, r) => {
                let nl = self.fill_expr(l, scope, seg, here, dyn_owner, near).unwrap_or((**l).clone());
                let nr = self.fill_expr(r, scope, seg, here, dyn_owner, near).unwrap_or((**r).clone());
                Some(Expr::Bin(Box::new(nl), *op, Box::new(nr)))
            }
            _ => None,
        }
    }

    fn candidates(&self, scope: usize, here: usize, dyn_owner: Option<usize>, pred: &dyn Fn(&Def) -> bool) -> Vec<(usize, Vec<Vec<String>>)> {
        let mut v = vec![];
        for (i, d) in self.r.defs.iter().enumerate() {
            if !pred(d) {
                continue;
            }
            // dynamic scopes: a def inside a loop/macro body can only be named from inside the same body
            if d.dyn_owner.is_some() && d.dyn_owner != dyn_owner {
                continue;
            }
            // from inside a macro body only own defs and globally unique root names are safe (dynamic scoping)
            if dyn_owner.is_some() && d.dyn_owner != dyn_owner {
                let is_macro_ctx = true;
                if is_macro_ctx && !(d.scope == 0 && self.r.name_count.get(&d.name) == Some(&1)) {
                    continue;
                }
            }
            let mut paths = self.r.paths_to(scope, i);
            if dyn_owner.is_some() && d.dyn_owner != dyn_owner {
                // from inside a macro (or loop) body an outer name is looked up from wherever the body is emitted
                // (dynamic scoping): only a bare, globally unique name means the same thing at every invocation
                paths.retain(|p| p.len() == 1);
            }
            if matches!(d.kind, DefKind::Index | DefKind::Param) {
                // `index` and macro parameters are substituted textually by the hand expansion: bare names only
                paths.retain(|p| p.len() == 1);
            }
            if d.order > here {
                // a forward reference whose first path component is also defined elsewhere binds differently
                // from pass to pass (recorded finding): only generated when the feature is on
                let multi = |p: &Vec<String>| {
                    let first = p.iter().find(|c| *c != "super").unwrap();
                    self.r.name_count.get(first).copied().unwrap_or(0) > 1
                };
                if self.shadow_forward_ref {
                    // keep
                } else {
                    paths.retain(|p| !multi(p));
                }
            }
            if !paths.is_empty() {
                v.push((i, paths));
            }
        }
        if self.shadow_forward_ref {
            // confirmation campaign: prefer the forward references to shadowing definitions
            let flagged: Vec<(usize, Vec<Vec<String>>)> = v
                .iter()
                .filter(|(i, _)| self.r.defs[*i].order > here)
                .map(|(i, paths)| {
                    let ps: Vec<Vec<String>> = paths
                        .iter()
                        .filter(|p| {
                            let first = p.iter().find(|c| *c != "super").unwrap();
                            self.r.name_count.get(first).copied().unwrap_or(0) > 1
                        })
                        .cloned()
                        .collect();
                    (*i, ps)
                })
                .filter(|(_, ps)| !ps.is_empty())
                .collect();
            if !flagged.is_empty() {
                return flagged;
            }
        }
        v
    }

    fn pick_path(&mut self, sel: u32, cands: &[(usize, Vec<Vec<String>>)], here: usize, seg: usize) -> Option<(usize, Vec<String>)> {
        if cands.is_empty() {
            return None;
        }
        let i = ((sel as u64 * cands.len() as u64) >> 32) as usize;
        let (d, paths) = &cands[i];
        let j = self.e.below(paths.len());
        let p = paths[j].clone();
        self.stats.refs += 1;
        if self.r.defs[*d].order > here {
            self.stats.forward_refs += 1;
            let first = p.iter().find(|c| *c != "super").unwrap();
            if self.r.name_count.get(first).copied().unwrap_or(0) > 1 {
                self.stats.features.insert("forward_ref_to_shadowing_definition".into());
            }
        }
        if p.iter().any(|c| c == "super") {
            self.stats.super_paths += 1;
        } else if p.len() > 1 {
            self.stats.dotted_paths += 1;
        }
        if self.r.name_count.get(&self.r.defs[*d].name).copied().unwrap_or(0) > 1 {
            self.stats.shadowed += 1;
        }
        if self.r.defs[*d].seg != seg && self.r.defs[*d].kind == DefKind::Label {
            self.stats.cross_segment_refs += 1;
        }
        Some((*d, p))
    }

    fn make_ref(&mut self, kind: i64, sel: u32, scope: usize, seg: usize, here: usize, dyn_owner: Option<usize>, near: &[String]) -> Option<Expr> {
        match kind {
            KIND_BRANCH => {
                if near.is_empty() {
                    return None;
                }
                let name = near[((sel as u64 * near.len() as u64) >> 32) as usize].clone();
                // the bare name must resolve to that sibling label
                let path = vec![name];
                let d = self.r.resolve(scope, &path)?;
                if self.r.defs[d].scope != scope || self.r.defs[d].kind != DefKind::Label {
                    return None;
                }
                if self.r.defs[d].order > here && self.r.name_count.get(&self.r.defs[d].name).copied().unwrap_or(0) > 1 {
                    if !self.shadow_forward_ref {
                        return None;
                    }
                    self.stats.features.insert("forward_ref_to_shadowing_definition".into());
                }
                self.stats.refs += 1;
                if self.r.defs[d].order > here {
                    self.stats.forward_refs += 1;
                }
                Some(Expr::Id { path, modifier: None })
            }
            KIND_IMM => {
                let cands = self.candidates(scope, here, dyn_owner, &|d| matches!(d.kind, DefKind::Label | DefKind::ConstAddr | DefKind::ConstPure | DefKind::Param));
                match self.pick_path(sel, &cands, here, seg) {
                    Some((_, p)) => Some(Expr::Id { path: p, modifier: Some(if sel & 1 == 0 { '<' } else { '>' }) }),
                    None => Some(Expr::num((sel % 256) as i64)),
                }
            }
            KIND_ZPISH => {
                // an expression whose value may land on either side of 255/256: later - earlier label of the same
                // segment, or label - K
                let labels = self.candidates(scope, here, dyn_owner, &|d| d.kind == DefKind::Label);
                if labels.len() >= 2 && sel & 1 == 0 {
                    let a = self.pick_path(sel, &labels, here, seg)?;
                    let b = self.pick_path(sel.rotate_left(13) ^ 0x9e37_79b9, &labels, here, seg)?;
                    let (da, db) = (&self.r.defs[a.0], &self.r.defs[b.0]);
                    if da.seg == db.seg && a.0 != b.0 && da.dyn_owner == db.dyn_owner {
                        let (hi, lo) = if da.order > db.order { (a.1, b.1) } else { (b.1, a.1) };
                        return Some(Expr::bin(Expr::Id { path: hi, modifier: None }, BinOp::Sub, Expr::Id { path: lo, modifier: None }));
                    }
                }
                let any = self.candidates(scope, here, dyn_owner, &|d| matches!(d.kind, DefKind::Label | DefKind::ConstAddr | DefKind::ConstPure | DefKind::Param | DefKind::Index));
                match self.pick_path(sel, &any, here, seg) {
                    Some((_, p)) => Some(Expr::Id { path: p, modifier: None }),
                    None => Some(Expr::num((sel % 512) as i64)),
                }
            }
            _ => {
                let any = self.candidates(scope, here, dyn_owner, &|d| matches!(d.kind, DefKind::Label | DefKind::ConstAddr | DefKind::ConstPure | DefKind::Param | DefKind::Index));
                match self.pick_path(sel, &any, here, seg) {
                    Some((_, p)) => {
                        let base = Expr::Id { path: p, modifier: None };
                        Some(match sel % 5 {
                            0 => Expr::bin(base, BinOp::Add, Expr::num((sel >> 8) as i64 % 8)),
                            _ => base,
                        })
                    }
                    None => Some(Expr::hex(0x1000 + (sel % 0x8000) as i64)),
                }
            }
        }
    }
}

/// iterates anonymous child scopes of a node in creation order
#[derive(Default)]
struct ChildIter {
    used: HashMap<usize, usize>,
}

impl ChildIter {
    fn next_anon(&mut self, r: &Resolver, scope: usize) -> usize {
        let k = self.used.entry(scope).or_insert(0);
        let anon: Vec<usize> = r.nodes.iter().enumerate().filter(|(_, n)| n.parent == Some(scope) && n.name.is_none()).map(|(i, _)| i).collect();
        let id = anon[*k];
        *k += 1;
        id
    }
}

#[derive(Clone, Debug, Hash, PartialEq, Eq, Serialize, Deserialize)]
pub struct Built {
    pub prog: Program,
    pub stats: BuildStats,
}

/// A label, `.segment "x"` or `.import` without a block that is followed by `{` would take that block as
/// its own (a block may start on the next line everywhere in the grammar): keep them apart.
pub fn separate_ambiguous(body: &mut Vec<Stmt>) {
    let mut i = 0;
    while i + 1 < body.len() {
        let takes_block = matches!(
            &body[i],
            Stmt::Label { block: None, .. } | Stmt::Segment { block: None, .. } | Stmt::Import { block: None, .. }
        );
        if takes_block && matches!(&body[i + 1], Stmt::Braces(_)) {
            // a byte-free statement, so that expansions stay byte-identical
            body.insert(i + 1, Stmt::Assert { e: Expr::num(1), msg: None });
        }
        i += 1;
    }
    for s in body.iter_mut() {
        for c in s.children_mut() {
            separate_ambiguous(c);
        }
    }
}

fn strip_const_refs_to_consts(p: &mut Program) {
    for body in p.files.values_mut() {
        separate_ambiguous(body);
    }
}

pub fn build(entropy: &[u32], cfg: &GenCfg) -> Built {
    let split = entropy.len() / 2;
    let (e1, e2) = entropy.split_at(split);
    let mut b = Builder {
        e: Ent::new(e1),
        cfg: cfg.clone(),
        next_name: 0,
        budget: 0,
        pure_vals: BTreeMap::new(),
        str_consts: vec![],
        macros: vec![],
        seg_names: vec![],
        relocated_segs: BTreeSet::new(),
        stats: BuildStats::default(),
        in_loop: 0,
        in_macro: false,
        cur_seg_relocated: false,
        recent_names: vec![],
        scope_names: vec![BTreeSet::new()],
    };
    let mut main: Vec<Stmt> = vec![];
    let mut shadow_first = false;
    b.budget = 3 + b.e.below(cfg.max_stmts.max(4) - 3);

    // 1. segments
    if cfg.segments && b.e.chance(2, 5) {
        let n = 1 + b.e.below(3);
        let mut bases: Vec<i64> = vec![0x0200, 0x1000, 0x4000, 0x8000, 0xc000, 0x6000];
        let names = ["sa", "sb", "sc"];
        for i in 0..n {
            let name = names[i].to_string();
            let base_idx = b.e.below(bases.len());
            let mut base = bases.remove(base_idx);
            if cfg.zp_segment && i == 0 && b.e.chance(1, 2) {
                base = b.e.range(0xa0, 0xf8);
                b.stats.zp_segment = true;
            }
            let start = if i > 0 && b.e.chance(1, 4) {
                let prev = names[i - 1];
                Expr::Id { path: vec!["segments".into(), prev.into(), "end".into()], modifier: None }
            } else {
                Expr::hex(base)
            };
            let pc = if cfg.relocated && b.e.chance(1, 4) {
                b.stats.relocated += 1;
                b.relocated_segs.insert(name.clone());
                Some(Expr::hex(*b.e.pick(&[0x8000i64, 0x9000, 0x0400, 0xe000, 0x00c0])))
            } else {
                None
            };
            main.push(Stmt::DefineSegment { name: name.clone(), start: Some(start), pc, write: None, bank: None });
            b.seg_names.push(name);
        }
        b.stats.segments = n;
        b.cur_seg_relocated = b.relocated_segs.contains("sa");
    } else if cfg.zp_segment && b.e.chance(1, 4) {
        // default segment moved into the zero page / page one boundary
        let mut base = b.e.range(0xa0, 0xf8);
        // (decided by something else than the entropy stream, which the programs of the stored cases depend on)
        let h = entropy.iter().fold(0x811c_9dc5u32, |a, v| (a ^ v).wrapping_mul(0x0100_0193));
        if cfg.shadow_forward_ref && cfg.straddle_shadow && h % 3 != 0 {
            base = 0xf4 + ((h >> 8) % 10) as i64;
            shadow_first = true;
        }
        main.push(Stmt::SetPc(Expr::hex(base)));
        b.stats.zp_segment = true;
        if shadow_first {
            shadow_template(&mut b, &mut main, true);
            b.stats.features.insert("shadowing_definition_at_the_zero_page_boundary".into());
        }
    }

    // 2. pure constants (numbers and strings)
    let nconst = b.e.below(4);
    for _ in 0..nconst {
        let name = b.fresh("k");
        if cfg.text && b.e.chance(1, 4) {
            let words = ["ab", "xyz", "q9", "mos"];
            main.push(Stmt::Const { name: name.clone(), e: Expr::str(*b.e.pick(&words[..])) });
            b.str_consts.push(name);
        } else {
            let (e, v) = b.pure_expr(0, 300);
            main.push(Stmt::Const { name: name.clone(), e });
            b.pure_vals.insert(name, v);
        }
    }

    // 3. macros
    if cfg.macros {
        let nm = b.e.below(3);
        for _ in 0..nm {
            let name = b.fresh("m");
            let np = b.e.below(3);
            let params: Vec<String> = (0..np).map(|_| b.fresh("p")).collect();
            let m = 1 + b.e.below(4);
            b.in_macro = true;
            let save_budget = b.budget;
            b.budget = m;
            b.scope_names.push(BTreeSet::new());
            let body = b.block(1, m, false);
            b.scope_names.pop();
            b.budget = save_budget;
            b.in_macro = false;
            b.stats.macros += 1;
            main.push(Stmt::MacroDef { name: name.clone(), params, body });
            b.macros.push((name, np));
        }
    }

    // 4. body
    let n = b.budget;
    let body = b.block(0, n, true);
    main.extend(body);

    if cfg.shadow_forward_ref && !shadow_first && b.e.chance(3, 4) {
        shadow_template(&mut b, &mut main, false);
    }

    if cfg.vars && cfg.var_shadow && b.e.chance(1, 8) {
        // a variable that an inner scope redefines in terms of itself: every use sees the value given last, in source order
        let v = b.fresh("v");
        main.push(Stmt::Var { name: v.clone(), e: Expr::num(b.e.range(0, 40)) });
        for _ in 0..1 + b.e.below(2) {
            let mut inner = vec![Stmt::Data { size: DataSize::Byte, vals: vec![Expr::id(&v)] }];
            for _ in 0..1 + b.e.below(2) {
                inner.push(Stmt::Var { name: v.clone(), e: Expr::bin(Expr::id(&v), BinOp::Add, Expr::num(b.e.range(1, 5))) });
                inner.push(Stmt::Instr { mn: "lda".into(), form: Form::Imm, operand: Some(Expr::id(&v)) });
            }
            main.push(Stmt::Braces(inner));
        }
        main.push(Stmt::Data { size: DataSize::Byte, vals: vec![Expr::id(&v)] });
    }

    if cfg.tests {
        // tests whose bodies, assertions and traces refer to what the program defines (never emitted by a build; the
        // language server looks into them)
        let seed: Vec<u32> = entropy.iter().map(|v| v.rotate_left(19) ^ 0x85eb_ca6b).collect();
        let mut e5 = Ent::new(&seed);
        for k in 0..e5.below(3) {
            let mut body: Vec<Stmt> = vec![];
            for _ in 0..1 + e5.below(3) {
                let sel = e5.next();
                body.push(match e5.below(5) {
                    0 => Stmt::Instr { mn: "jsr".into(), form: Form::Plain, operand: Some(placeholder(KIND_ADDR, sel)) },
                    1 => Stmt::Instr { mn: "lda".into(), form: Form::Plain, operand: Some(placeholder(KIND_ADDR, sel)) },
                    2 => Stmt::Assert {
                        e: Expr::bin(Expr::path(&["cpu".to_string(), "a".to_string()]), BinOp::Eq, placeholder(KIND_IMM, sel)),
                        msg: if e5.chance(1, 2) { Some("not what was expected".into()) } else { None },
                    },
                    3 => Stmt::Assert { e: Expr::bin(placeholder(KIND_ADDR, sel), BinOp::GtEq, Expr::num(0)), msg: None },
                    _ => Stmt::Trace { args: Some(vec![placeholder(KIND_ADDR, sel), placeholder(KIND_ZPISH, sel.rotate_left(9))]) },
                });
            }
            body.push(Stmt::Instr { mn: "brk".into(), form: Form::None, operand: None });
            main.push(Stmt::Test { name: format!("zztest{}", k), body });
            b.stats.features.insert("test_with_references".into());
        }
    }

    let mut prog = Program::single(main);
    strip_const_refs_to_consts(&mut prog);

    // ---- pass 2: resolve placeholders
    let mut r = Resolver { nodes: vec![], defs: vec![], name_count: HashMap::new() };
    let root = r.new_node(None, None, None);
    let mut order = 0;
    let mut seg = 0;
    let mut owner_ctr = 0;
    let seg_names = b.seg_names.clone();
    collect_defs(prog.main(), root, &mut r, &mut order, &mut seg, &seg_names, None, &mut owner_ctr);
    let mut p2 = Pass2 { shadow_forward_ref: cfg.shadow_forward_ref, e: Ent::new(e2), r, stats: b.stats.clone(), order: 0, seg_of_order: vec![] };
    let mut seg = 0;
    let mut ci = ChildIter::default();
    let mut main = std::mem::take(prog.main_mut());
    p2.fill_block(&mut main, root, &mut seg, &seg_names, None, &mut ci);
    *prog.main_mut() = main;
    // constants must not (transitively) refer to themselves: a constant may only refer to labels and pure constants
    let mut stats = p2.stats.clone();
    fix_const_cycles(&mut prog);
    if cfg.cond_defs {
        let seed: Vec<u32> = entropy.iter().map(|v| v.rotate_left(11) ^ 0x5bd1_e995).collect();
        let mut e4 = Ent::new(&seed);
        let main = prog.main_mut();
        for k in 0..e4.below(3) {
            let sel = format!("zzsel{}", k);
            let name = format!("zzcd{}", k);
            let use_of = |e: &mut Ent, as_label: bool| -> Stmt {
                match (as_label, e.below(3)) {
                    (true, 0) => Stmt::Instr { mn: "jmp".into(), form: Form::Plain, operand: Some(Expr::id(&name)) },
                    (false, 0) => Stmt::Instr { mn: "lda".into(), form: Form::Imm, operand: Some(Expr::id(&name)) },
                    (_, 1) => Stmt::Data { size: DataSize::Word, vals: vec![Expr::id(&name)] },
                    _ => Stmt::Instr { mn: "lda".into(), form: Form::Plain, operand: Some(Expr::id(&name)) },
                }
            };
            let as_label = e4.chance(1, 2);
            let def = |e: &mut Ent, v: i64| -> Vec<Stmt> {
                let mut b = vec![];
                if as_label {
                    b.push(Stmt::Label { name: name.clone(), block: None });
                    b.push(Stmt::Instr { mn: (*e.pick(&["nop", "inx", "clc"])).into(), form: Form::None, operand: None });
                } else {
                    b.push(Stmt::Const { name: name.clone(), e: Expr::num(v) });
                }
                if e.chance(1, 2) {
                    // (a use inside the branch itself)
                    b.push(Stmt::Data { size: DataSize::Byte, vals: vec![Expr::Id { path: vec![name.clone()], modifier: Some('<') }] });
                }
                b
            };
            main.push(Stmt::Const { name: sel.clone(), e: Expr::num(e4.below(2) as i64) });
            if e4.chance(1, 2) {
                let u = use_of(&mut e4, as_label);
                main.push(u);
            }
            let then = def(&mut e4, 11);
            let els = def(&mut e4, 22);
            let cond = if e4.chance(1, 2) { Expr::id(&sel) } else { Expr::bin(Expr::id(&sel), BinOp::Eq, Expr::num(1)) };
            main.push(Stmt::If { cond, then, els: Some(els) });
            let u = use_of(&mut e4, as_label);
            main.push(u);
        }
    }
    if cfg.block_labels {
        let seed: Vec<u32> = entropy.iter().rev().map(|v| v.rotate_left(7) ^ 0x9e37_79b9).collect();
        let mut e3 = Ent::new(&seed);
        let mut n = 0;
        add_block_label_refs(prog.main_mut(), false, &mut e3, &mut n);
        stats.block_label_refs = n;
    }
    stats.features.extend(b.stats.features.clone());
    Built { prog, stats }
}

/// A use that precedes an inner definition that shadows an outer one (at the zero page boundary: a zero-page-or-absolute
/// instruction whose size decides whether the inner label ends up below $100)
fn shadow_template(b: &mut Builder, main: &mut Vec<Stmt>, at_boundary: bool) {
    let name = b.fresh("l");
    let outer_is_const = at_boundary || b.e.chance(1, 3);
    let mut inner: Vec<Stmt> = vec![];
    for _ in 0..b.e.below(3) {
        inner.push(b.instr_simple());
    }
    let path = vec![name.clone()];
    inner.push(match if at_boundary { 3 } else { b.e.below(4) } {
        0 => Stmt::Instr { mn: "bne".into(), form: Form::Plain, operand: Some(Expr::path(&path)) },
        1 => Stmt::Instr { mn: "jmp".into(), form: Form::Plain, operand: Some(Expr::path(&path)) },
        2 => Stmt::Data { size: DataSize::Word, vals: vec![Expr::path(&path)] },
        _ => Stmt::Instr { mn: "lda".into(), form: Form::Plain, operand: Some(Expr::path(&path)) },
    });
    for _ in 0..b.e.below(3) {
        inner.push(b.instr_simple());
    }
    inner.push(Stmt::Label { name: name.clone(), block: None });
    inner.push(b.instr_simple());
    if outer_is_const {
        main.push(Stmt::Const { name: name.clone(), e: Expr::hex(0x0300 + b.e.below(200) as i64) });
        main.push(Stmt::Braces(inner));
    } else if b.e.chance(1, 2) {
        main.push(Stmt::Label { name: name.clone(), block: Some(inner) });
    } else {
        main.push(Stmt::Label { name: name.clone(), block: None });
        main.push(b.instr_simple());
        main.push(Stmt::Braces(inner));
    }
    b.stats.features.insert("forward_ref_to_shadowing_definition".into());
}

/// References to `-` / `+` inside blocks that have them (braces, labelled blocks, loop and macro bodies; the blocks of
/// `.if` and `.segment` belong to the block around them).
fn add_block_label_refs(body: &mut Vec<Stmt>, in_block: bool, e: &mut Ent, n: &mut usize) {
    for s in body.iter_mut() {
        match s {
            Stmt::Label { block: Some(b), .. } | Stmt::Braces(b) | Stmt::Loop { body: b, .. } | Stmt::MacroDef { body: b, .. } => add_block_label_refs(b, true, e, n),
            Stmt::If { then, els, .. } => {
                add_block_label_refs(then, in_block, e, n);
                if let Some(b) = els {
                    add_block_label_refs(b, in_block, e, n);
                }
            }
            Stmt::Segment { block: Some(b), .. } => add_block_label_refs(b, in_block, e, n),
            _ => {}
        }
    }
    if !in_block || !e.chance(1, 3) {
        return;
    }
    let small = body.len() <= 12
        && body.iter().all(|s| match s {
            Stmt::Instr { .. } | Stmt::Label { block: None, .. } | Stmt::Const { .. } => true,
            Stmt::Data { vals, size } => vals.len() <= 2 && *size != DataSize::Dword,
            _ => false,
        });
    let minus = Expr::id("-");
    let plus = Expr::id("+");
    let st = match e.below(if small { 7 } else { 5 }) {
        0 => Stmt::Instr { mn: "jmp".into(), form: Form::Plain, operand: Some(minus) },
        1 => Stmt::Instr { mn: "jmp".into(), form: Form::Plain, operand: Some(plus) },
        2 => Stmt::Data { size: DataSize::Word, vals: vec![minus, plus] },
        3 => Stmt::Data { size: DataSize::Word, vals: vec![Expr::bin(plus, BinOp::Sub, minus)] },
        4 => Stmt::Instr { mn: "jsr".into(), form: Form::Plain, operand: Some(Expr::bin(minus, BinOp::Add, Expr::num(1))) },
        5 => Stmt::Instr { mn: "bne".into(), form: Form::Plain, operand: Some(minus) },
        _ => Stmt::Instr { mn: "beq".into(), form: Form::Plain, operand: Some(plus) },
    };
    let at = e.below(body.len() + 1);
    body.insert(at, st);
    *n += 1;
}

/// Address-dependent constants may have been given references to other address-dependent constants,
/// possibly cyclic. Replace any reference from a ConstAddr definition to a non-label by a literal.
fn fix_const_cycles(prog: &mut Program) {
    // collect names of address-dependent constants (defined from an Id/Bin expression)
    let mut const_names: BTreeSet<String> = BTreeSet::new();
    for body in prog.files.values() {
        visit_stmts(body, &mut |s| {
            if let Stmt::Const { name, e } = s {
                if !matches!(e, Expr::Num { .. } | Expr::Str(_)) {
                    const_names.insert(name.clone());
                }
            }
        });
    }
    fn rewrite(e: &mut Expr, consts: &BTreeSet<String>) {
        match e {
            Expr::Id { path, .. } => {
                if let Some(last) = path.last() {
                    if consts.contains(last) {
                        *e = Expr::hex(0x00f0);
                    }
                }
            }
            Expr::Bin(l, _, r) => {
                rewrite(l, consts);
                rewrite(r, consts);
            }
            _ => {}
        }
    }
    fn walk(b: &mut Vec<Stmt>, consts: &BTreeSet<String>) {
        for s in b.iter_mut() {
            if let Stmt::Const { e, .. } = s {
                rewrite(e, consts);
            }
            for c in s.children_mut() {
                walk(c, consts);
            }
        }
    }
    for body in prog.files.values_mut() {
        walk(body, &const_names);
    }
}

/// simple pure evaluation used by generators (no symbols)
pub struct NoEnv;
impl Env for NoEnv {
    fn lookup(&mut self, path: &[String]) -> Result<Value, EvalErr> {
        Err(EvalErr::Undefined(path.to_vec()))
    }
    fn defined(&mut self, _path: &[String]) -> Result<bool, EvalErr> {
        Ok(false)
    }
    fn pc(&mut self) -> Result<i64, EvalErr> {
        Err(EvalErr::Unsupported("pc".into()))
    }
}

pub fn eval_pure(e: &Expr) -> Option<i64> {
    match eval::eval(e, &mut NoEnv) {
        Ok(Value::Int(n)) => Some(n),
        _ => None,
    }
}
