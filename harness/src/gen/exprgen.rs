//! Expression tree generator with value tracking (domain guard by construction).

use crate::gen::ast::*;
use crate::gen::build::Ent;
use crate::model::eval::{apply_int, EvalErr};

#[derive(Clone, Debug, Default)]
pub struct ExprCtx {
    /// identifier paths with known integer values
    pub nums: Vec<(Vec<String>, i64)>,
    /// string constants
    pub strs: Vec<(String, String)>,
    /// names that are defined nowhere
    pub undefined: Vec<String>,
    /// value of `*` at the expression site, if allowed
    pub pc: Option<i64>,
    pub excluded_by_guard: u64,
    pub allow_neg_nonalnum: bool,
}

pub const BOUNDARY: [i64; 16] = [0, 1, 2, 3, 7, 8, 15, 16, 127, 128, 255, 256, 257, 0x7fff, 0xffff, 0x10000];

fn lit(e: &mut Ent) -> (Expr, i64) {
    let v = match e.below(6) {
        0 => *e.pick(&BOUNDARY),
        1 => e.range(0, 20),
        2 => e.range(0, 0xffff),
        3 => e.range(0, 0x7fff_ffff),
        4 => e.range(0, 300),
        _ => e.range(1, 9),
    };
    let radix = *e.pick(&[10u8, 16, 2, 10, 16]);
    let zeros = if e.chance(1, 6) { 1 + e.below(3) as u8 } else { 0 };
    (Expr::Num { v, radix, zeros }, v)
}

/// ordinary integer arithmetic is only unambiguous for / and % on non-negative operands (or exact
/// division) and for >> on a non-negative left operand
fn unambiguous(op: BinOp, l: i64, r: i64) -> bool {
    match op {
        BinOp::Div | BinOp::Mod => (l >= 0 && r > 0) || (r != 0 && l % r == 0),
        BinOp::Shr => l >= 0,
        BinOp::Shl => l >= 0,
        _ => true,
    }
}

pub fn gen_str(e: &mut Ent, ctx: &mut ExprCtx, depth: usize) -> (Expr, String) {
    let words = ["a", "bc", "xyz", "q 1", "", "mos", "A", "[z]"];
    match e.below(if depth == 0 { 3 } else { 5 }) {
        0 => {
            let w = *e.pick(&words[..]);
            (Expr::str(w), w.to_string())
        }
        1 if !ctx.strs.is_empty() => {
            let (n, v) = e.pick(&ctx.strs.clone()).clone();
            (Expr::id(&n), v)
        }
        2 => {
            // interpolation of strings and numbers
            let mut parts = vec![];
            let mut val = String::new();
            for _ in 0..1 + e.below(3) {
                match e.below(3) {
                    0 => {
                        let w = *e.pick(&["a", "-", "x y", "9"][..]);
                        parts.push(StrPart::Lit(w.to_string()));
                        val.push_str(w);
                    }
                    1 if !ctx.strs.is_empty() => {
                        let (n, v) = e.pick(&ctx.strs.clone()).clone();
                        parts.push(StrPart::Interp(vec![n]));
                        val.push_str(&v);
                    }
                    _ if !ctx.nums.is_empty() => {
                        let (p, v) = e.pick(&ctx.nums.clone()).clone();
                        parts.push(StrPart::Interp(p));
                        val.push_str(&v.to_string());
                    }
                    _ => {
                        parts.push(StrPart::Lit("k".into()));
                        val.push('k');
                    }
                }
            }
            (Expr::Str(parts), val)
        }
        _ => {
            let (l, lv) = gen_str(e, ctx, depth.saturating_sub(1));
            let (r, rv) = gen_str(e, ctx, depth.saturating_sub(1));
            (Expr::bin(l, BinOp::Add, r), lv + &rv)
        }
    }
}

pub fn gen_int(e: &mut Ent, ctx: &mut ExprCtx, depth: usize) -> (Expr, i64) {
    if depth == 0 || e.chance(1, 5) {
        return leaf(e, ctx);
    }
    match e.below(10) {
        0 => {
            let (inner, v) = gen_int(e, ctx, depth - 1);
            (Expr::Paren(Box::new(inner)), v)
        }
        1 => {
            let (inner, v) = gen_int(e, ctx, depth - 1);
            let inner = match inner {
                Expr::Bin(..) => Expr::Paren(Box::new(inner)),
                // (`!!x` is not in the grammar; `!-x` is the not of the negation)
                Expr::Not(_) => Expr::Paren(Box::new(inner)),
                o => o,
            };
            (Expr::Not(Box::new(inner)), (v == 0) as i64)
        }
        2 => {
            // string comparison yields 0/1
            let (l, lv) = gen_str(e, ctx, 1);
            let (r, rv) = if e.chance(1, 2) { (l.clone(), lv.clone()) } else { gen_str(e, ctx, 1) };
            let op = if e.chance(1, 2) { BinOp::Eq } else { BinOp::Ne };
            let v = if op == BinOp::Eq { lv == rv } else { lv != rv } as i64;
            (Expr::bin(l, op, r), v)
        }
        _ => {
            let op = if e.chance(3, 5) {
                *e.pick(&[BinOp::Add, BinOp::Sub, BinOp::Mul, BinOp::Div, BinOp::Mod, BinOp::Add, BinOp::Sub, BinOp::Mul])
            } else {
                ALL_BINOPS[e.below(ALL_BINOPS.len())]
            };
            let (l, lv) = gen_int(e, ctx, depth - 1);
            let (r, rv) = match op {
                BinOp::Shl | BinOp::Shr => {
                    let hi = if e.chance(1, 4) { 31 } else { 8 };
                    let v = e.range(0, hi);
                    (Expr::num(v), v)
                }
                BinOp::Div | BinOp::Mod if e.chance(2, 3) => {
                    let v = e.range(1, 17);
                    (Expr::num(v), v)
                }
                _ => gen_int(e, ctx, depth - 1),
            };
            let mut op = op;
            let mut tries = 0;
            loop {
                let ok = match apply_int(op, lv, rv) {
                    Ok(v) => {
                        if unambiguous(op, lv, rv) && v.abs() < (1i64 << 62) {
                            Some(v)
                        } else {
                            None
                        }
                    }
                    Err(EvalErr::OutOfDomain(_)) => None,
                    Err(_) => None,
                };
                if let Some(v) = ok {
                    return (Expr::bin(l, op, r), v);
                }
                ctx.excluded_by_guard += 1;
                tries += 1;
                op = match tries {
                    1 => BinOp::Sub,
                    2 => BinOp::Xor,
                    _ => BinOp::Ne,
                };
            }
        }
    }
}

fn leaf(e: &mut Ent, ctx: &mut ExprCtx) -> (Expr, i64) {
    match e.below(12) {
        0..=3 => lit(e),
        4 => {
            let b = e.chance(1, 2);
            (Expr::Bool(b), b as i64)
        }
        5 | 6 | 7 if !ctx.nums.is_empty() => {
            let (p, v) = e.pick(&ctx.nums.clone()).clone();
            match e.below(4) {
                0 => (Expr::Id { path: p, modifier: Some('<') }, v & 0xff),
                1 => (Expr::Id { path: p, modifier: Some('>') }, (v >> 8) & 0xff),
                _ => (Expr::Id { path: p, modifier: None }, v),
            }
        }
        8 if ctx.pc.is_some() => (Expr::Pc, ctx.pc.unwrap()),
        9 => {
            // defined()
            if !ctx.nums.is_empty() && e.chance(1, 2) {
                let (p, _) = e.pick(&ctx.nums.clone()).clone();
                (Expr::Defined(p), 1)
            } else if !ctx.undefined.is_empty() {
                let n = e.pick(&ctx.undefined.clone()).clone();
                (Expr::Defined(vec![n]), 0)
            } else {
                lit(e)
            }
        }
        10 => {
            // unary minus directly in front of a decimal literal or an identifier
            if !ctx.nums.is_empty() && e.chance(1, 2) {
                let (p, v) = e.pick(&ctx.nums.clone()).clone();
                (Expr::Neg(Box::new(Expr::Id { path: p, modifier: None })), -v)
            } else if !ctx.nums.is_empty() && e.chance(1, 4) {
                // the negated low or high byte of a name
                let (p, v) = e.pick(&ctx.nums.clone()).clone();
                let hi = e.chance(1, 2);
                let b = if hi { (v >> 8) & 255 } else { v & 255 };
                (Expr::Neg(Box::new(Expr::Id { path: p, modifier: Some(if hi { '>' } else { '<' }) })), -b)
            } else {
                let v = e.range(0, 70000);
                // (in front of a decimal, hexadecimal or binary literal or a parenthesis)
                match e.below(6) {
                    0 => (Expr::Neg(Box::new(Expr::Num { v, radix: 16, zeros: 0 })), -v),
                    1 => (Expr::Neg(Box::new(Expr::Num { v, radix: 2, zeros: 0 })), -v),
                    2 => (Expr::Neg(Box::new(Expr::Paren(Box::new(Expr::num(v))))), -v),
                    _ => (Expr::Neg(Box::new(Expr::num(v))), -v),
                }
            }
        }
        _ => lit(e),
    }
}

/// number of places where the rendering relies on documented precedence / associativity
/// (a binary child rendered without parentheses)
pub fn bare_decisions(e: &Expr) -> usize {
    match e {
        Expr::Bin(l, op, r) => {
            let mut n = bare_decisions(l) + bare_decisions(r);
            if matches!(**l, Expr::Bin(..)) && !Renderer::needs_paren(l, *op, false) {
                n += 1;
            }
            if matches!(**r, Expr::Bin(..)) && !Renderer::needs_paren(r, *op, true) {
                n += 1;
            }
            n
        }
        Expr::Paren(i) | Expr::Neg(i) | Expr::Not(i) => bare_decisions(i),
        _ => 0,
    }
}
