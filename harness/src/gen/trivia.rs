//! Random trivia / letter-case fillers for the renderer.

use crate::gen::ast::{Filler, SlotId, SlotKind};
use crate::gen::build::Ent;
use std::collections::BTreeSet;

#[derive(Clone, Debug)]
pub struct TriviaCfg {
    /// probability (out of 100) that a slot gets non-canonical trivia
    pub vary: usize,
    pub comments: bool,
    pub case_flips: bool,
    pub crlf: bool,
    /// finding features
    pub multiline_block_comment: bool,
    pub empty_line_comment: bool,
    pub uppercase_true: bool,
    pub non_ascii: bool,
    /// slot ids that must not receive comments (triggers of recorded findings)
    pub no_comment_slots: Vec<String>,
    /// when non-empty: comments only in these slot ids
    pub only_comment_slots: Vec<String>,
    /// give every comment a unique serial number so that a lost comment identifies its slot
    pub serial_comments: bool,
    /// finding feature: two `key = value` pairs of a `.define` block on one line
    pub config_pairs_same_line: bool,
    /// finding feature: a block comment directly in front of a statement on the same line
    pub comment_before_statement_same_line: bool,
    /// `label: instruction` on one line (a finding feature for the formatter checks)
    pub label_and_instruction_on_one_line: bool,
}

impl TriviaCfg {
    pub fn clean() -> TriviaCfg {
        TriviaCfg { vary: 35, comments: true, case_flips: true, crlf: true, multiline_block_comment: false, empty_line_comment: false, uppercase_true: false, non_ascii: false, no_comment_slots: vec![], only_comment_slots: vec![], serial_comments: false, config_pairs_same_line: false, comment_before_statement_same_line: true, label_and_instruction_on_one_line: true }
    }
}

pub struct RandFiller<'e> {
    pub e: Ent<'e>,
    pub cfg: TriviaCfg,
    pub slots_changed: usize,
    pub comments: usize,
    pub case_flips: usize,
    pub used_crlf: bool,
    pub features: BTreeSet<String>,
    /// use CRLF for every newline in this rendering
    all_crlf: bool,
    comments_allowed: bool,
    serial: usize,
    /// (slot id, comment text) of every comment produced
    pub placed: Vec<(String, String)>,
    cur_slot: String,
}

const BLOCK_COMMENTS: &[&str] = &[
    "/* c */",
    "/*x*/",
    "/**/",
    "/* lda #1 */",
    "/* { */",
    "/* } */",
    "/* \" */",
    "/* a /* nested */ b */",
    "/* * / */",
    "/* // */",
    "/*/ */",
    "/* .byte 1 */",
];

const LINE_COMMENTS: &[&str] = &["// c", "// lda #1", "// {", "// }", "// \"q", "///", "// /* x", "// */", "//x"];

impl<'e> RandFiller<'e> {
    pub fn new(data: &'e [u32], cfg: TriviaCfg) -> Self {
        let mut e = Ent::new(data);
        let all_crlf = cfg.crlf && e.chance(1, 6);
        RandFiller { e, cfg, slots_changed: 0, comments: 0, case_flips: 0, used_crlf: false, features: BTreeSet::new(), all_crlf, comments_allowed: true, serial: 0, placed: vec![], cur_slot: String::new() }
    }

    fn nl(&mut self) -> String {
        if self.all_crlf || (self.cfg.crlf && self.e.chance(1, 12)) {
            self.used_crlf = true;
            "\r\n".to_string()
        } else {
            "\n".to_string()
        }
    }

    fn stamp(&mut self, c: String) -> String {
        // (every other comment keeps its own text: a numbered comment never is `/**/` or `//`)
        let c = if self.cfg.serial_comments && self.e.chance(1, 2) {
            self.serial += 1;
            if c.starts_with("//") {
                format!("{} n{}", c, self.serial)
            } else if let Some(body) = c.strip_suffix("*/") {
                format!("{}n{} */", body, self.serial)
            } else {
                c
            }
        } else {
            c
        };
        self.placed.push((self.cur_slot.clone(), c.clone()));
        c
    }

    fn block_comment(&mut self) -> String {
        let c = self.block_comment_raw();
        self.stamp(c)
    }

    fn line_comment(&mut self) -> String {
        let c = self.line_comment_raw();
        self.stamp(c)
    }

    fn block_comment_raw(&mut self) -> String {
        self.comments += 1;
        if self.cfg.multiline_block_comment && self.e.chance(1, 2) {
            self.features.insert("multiline_block_comment".into());
            return (*self.e.pick(
                &[
                    "/* a\n   b */",
                    "/*\n*/",
                    "/* x\n\ny */",
                    // a banner of slashes: '/*/' opens a comment and does not close it
                    "/*//////\n   banner\n */",
                    "/*/ a\n b */",
                    // further lines that are indented deeper than any margin
                    "/* first\n                                                                                    second */",
                    "/* p\n\n\n   q\n*/",
                    "/* nested /* x\n y */ z\n */",
                ][..],
            ))
            .to_string();
        }
        if self.cfg.non_ascii && self.e.chance(1, 3) {
            self.features.insert("non_ascii".into());
            return (*self.e.pick(&["/* é */", "/* ß */", "/* 日本 */", "/* 😀 */"][..])).to_string();
        }
        if self.e.chance(1, 2) {
            return (*self.e.pick(BLOCK_COMMENTS)).to_string();
        }
        // constructed: runs of stars next to the delimiters, slashes, code-like text
        let mut body = String::new();
        body.push_str(&"*".repeat(self.e.below(4)));
        let n = self.e.below(5);
        for _ in 0..n {
            body.push_str(*self.e.pick(&[" ", "x", "nop", "*", "**", "/ ", " /", "{", "}", "\"", "//", "#", "$1", ";", ":", "a*b", "c/d", " * "][..]));
        }
        body.push_str(&"*".repeat(self.e.below(4)));
        // nothing inside may open or close a comment
        while body.contains("*/") || body.contains("/*") {
            body = body.replace("*/", "* /").replace("/*", "/ *");
        }
        if body.ends_with('/') {
            body.push(' ');
        }
        format!("/*{}*/", body)
    }

    fn line_comment_raw(&mut self) -> String {
        self.comments += 1;
        if self.cfg.empty_line_comment && self.e.chance(1, 2) {
            self.features.insert("empty_line_comment".into());
            return "//".to_string();
        }
        if self.cfg.non_ascii && self.e.chance(1, 3) {
            self.features.insert("non_ascii".into());
            return (*self.e.pick(&["// é", "// ß", "// 日本", "// 😀"][..])).to_string();
        }
        (*self.e.pick(LINE_COMMENTS)).to_string()
    }

    fn single(&mut self, must: bool) -> String {
        let k = self.e.below(if self.cfg.comments && self.comments_allowed { 8 } else { 4 });
        let s = match k {
            0 => " ".to_string(),
            1 => "  ".to_string(),
            2 => "\t".to_string(),
            3 => {
                if must {
                    " \t ".to_string()
                } else {
                    String::new()
                }
            }
            4 => format!(" {} ", self.block_comment()),
            5 => self.block_comment(),
            6 => format!("{} ", self.block_comment()),
            _ => format!(" {}", self.block_comment()),
        };
        s
    }

    fn multi(&mut self, need_nl: bool) -> String {
        let mut s = String::new();
        let parts = 1 + self.e.below(3);
        let mut has_nl = false;
        for _ in 0..parts {
            match self.e.below(if self.cfg.comments && self.comments_allowed { 6 } else { 3 }) {
                0 => {
                    s.push_str(&self.nl());
                    has_nl = true;
                }
                1 => s.push_str(&self.single(false)),
                2 => {
                    s.push_str(&self.nl());
                    s.push_str("    ");
                    has_nl = true;
                }
                3 => {
                    // a line comment must be followed by a newline
                    s.push(' ');
                    s.push_str(&self.line_comment());
                    s.push_str(&self.nl());
                    has_nl = true;
                }
                4 => {
                    s.push_str(&self.nl());
                    s.push_str(&self.block_comment());
                    s.push_str(&self.nl());
                    has_nl = true;
                }
                _ => s.push_str(&self.nl()),
            }
        }
        if need_nl && !has_nl {
            s.push_str(&self.nl());
        }
        s
    }
}

impl<'e> Filler for RandFiller<'e> {
    fn kw(&mut self, s: &str) -> String {
        self.kw_impl(s)
    }

    fn hex(&mut self, s: &str) -> String {
        self.hex_impl(s)
    }

    fn fill(&mut self, kind: SlotKind, id: SlotId, canon: &str, _depth: usize) -> String {
        self.cur_slot = id.to_string();
        self.comments_allowed = true
            && !self.cfg.no_comment_slots.iter().any(|s| s == id)
            && (self.cfg.only_comment_slots.is_empty() || self.cfg.only_comment_slots.iter().any(|s| s == id));
        let vary = self.e.below(100) < self.cfg.vary;
        if !vary {
            if self.all_crlf && canon.contains('\n') {
                self.used_crlf = true;
                return canon.replace('\n', "\r\n");
            }
            return canon.to_string();
        }
        self.slots_changed += 1;
        let s = self.fill_kind(kind);
        if matches!(id, "stmt-sep" | "label-sep" | "stmt-sep-after-implied" | "file-start" | "block-open") {
            let tail = s.rsplit('\n').next().unwrap_or("");
            if tail.contains("/*") {
                if self.cfg.comment_before_statement_same_line {
                    self.features.insert("comment_before_statement_same_line".into());
                } else {
                    return format!("{}{}", s, self.nl());
                }
            }
        }
        if id == "config-key" && !s.contains('\n') {
            if self.cfg.config_pairs_same_line {
                self.features.insert("config_pairs_on_one_line".into());
            } else {
                return format!("{}{}", s, self.nl());
            }
        }
        s
    }
}

impl<'e> RandFiller<'e> {
    fn fill_kind(&mut self, kind: SlotKind) -> String {
        match kind {
            SlotKind::Single => self.single(false),
            SlotKind::SingleReq => {
                let s = self.single(true);
                if s.is_empty() {
                    " ".to_string()
                } else {
                    s
                }
            }
            SlotKind::Multi => {
                if self.e.chance(1, 2) {
                    self.single(false)
                } else {
                    self.multi(false)
                }
            }
            SlotKind::StmtSep => self.multi(true),
            SlotKind::LabelSep => {
                let p = if self.cur_slot == "label-sep" { 2 } else { 5 };
                if self.cfg.label_and_instruction_on_one_line && self.e.chance(1, p) {
                    self.features.insert("label_and_instruction_on_one_line".into());
                    let s = self.single(true);
                    if s.is_empty() {
                        " ".to_string()
                    } else {
                        s
                    }
                } else {
                    self.multi(true)
                }
            }
            SlotKind::Edge => {
                if self.e.chance(1, 2) {
                    String::new()
                } else {
                    self.multi(false)
                }
            }
        }
    }

}

impl<'e> RandFiller<'e> {
    pub fn kw_impl(&mut self, s: &str) -> String {
        if !self.cfg.case_flips {
            return s.to_string();
        }
        let is_bool = s == "true" || s == "false";
        if is_bool && !self.cfg.uppercase_true {
            return s.to_string();
        }
        match self.e.below(6) {
            0 => {
                self.case_flips += 1;
                if is_bool {
                    self.features.insert("uppercase_true".into());
                }
                s.to_uppercase()
            }
            1 => {
                self.case_flips += 1;
                if is_bool {
                    self.features.insert("uppercase_true".into());
                }
                // mixed case
                s.chars().enumerate().map(|(i, c)| if i % 2 == 0 { c.to_ascii_uppercase() } else { c }).collect()
            }
            _ => s.to_string(),
        }
    }

    pub fn hex_impl(&mut self, s: &str) -> String {
        if self.cfg.case_flips && self.e.chance(1, 3) {
            self.case_flips += 1;
            s.to_uppercase()
        } else {
            s.to_string()
        }
    }
}
