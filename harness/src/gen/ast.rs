//! Program AST of the generators and the renderer with typed trivia slots and position marks.

use crate::model::isa::Form;
use serde::{Deserialize, Serialize};

#[derive(Clone, Copy, Debug, Hash, PartialEq, Eq, Serialize, Deserialize)]
pub enum BinOp {
    Add,
    Sub,
    Mul,
    Div,
    Mod,
    Shl,
    Shr,
    Xor,
    Eq,
    Ne,
    Gt,
    GtEq,
    Lt,
    LtEq,
    And,
    Or,
}

pub const ALL_BINOPS: [BinOp; 16] = [
    BinOp::Add,
    BinOp::Sub,
    BinOp::Mul,
    BinOp::Div,
    BinOp::Mod,
    BinOp::Shl,
    BinOp::Shr,
    BinOp::Xor,
    BinOp::Eq,
    BinOp::Ne,
    BinOp::Gt,
    BinOp::GtEq,
    BinOp::Lt,
    BinOp::LtEq,
    BinOp::And,
    BinOp::Or,
];

impl BinOp {
    pub fn text(&self) -> &'static str {
        match self {
            BinOp::Add => "+",
            BinOp::Sub => "-",
            BinOp::Mul => "*",
            BinOp::Div => "/",
            BinOp::Mod => "%",
            BinOp::Shl => "<<",
            BinOp::Shr => ">>",
            BinOp::Xor => "^",
            BinOp::Eq => "==",
            BinOp::Ne => "!=",
            BinOp::Gt => ">",
            BinOp::GtEq => ">=",
            BinOp::Lt => "<",
            BinOp::LtEq => "<=",
            BinOp::And => "&&",
            BinOp::Or => "||",
        }
    }
    /// documented chain groups: 1 = {* / %}, 0 = {+ -}, others: every operator its own group
    fn doc_group(&self) -> u8 {
        match self {
            BinOp::Add | BinOp::Sub => 0,
            BinOp::Mul | BinOp::Div | BinOp::Mod => 1,
            BinOp::Shl => 2,
            BinOp::Shr => 3,
            BinOp::Xor => 4,
            BinOp::Eq => 5,
            BinOp::Ne => 6,
            BinOp::Gt => 7,
            BinOp::GtEq => 8,
            BinOp::Lt => 9,
            BinOp::LtEq => 10,
            BinOp::And => 11,
            BinOp::Or => 12,
        }
    }
}

#[derive(Clone, Debug, Hash, PartialEq, Eq, Serialize, Deserialize)]
pub enum StrPart {
    Lit(String),
    Interp(Vec<String>),
}

#[derive(Clone, Debug, Hash, PartialEq, Eq, Serialize, Deserialize)]
pub enum Expr {
    /// radix 10, 16 or 2; `zeros` leading zeros
    Num { v: i64, radix: u8, zeros: u8 },
    Bool(bool),
    Id { path: Vec<String>, modifier: Option<char> },
    Pc,
    Bin(Box<Expr>, BinOp, Box<Expr>),
    Paren(Box<Expr>),
    /// unary minus; inner is a decimal `Num` or an unmodified `Id`
    Neg(Box<Expr>),
    Not(Box<Expr>),
    Defined(Vec<String>),
    Call(String, Vec<Expr>),
    Str(Vec<StrPart>),
}

impl Expr {
    pub fn num(v: i64) -> Expr {
        Expr::Num { v, radix: 10, zeros: 0 }
    }
    pub fn hex(v: i64) -> Expr {
        Expr::Num { v, radix: 16, zeros: 0 }
    }
    pub fn id(name: &str) -> Expr {
        Expr::Id { path: vec![name.to_string()], modifier: None }
    }
    pub fn path(p: &[String]) -> Expr {
        Expr::Id { path: p.to_vec(), modifier: None }
    }
    pub fn str(s: &str) -> Expr {
        Expr::Str(vec![StrPart::Lit(s.to_string())])
    }
    pub fn bin(l: Expr, op: BinOp, r: Expr) -> Expr {
        Expr::Bin(Box::new(l), op, Box::new(r))
    }
    pub fn visit_ids<'a>(&'a self, f: &mut dyn FnMut(&'a Vec<String>)) {
        match self {
            Expr::Id { path, .. } => f(path),
            Expr::Defined(p) => f(p),
            Expr::Bin(l, _, r) => {
                l.visit_ids(f);
                r.visit_ids(f);
            }
            Expr::Paren(e) | Expr::Neg(e) | Expr::Not(e) => e.visit_ids(f),
            Expr::Call(_, args) => args.iter().for_each(|a| a.visit_ids(f)),
            Expr::Str(parts) => {
                for p in parts {
                    if let StrPart::Interp(path) = p {
                        f(path)
                    }
                }
            }
            _ => {}
        }
    }
    pub fn depth(&self) -> usize {
        match self {
            Expr::Bin(l, _, r) => 1 + l.depth().max(r.depth()),
            Expr::Paren(e) | Expr::Neg(e) | Expr::Not(e) => 1 + e.depth(),
            _ => 0,
        }
    }
    pub fn count_ops(&self) -> usize {
        match self {
            Expr::Bin(l, _, r) => 1 + l.count_ops() + r.count_ops(),
            Expr::Paren(e) | Expr::Neg(e) | Expr::Not(e) => e.count_ops(),
            _ => 0,
        }
    }
}

#[derive(Clone, Copy, Debug, Hash, PartialEq, Eq, Serialize, Deserialize)]
pub enum DataSize {
    Byte,
    Word,
    Dword,
}

impl DataSize {
    pub fn bytes(&self) -> usize {
        match self {
            DataSize::Byte => 1,
            DataSize::Word => 2,
            DataSize::Dword => 4,
        }
    }
    pub fn tag(&self) -> &'static str {
        match self {
            DataSize::Byte => ".byte",
            DataSize::Word => ".word",
            DataSize::Dword => ".dword",
        }
    }
}

#[derive(Clone, Copy, Debug, Hash, PartialEq, Eq, Serialize, Deserialize)]
pub enum Encoding {
    Default,
    Ascii,
    Petscii,
    Petscreen,
}

#[derive(Clone, Debug, Hash, PartialEq, Eq, Serialize, Deserialize)]
pub enum ImportArgs {
    All { as_: Option<String> },
    Specific(Vec<(String, Option<String>)>),
}

#[derive(Clone, Debug, Hash, PartialEq, Eq, Serialize, Deserialize)]
pub enum Stmt {
    Instr { mn: String, form: Form, operand: Option<Expr> },
    Data { size: DataSize, vals: Vec<Expr> },
    Text { enc: Encoding, e: Expr },
    Label { name: String, block: Option<Vec<Stmt>> },
    Braces(Vec<Stmt>),
    Const { name: String, e: Expr },
    Var { name: String, e: Expr },
    SetPc(Expr),
    Align(Expr),
    Loop { count: Expr, body: Vec<Stmt> },
    If { cond: Expr, then: Vec<Stmt>, els: Option<Vec<Stmt>> },
    MacroDef { name: String, params: Vec<String>, body: Vec<Stmt> },
    MacroCall { name: String, args: Vec<Expr> },
    Segment { name: String, block: Option<Vec<Stmt>> },
    /// `.define segment { name = .. start = .. pc = .. write = .. bank = .. }`
    DefineSegment { name: String, start: Option<Expr>, pc: Option<Expr>, write: Option<bool>, bank: Option<String> },
    DefineBank { name: String, size: Option<Expr>, fill: Option<Expr>, filename: Option<String>, create_segment: Option<bool> },
    Import { args: ImportArgs, file: String, block: Option<Vec<Stmt>> },
    Test { name: String, body: Vec<Stmt> },
    Assert { e: Expr, msg: Option<String> },
    Trace { args: Option<Vec<Expr>> },
    File(String),
    /// verbatim text (fault injection); occupies its own line(s)
    Raw(String),
}

impl Stmt {
    pub fn children(&self) -> Vec<&Vec<Stmt>> {
        match self {
            Stmt::Label { block: Some(b), .. } => vec![b],
            Stmt::Braces(b) => vec![b],
            Stmt::Loop { body, .. } => vec![body],
            Stmt::If { then, els, .. } => {
                let mut v = vec![then];
                if let Some(e) = els {
                    v.push(e);
                }
                v
            }
            Stmt::MacroDef { body, .. } => vec![body],
            Stmt::Segment { block: Some(b), .. } => vec![b],
            Stmt::Import { block: Some(b), .. } => vec![b],
            Stmt::Test { body, .. } => vec![body],
            _ => vec![],
        }
    }
    pub fn children_mut(&mut self) -> Vec<&mut Vec<Stmt>> {
        match self {
            Stmt::Label { block: Some(b), .. } => vec![b],
            Stmt::Braces(b) => vec![b],
            Stmt::Loop { body, .. } => vec![body],
            Stmt::If { then, els, .. } => {
                let mut v = vec![then];
                if let Some(e) = els {
                    v.push(e);
                }
                v
            }
            Stmt::MacroDef { body, .. } => vec![body],
            Stmt::Segment { block: Some(b), .. } => vec![b],
            Stmt::Import { block: Some(b), .. } => vec![b],
            Stmt::Test { body, .. } => vec![body],
            _ => vec![],
        }
    }
    pub fn kind(&self) -> &'static str {
        match self {
            Stmt::Instr { .. } => "instr",
            Stmt::Data { .. } => "data",
            Stmt::Text { .. } => "text",
            Stmt::Label { block: None, .. } => "label",
            Stmt::Label { .. } => "label-block",
            Stmt::Braces(_) => "braces",
            Stmt::Const { .. } => "const",
            Stmt::Var { .. } => "var",
            Stmt::SetPc(_) => "setpc",
            Stmt::Align(_) => "align",
            Stmt::Loop { .. } => "loop",
            Stmt::If { .. } => "if",
            Stmt::MacroDef { .. } => "macrodef",
            Stmt::MacroCall { .. } => "macrocall",
            Stmt::Segment { .. } => "segment",
            Stmt::DefineSegment { .. } => "define-segment",
            Stmt::DefineBank { .. } => "define-bank",
            Stmt::Import { .. } => "import",
            Stmt::Test { .. } => "test",
            Stmt::Assert { .. } => "assert",
            Stmt::Trace { .. } => "trace",
            Stmt::File(_) => "file",
            Stmt::Raw(_) => "raw",
        }
    }
}

pub fn count_stmts(b: &[Stmt]) -> usize {
    b.iter()
        .map(|s| 1 + s.children().iter().map(|c| count_stmts(c)).sum::<usize>())
        .sum()
}

pub fn max_depth(b: &[Stmt]) -> usize {
    b.iter()
        .map(|s| s.children().iter().map(|c| 1 + max_depth(c)).max().unwrap_or(0))
        .max()
        .unwrap_or(0)
}

pub fn visit_stmts<'a>(b: &'a [Stmt], f: &mut dyn FnMut(&'a Stmt)) {
    for s in b {
        f(s);
        for c in s.children() {
            visit_stmts(c, f);
        }
    }
}

// ------------------------------------------------------------------ trivia / rendering

#[derive(Clone, Copy, Debug, PartialEq, Eq, Hash, Serialize, Deserialize)]
pub enum SlotKind {
    /// single-line trivia allowed (spaces, tabs, block comments without newline... see filler)
    Single,
    /// single-line trivia; must be non-empty when the next token starts with alphanumeric/_
    SingleReq,
    /// multi-line trivia allowed
    Multi,
    /// between two statements: multi-line trivia that contains at least one newline
    StmtSep,
    /// between a label and the instruction it labels: non-empty single-line trivia, or as StmtSep
    LabelSep,
    /// before the very first statement / after the last one: multi-line, may be empty
    Edge,
}

/// Identifies a slot for slot-targeted generators (C12 comment per slot id).
pub type SlotId = &'static str;

pub trait Filler {
    /// Trivia for a slot. `canon` is the canonical filling. `depth` = block nesting depth.
    fn fill(&mut self, kind: SlotKind, id: SlotId, canon: &str, depth: usize) -> String {
        let _ = (kind, id, depth);
        canon.to_string()
    }
    /// Spelling of a case-insensitive keyword (mnemonic, directive, register, as/from/else, encoding, true/false)
    fn kw(&mut self, s: &str) -> String {
        s.to_string()
    }
    /// Spelling of hex digits
    fn hex(&mut self, s: &str) -> String {
        s.to_string()
    }
}

pub struct Canonical;
impl Filler for Canonical {}

#[derive(Clone, Debug, PartialEq, Eq, Hash, Serialize, Deserialize)]
pub enum MarkKind {
    /// statement number `n` in render (pre-)order begins / ends
    Stmt(usize),
    /// identifier occurrence: definition site
    Def(String),
    /// identifier occurrence: use site; component `idx` of the dotted path `path`
    Use { path: Vec<String>, idx: usize },
    /// the operand expression of statement n
    Operand(usize),
    /// value expression `k` of data statement / argument
    Value(usize, usize),
    /// a slot was filled here (slot id)
    Slot(String),
}

#[derive(Clone, Debug, PartialEq, Eq, Hash, Serialize, Deserialize)]
pub struct Mark {
    pub kind: MarkKind,
    pub start: usize,
    pub end: usize,
}

#[derive(Clone, Debug, Default)]
pub struct Rendered {
    pub text: String,
    pub marks: Vec<Mark>,
}

impl Rendered {
    /// (1-based line, 1-based column in chars) of byte offset
    pub fn line_col(&self, off: usize) -> (usize, usize) {
        line_col(&self.text, off)
    }
    /// line and column (both 1-based) as the language server protocol counts: columns in UTF-16 code units
    pub fn line_col16(&self, off: usize) -> (usize, usize) {
        let mut line = 1;
        let mut col = 1;
        for (i, c) in self.text.char_indices() {
            if i >= off {
                break;
            }
            if c == '\n' {
                line += 1;
                col = 1;
            } else {
                col += c.len_utf16();
            }
        }
        (line, col)
    }
    pub fn stmt_span(&self, n: usize) -> Option<(usize, usize)> {
        self.marks
            .iter()
            .find(|m| m.kind == MarkKind::Stmt(n))
            .map(|m| (m.start, m.end))
    }
    pub fn stmt_count(&self) -> usize {
        self.marks
            .iter()
            .filter(|m| matches!(m.kind, MarkKind::Stmt(_)))
            .count()
    }
}

pub fn line_col(text: &str, off: usize) -> (usize, usize) {
    let mut line = 1;
    let mut col = 1;
    for (i, c) in text.char_indices() {
        if i >= off {
            break;
        }
        if c == '\n' {
            line += 1;
            col = 1;
        } else {
            col += 1;
        }
    }
    (line, col)
}

pub struct Renderer<'a> {
    out: String,
    marks: Vec<Mark>,
    filler: &'a mut dyn Filler,
    stmt_no: usize,
    depth: usize,
    pub indent: bool,
}

fn is_word(c: char) -> bool {
    c.is_alphanumeric() || c == '_'
}

impl<'a> Renderer<'a> {
    pub fn new(filler: &'a mut dyn Filler) -> Self {
        Renderer { out: String::new(), marks: vec![], filler, stmt_no: 0, depth: 0, indent: true }
    }

    fn last(&self) -> Option<char> {
        self.out.chars().last()
    }

    /// push a token, inserting a separating space where adjacency would change the tokenisation
    fn tok(&mut self, t: &str) -> usize {
        if let (Some(l), Some(n)) = (self.last(), t.chars().next()) {
            let clash = (l == '/' && (n == '/' || n == '*'))
                || ((l == '<' || l == '>') && (n == '<' || n == '>' || n == '='))
                || (is_word(l) && is_word(n))
                || (l == '*' && n == '/')
                || (l == '!' && n == '=')
                || (l == '=' && n == '=')
                || (l == '&' && n == '&')
                || (l == '|' && n == '|');
            if clash {
                self.out.push(' ');
            }
        }
        let start = self.out.len();
        self.out.push_str(t);
        start
    }

    fn slot(&mut self, kind: SlotKind, id: SlotId, canon: &str) {
        let depth = self.depth;
        let mut s = self.filler.fill(kind, id, canon, depth);
        // adjacency guard between previous token and trivia start ("/" + "/*" would be "//*")
        if let (Some(l), Some(n)) = (self.last(), s.chars().next()) {
            if l == '/' && (n == '/' || n == '*') {
                s.insert(0, ' ');
            }
            if l == '*' && n == '/' {
                s.insert(0, ' ');
            }
        }
        if !s.is_empty() {
            let start = self.out.len();
            self.out.push_str(&s);
            if s != canon {
                self.marks.push(Mark { kind: MarkKind::Slot(id.to_string()), start, end: self.out.len() });
            }
        }
    }

    fn kw(&mut self, s: &str) {
        let k = self.filler.kw(s);
        let _ = self.tok(&k);
    }

    fn mark(&mut self, kind: MarkKind, start: usize) {
        let end = self.out.len();
        self.marks.push(Mark { kind, start, end });
    }

    fn path(&mut self, path: &[String], is_use: bool) {
        for (i, comp) in path.iter().enumerate() {
            let start = if i > 0 {
                self.out.push('.');
                let st = self.out.len();
                self.out.push_str(comp);
                st
            } else {
                self.tok(comp)
            };
            if is_use {
                self.mark(MarkKind::Use { path: path.to_vec(), idx: i }, start);
            }
        }
    }

    pub fn needs_paren(child: &Expr, parent: BinOp, right: bool) -> bool {
        match child {
            Expr::Bin(_, cop, _) => {
                let (pg, cg) = (parent.doc_group(), cop.doc_group());
                if pg == 0 && cg == 1 {
                    // * / % inside + - : documented to bind tighter
                    false
                } else if pg == cg && pg <= 1 {
                    // same documented chain group: left-associative, so only the right child needs parentheses
                    right
                } else {
                    true
                }
            }
            _ => false,
        }
    }

    pub fn expr(&mut self, e: &Expr) {
        match e {
            Expr::Num { v, radix, zeros } => {
                let z = "0".repeat(*zeros as usize);
                match radix {
                    16 => {
                        self.tok("$");
                        self.slot(SlotKind::Single, "num-prefix", "");
                        let h = self.filler.hex(&format!("{}{:x}", z, v));
                        self.out.push_str(&h);
                    }
                    2 => {
                        self.tok("%");
                        self.slot(SlotKind::Single, "num-prefix", "");
                        self.out.push_str(&format!("{}{:b}", z, v));
                    }
                    _ => {
                        self.tok(&format!("{}{}", z, v));
                    }
                }
            }
            Expr::Bool(b) => self.kw(if *b { "true" } else { "false" }),
            Expr::Id { path, modifier } => {
                if let Some(m) = modifier {
                    self.tok(&m.to_string());
                    self.slot(SlotKind::Single, "modifier", "");
                }
                self.path(path, true);
            }
            Expr::Pc => {
                self.tok("*");
            }
            Expr::Bin(l, op, r) => {
                let lp = Self::needs_paren(l, *op, false);
                let rp = Self::needs_paren(r, *op, true);
                self.maybe_paren(l, lp);
                self.slot(SlotKind::Single, "binop-left", " ");
                self.tok(op.text());
                self.slot(SlotKind::Single, "binop-right", " ");
                self.maybe_paren(r, rp);
            }
            Expr::Paren(inner) => self.maybe_paren(inner, true),
            Expr::Neg(inner) => {
                self.tok("-");
                // no trivia allowed between '-' and the factor
                match &**inner {
                    Expr::Num { v, zeros, radix: 10 } => {
                        let z = "0".repeat(*zeros as usize);
                        self.out.push_str(&format!("{}{}", z, v));
                    }
                    Expr::Id { path, modifier: None } => {
                        for (i, comp) in path.iter().enumerate() {
                            if i > 0 {
                                self.out.push('.');
                            }
                            let start = self.out.len();
                            self.out.push_str(comp);
                            self.mark(MarkKind::Use { path: path.clone(), idx: i }, start);
                        }
                    }
                    other => {
                        // not in the clean domain: rendered as written (feature unary_minus_before_non_alphanumeric)
                        self.expr(other)
                    }
                }
            }
            Expr::Not(inner) => {
                self.tok("!");
                self.slot(SlotKind::Single, "not", "");
                let needs = matches!(**inner, Expr::Bin(..));
                self.maybe_paren(inner, needs);
            }
            Expr::Defined(path) => {
                self.tok("defined");
                self.slot(SlotKind::Single, "call-lparen", "");
                self.tok("(");
                self.slot(SlotKind::Single, "call-arg", "");
                self.path(path, true);
                self.slot(SlotKind::Single, "call-rparen", "");
                self.tok(")");
            }
            Expr::Call(name, args) => {
                self.tok(name);
                self.slot(SlotKind::Single, "call-lparen", "");
                self.tok("(");
                for (i, a) in args.iter().enumerate() {
                    if i > 0 {
                        self.slot(SlotKind::Single, "arg-comma-left", "");
                        self.tok(",");
                        self.slot(SlotKind::Single, "arg-comma-right", " ");
                    }
                    self.expr(a);
                }
                self.slot(SlotKind::Single, "call-rparen", "");
                self.tok(")");
            }
            Expr::Str(parts) => {
                self.tok("\"");
                for p in parts {
                    match p {
                        StrPart::Lit(s) => self.out.push_str(s),
                        StrPart::Interp(path) => {
                            self.out.push('{');
                            // (whitespace only: this is inside a string)
                            self.slot(SlotKind::Single, "interp-open", "");
                            for (i, comp) in path.iter().enumerate() {
                                if i > 0 {
                                    self.out.push('.');
                                }
                                let start = self.out.len();
                                self.out.push_str(comp);
                                self.mark(MarkKind::Use { path: path.clone(), idx: i }, start);
                            }
                            self.out.push('}');
                        }
                    }
                }
                self.out.push('"');
            }
        }
    }

    fn maybe_paren(&mut self, e: &Expr, paren: bool) {
        if paren {
            self.tok("(");
            self.slot(SlotKind::Single, "paren-open", "");
            self.expr(e);
            self.slot(SlotKind::Single, "paren-close", "");
            self.tok(")");
        } else {
            self.expr(e);
        }
    }

    fn block(&mut self, id: SlotId, body: &[Stmt]) {
        self.slot(SlotKind::Multi, id, " ");
        self.tok("{");
        self.depth += 1;
        self.stmts_inner(body, true);
        self.depth -= 1;
        self.tok("}");
    }

    fn indent_str(&self) -> String {
        if self.indent {
            "    ".repeat(self.depth)
        } else {
            String::new()
        }
    }

    /// statements inside a block (or at top level when `in_block` is false)
    fn stmts_inner(&mut self, body: &[Stmt], in_block: bool) {
        if in_block {
            if body.is_empty() {
                self.slot(SlotKind::Multi, "block-empty", " ");
                return;
            }
            let ind = self.indent_str();
            self.slot(SlotKind::Multi, "block-open", &format!("\n{}", ind));
        } else {
            self.slot(SlotKind::Edge, "file-start", "");
        }
        for (i, s) in body.iter().enumerate() {
            if i > 0 {
                let ind = self.indent_str();
                // `label: instruction` on one line is the usual layout of assembly source
                let after_label = matches!(body[i - 1], Stmt::Label { block: None, .. }) && matches!(s, Stmt::Instr { .. } | Stmt::Data { .. });
                // two statements may share a line where the first cannot swallow the second (no operand)
                let after_implied = matches!(&body[i - 1], Stmt::Instr { operand: None, mn, .. } if !matches!(mn.to_lowercase().as_str(), "asl" | "lsr" | "rol" | "ror")) && (matches!(s, Stmt::Instr { .. } | Stmt::Data { .. }) || matches!(s, Stmt::Label { name, .. } if name.chars().next().map_or(false, |c| c.is_ascii_alphabetic() || c == '_')));
                if after_label {
                    self.slot(SlotKind::LabelSep, "label-sep", &format!("\n{}", ind));
                } else if after_implied {
                    self.slot(SlotKind::LabelSep, "stmt-sep-after-implied", &format!("\n{}", ind));
                } else {
                    self.slot(SlotKind::StmtSep, "stmt-sep", &format!("\n{}", ind));
                }
            }
            self.stmt(s);
        }
        if in_block {
            let ind = if self.indent { "    ".repeat(self.depth.saturating_sub(1)) } else { String::new() };
            self.slot(SlotKind::Multi, "block-close", &format!("\n{}", ind));
        } else {
            self.slot(SlotKind::Edge, "file-end", "\n");
        }
    }

    fn directive(&mut self, tag: &str) {
        self.kw(tag);
    }

    pub fn stmt(&mut self, s: &Stmt) {
        let n = self.stmt_no;
        self.stmt_no += 1;
        // make sure the start offset is after any separating space `tok` may insert
        let start = self.out.len();
        match s {
            Stmt::Instr { mn, form, operand } => {
                self.kw(mn);
                if let Some(e) = operand {
                    self.slot(SlotKind::SingleReq, "mnemonic-operand", " ");
                    let ostart = self.out.len();
                    match form {
                        Form::None => {}
                        Form::Imm | Form::ImmX => {
                            self.tok("#");
                            self.slot(SlotKind::Single, "imm-hash", "");
                            self.expr(e);
                            if *form == Form::ImmX {
                                self.tok(",");
                                self.kw("x");
                            }
                        }
                        Form::Plain | Form::PlainX | Form::PlainY => {
                            // an operand that starts with '(' would be read as indirect: write `0+(...)`
                            let es = self.out.len();
                            let nm = self.marks.len();
                            self.expr(e);
                            if self.out[es..].starts_with('(') {
                                self.out.insert_str(es, "0+");
                                for m in self.marks[nm..].iter_mut() {
                                    m.start += 2;
                                    m.end += 2;
                                }
                            }
                            if *form != Form::Plain {
                                self.slot(SlotKind::Single, "suffix-comma-left", "");
                                self.tok(",");
                                self.slot(SlotKind::Single, "suffix-comma-right", "");
                                self.kw(if *form == Form::PlainX { "x" } else { "y" });
                            }
                        }
                        Form::IndX | Form::IndXy => {
                            self.tok("(");
                            self.slot(SlotKind::Single, "ind-open", "");
                            self.expr(e);
                            self.slot(SlotKind::Single, "suffix-comma-left", "");
                            self.tok(",");
                            self.slot(SlotKind::Single, "suffix-comma-right", "");
                            self.kw(if *form == Form::IndX { "x" } else { "y" });
                            self.slot(SlotKind::Single, "ind-close", "");
                            self.tok(")");
                        }
                        Form::IndY | Form::IndYx | Form::Ind => {
                            self.tok("(");
                            self.slot(SlotKind::Single, "ind-open", "");
                            self.expr(e);
                            self.slot(SlotKind::Single, "ind-close", "");
                            self.tok(")");
                            if *form != Form::Ind {
                                self.slot(SlotKind::Single, "suffix-comma-left", "");
                                self.tok(",");
                                self.slot(SlotKind::Single, "suffix-comma-right", "");
                                self.kw(if *form == Form::IndY { "y" } else { "x" });
                            }
                        }
                    }
                    self.mark(MarkKind::Operand(n), ostart);
                }
            }
            Stmt::Data { size, vals } => {
                self.directive(size.tag());
                self.slot(SlotKind::SingleReq, "directive-arg", " ");
                for (i, v) in vals.iter().enumerate() {
                    if i > 0 {
                        self.slot(SlotKind::Single, "arg-comma-left", "");
                        self.tok(",");
                        self.slot(SlotKind::Single, "arg-comma-right", " ");
                    }
                    let vs = self.out.len();
                    self.expr(v);
                    self.mark(MarkKind::Value(n, i), vs);
                }
            }
            Stmt::Text { enc, e } => {
                self.directive(".text");
                self.slot(SlotKind::SingleReq, "directive-arg", " ");
                match enc {
                    Encoding::Default => {}
                    Encoding::Ascii => {
                        self.kw("ascii");
                        self.slot(SlotKind::Single, "encoding-string", " ");
                    }
                    Encoding::Petscii => {
                        self.kw("petscii");
                        self.slot(SlotKind::Single, "encoding-string", " ");
                    }
                    Encoding::Petscreen => {
                        self.kw("petscreen");
                        self.slot(SlotKind::Single, "encoding-string", " ");
                    }
                }
                let vs = self.out.len();
                self.expr(e);
                self.mark(MarkKind::Value(n, 0), vs);
            }
            Stmt::Label { name, block } => {
                let ds = self.tok(name);
                self.mark(MarkKind::Def(name.clone()), ds);
                self.out.push(':');
                if let Some(b) = block {
                    self.block("label-brace", b);
                }
            }
            Stmt::Braces(b) => {
                self.tok("{");
                self.depth += 1;
                self.stmts_inner(b, true);
                self.depth -= 1;
                self.tok("}");
            }
            Stmt::Const { name, e } | Stmt::Var { name, e } => {
                self.directive(if matches!(s, Stmt::Const { .. }) { ".const" } else { ".var" });
                self.slot(SlotKind::SingleReq, "directive-arg", " ");
                let ds = self.out.len();
                self.out.push_str(name);
                self.mark(MarkKind::Def(name.clone()), ds);
                self.slot(SlotKind::Single, "def-eq-left", " ");
                self.tok("=");
                self.slot(SlotKind::Single, "def-eq-right", " ");
                let vs = self.out.len();
                self.expr(e);
                self.mark(MarkKind::Value(n, 0), vs);
            }
            Stmt::SetPc(e) => {
                self.tok("*");
                self.slot(SlotKind::Single, "def-eq-left", " ");
                self.tok("=");
                self.slot(SlotKind::Single, "def-eq-right", " ");
                self.expr(e);
            }
            Stmt::Align(e) => {
                self.directive(".align");
                self.slot(SlotKind::SingleReq, "directive-arg", " ");
                self.expr(e);
            }
            Stmt::Loop { count, body } => {
                self.directive(".loop");
                self.slot(SlotKind::SingleReq, "directive-arg", " ");
                self.expr(count);
                self.block("loop-brace", body);
            }
            Stmt::If { cond, then, els } => {
                self.directive(".if");
                self.slot(SlotKind::SingleReq, "directive-arg", " ");
                self.expr(cond);
                self.block("if-brace", then);
                if let Some(e) = els {
                    self.slot(SlotKind::Multi, "else-kw", " ");
                    self.kw("else");
                    self.block("else-brace", e);
                }
            }
            Stmt::MacroDef { name, params, body } => {
                self.directive(".macro");
                self.slot(SlotKind::SingleReq, "directive-arg", " ");
                let ds = self.out.len();
                self.out.push_str(name);
                self.mark(MarkKind::Def(name.clone()), ds);
                self.slot(SlotKind::Single, "call-lparen", "");
                self.tok("(");
                for (i, p) in params.iter().enumerate() {
                    if i > 0 {
                        self.slot(SlotKind::Single, "arg-comma-left", "");
                        self.tok(",");
                        self.slot(SlotKind::Single, "arg-comma-right", " ");
                    }
                    let ds = self.out.len();
                    self.out.push_str(p);
                    self.mark(MarkKind::Def(p.clone()), ds);
                }
                self.slot(SlotKind::Single, "call-rparen", "");
                self.tok(")");
                self.block("macro-brace", body);
            }
            Stmt::MacroCall { name, args } => {
                let us = self.tok(name);
                self.mark(MarkKind::Use { path: vec![name.clone()], idx: 0 }, us);
                self.slot(SlotKind::Single, "call-lparen", "");
                self.tok("(");
                for (i, a) in args.iter().enumerate() {
                    if i > 0 {
                        self.slot(SlotKind::Single, "arg-comma-left", "");
                        self.tok(",");
                        self.slot(SlotKind::Single, "arg-comma-right", " ");
                    }
                    let vs = self.out.len();
                    self.expr(a);
                    self.mark(MarkKind::Value(n, i), vs);
                }
                self.slot(SlotKind::Single, "call-rparen", "");
                self.tok(")");
            }
            Stmt::Segment { name, block } => {
                self.directive(".segment");
                self.slot(SlotKind::SingleReq, "directive-arg", " ");
                self.tok(&format!("\"{}\"", name));
                if let Some(b) = block {
                    self.block("segment-brace", b);
                }
            }
            Stmt::DefineSegment { name, start, pc, write, bank } => {
                self.directive(".define");
                self.slot(SlotKind::SingleReq, "directive-arg", " ");
                self.tok("segment");
                self.slot(SlotKind::Multi, "define-brace", " ");
                self.tok("{");
                self.cfg_pair("name", |r| {
                    r.tok(&format!("\"{}\"", name));
                });
                if let Some(e) = start {
                    self.cfg_pair("start", |r| r.expr(e));
                }
                if let Some(e) = pc {
                    self.cfg_pair("pc", |r| r.expr(e));
                }
                if let Some(w) = write {
                    self.cfg_pair("write", |r| r.kw(if *w { "true" } else { "false" }));
                }
                if let Some(b) = bank {
                    self.cfg_pair("bank", |r| {
                    r.tok(&format!("\"{}\"", b));
                });
                }
                self.slot(SlotKind::Multi, "define-close", " ");
                self.tok("}");
            }
            Stmt::DefineBank { name, size, fill, filename, create_segment } => {
                self.directive(".define");
                self.slot(SlotKind::SingleReq, "directive-arg", " ");
                self.tok("bank");
                self.slot(SlotKind::Multi, "define-brace", " ");
                self.tok("{");
                self.cfg_pair("name", |r| {
                    r.tok(&format!("\"{}\"", name));
                });
                if let Some(e) = size {
                    self.cfg_pair("size", |r| r.expr(e));
                }
                if let Some(e) = fill {
                    self.cfg_pair("fill", |r| r.expr(e));
                }
                if let Some(f) = filename {
                    self.cfg_pair("filename", |r| {
                    r.tok(&format!("\"{}\"", f));
                });
                }
                if let Some(c) = create_segment {
                    self.cfg_pair("create-segment", |r| r.kw(if *c { "true" } else { "false" }));
                }
                self.slot(SlotKind::Multi, "define-close", " ");
                self.tok("}");
            }
            Stmt::Import { args, file, block } => {
                self.directive(".import");
                self.slot(SlotKind::SingleReq, "directive-arg", " ");
                match args {
                    ImportArgs::All { as_ } => {
                        self.tok("*");
                        if let Some(a) = as_ {
                            self.slot(SlotKind::SingleReq, "import-as", " ");
                            self.kw("as");
                            self.slot(SlotKind::SingleReq, "import-as-name", " ");
                            let ds = self.out.len();
                            self.out.push_str(a);
                            self.mark(MarkKind::Def(a.clone()), ds);
                        }
                    }
                    ImportArgs::Specific(list) => {
                        for (i, (name, as_)) in list.iter().enumerate() {
                            if i > 0 {
                                self.slot(SlotKind::Single, "arg-comma-left", "");
                                self.tok(",");
                                self.slot(SlotKind::Single, "import-name", " ");
                            }
                            let us = self.tok(name);
                            self.mark(MarkKind::Use { path: vec![name.clone()], idx: 0 }, us);
                            if let Some(a) = as_ {
                                self.slot(SlotKind::SingleReq, "import-as", " ");
                                self.kw("as");
                                self.slot(SlotKind::SingleReq, "import-as-name", " ");
                                let ds = self.out.len();
                                self.out.push_str(a);
                                self.mark(MarkKind::Def(a.clone()), ds);
                            }
                        }
                    }
                }
                self.slot(SlotKind::Multi, "import-from", " ");
                self.kw("from");
                self.slot(SlotKind::Single, "import-file", " ");
                self.tok(&format!("\"{}\"", file));
                if let Some(b) = block {
                    self.block("import-brace", b);
                }
            }
            Stmt::Test { name, body } => {
                self.directive(".test");
                self.slot(SlotKind::SingleReq, "directive-arg", " ");
                self.tok(&format!("\"{}\"", name));
                self.block("test-brace", body);
            }
            Stmt::Assert { e, msg } => {
                self.directive(".assert");
                self.slot(SlotKind::SingleReq, "directive-arg", " ");
                let vs = self.out.len();
                self.expr(e);
                self.mark(MarkKind::Value(n, 0), vs);
                if let Some(m) = msg {
                    self.slot(SlotKind::Single, "assert-msg", " ");
                    self.tok(&format!("\"{}\"", m));
                }
            }
            Stmt::Trace { args } => {
                self.directive(".trace");
                if let Some(a) = args {
                    self.slot(SlotKind::Single, "trace-lparen", " ");
                    self.tok("(");
                    for (i, e) in a.iter().enumerate() {
                        if i > 0 {
                            self.slot(SlotKind::Single, "arg-comma-left", "");
                            self.tok(",");
                            self.slot(SlotKind::Single, "arg-comma-right", " ");
                        }
                        self.expr(e);
                    }
                    self.slot(SlotKind::Single, "call-rparen", "");
                    self.tok(")");
                }
            }
            Stmt::File(name) => {
                self.directive(".file");
                self.slot(SlotKind::Single, "directive-arg", " ");
                self.tok(&format!("\"{}\"", name));
            }
            Stmt::Raw(t) => {
                self.out.push_str(t);
            }
        }
        // statement start: skip a separating space inserted by tok()
        let mut st = start;
        while st < self.out.len() && self.out.as_bytes()[st] == b' ' {
            st += 1;
        }
        let end = self.out.len();
        self.marks.push(Mark { kind: MarkKind::Stmt(n), start: st, end });
    }

    fn cfg_pair(&mut self, key: &str, val: impl FnOnce(&mut Self)) {
        let ind = if self.indent { "    ".repeat(self.depth + 1) } else { String::new() };
        self.slot(SlotKind::Multi, "config-key", &format!("\n{}", ind));
        // config keys are case sensitive
        self.tok(key);
        self.slot(SlotKind::Multi, "config-eq", " ");
        self.tok("=");
        self.slot(SlotKind::Multi, "config-value", " ");
        val(self);
    }

    pub fn finish(self) -> Rendered {
        Rendered { text: self.out, marks: self.marks }
    }
}

pub fn render_with(body: &[Stmt], filler: &mut dyn Filler) -> Rendered {
    let mut r = Renderer::new(filler);
    r.stmts_inner(body, false);
    r.finish()
}

pub fn render(body: &[Stmt]) -> Rendered {
    render_with(body, &mut Canonical)
}

pub fn render_expr(e: &Expr) -> String {
    let mut c = Canonical;
    let mut r = Renderer::new(&mut c);
    r.expr(e);
    r.finish().text
}

// ------------------------------------------------------------------ programs (multi-file)

#[derive(Clone, Debug, Hash, PartialEq, Eq, Serialize, Deserialize, Default)]
pub struct Program {
    pub files: std::collections::BTreeMap<String, Vec<Stmt>>,
    pub entry: String,
}

impl Program {
    pub fn single(body: Vec<Stmt>) -> Program {
        let mut files = std::collections::BTreeMap::new();
        files.insert("main.asm".to_string(), body);
        Program { files, entry: "main.asm".into() }
    }
    pub fn main(&self) -> &Vec<Stmt> {
        &self.files[&self.entry]
    }
    pub fn main_mut(&mut self) -> &mut Vec<Stmt> {
        let e = self.entry.clone();
        self.files.get_mut(&e).unwrap()
    }
    pub fn render(&self) -> (crate::sut::core::Project, std::collections::BTreeMap<String, Rendered>) {
        self.render_with(&mut Canonical)
    }
    pub fn render_with(
        &self,
        filler: &mut dyn Filler,
    ) -> (crate::sut::core::Project, std::collections::BTreeMap<String, Rendered>) {
        let mut files = std::collections::BTreeMap::new();
        let mut rs = std::collections::BTreeMap::new();
        for (name, body) in &self.files {
            let r = render_with(body, filler);
            files.insert(name.clone(), r.text.clone());
            rs.insert(name.clone(), r);
        }
        (crate::sut::core::Project { files, entry: self.entry.clone() }, rs)
    }
    pub fn text(&self) -> String {
        let (p, _) = self.render();
        let mut s = String::new();
        for (name, t) in &p.files {
            if p.files.len() > 1 {
                s.push_str(&format!("--- {} ---\n", name));
            }
            s.push_str(t);
        }
        s
    }
    pub fn stmt_count(&self) -> usize {
        self.files.values().map(|b| count_stmts(b)).sum()
    }
}
