//! Static binding of every identifier occurrence of a (single-file) generator program under the documented
//! scoping rule, aligned with the renderer's position marks.

use crate::gen::ast::*;
use std::collections::BTreeMap;

#[derive(Clone, Debug, PartialEq, Eq)]
pub enum DefKind {
    Label,
    Const,
    Var,
    Macro,
    Param,
    Index,
}

#[derive(Clone, Debug)]
pub struct Def {
    pub id: usize,
    pub name: String,
    pub kind: DefKind,
    pub scope: usize,
    /// byte range of the defining name in the rendered text (None for the implicit `index`)
    pub range: Option<(usize, usize)>,
}

#[derive(Clone, Debug)]
pub struct Use {
    pub path: Vec<String>,
    /// per path component: byte range and the definition it denotes (None: `super`, a pure scope, or unresolved)
    pub comps: Vec<((usize, usize), Option<usize>)>,
    /// inside a macro body (binding may depend on the invocation)
    pub in_macro: bool,
    pub in_string: bool,
}

#[derive(Clone, Debug, Default)]
pub struct Bindings {
    pub defs: Vec<Def>,
    pub uses: Vec<Use>,
}

#[derive(Clone, Debug)]
struct Node {
    parent: Option<usize>,
    children: BTreeMap<String, usize>,
    defs: BTreeMap<String, usize>,
}

struct B<'a> {
    nodes: Vec<Node>,
    defs: Vec<Def>,
    def_marks: Vec<(usize, usize)>,
    next_def_mark: usize,
    use_marks: Vec<Vec<(usize, usize)>>,
    next_use: usize,
    uses: Vec<Use>,
    /// anonymous child scopes per node in creation order
    anon: BTreeMap<usize, Vec<usize>>,
    anon_used: BTreeMap<usize, usize>,
    /// values of the pure constants: decide which branch of an `.if` is taken
    consts: BTreeMap<String, crate::model::eval::Value>,
    _p: std::marker::PhantomData<&'a ()>,
}

impl<'a> B<'a> {
    fn node(&mut self, parent: Option<usize>, name: Option<&str>) -> usize {
        self.nodes.push(Node { parent, children: BTreeMap::new(), defs: BTreeMap::new() });
        let id = self.nodes.len() - 1;
        if let Some(p) = parent {
            match name {
                Some(n) => {
                    self.nodes[p].children.insert(n.to_string(), id);
                }
                None => self.anon.entry(p).or_default().push(id),
            }
        }
        id
    }

    fn add_def(&mut self, scope: usize, name: &str, kind: DefKind, marked: bool) {
        let range = if marked {
            let r = self.def_marks.get(self.next_def_mark).copied();
            self.next_def_mark += 1;
            r
        } else {
            None
        };
        if self.nodes[scope].defs.contains_key(name) {
            // a redefinition: the first one stays (programs with redefinitions are not valid anyway)
            return;
        }
        let id = self.defs.len();
        self.defs.push(Def { id, name: name.to_string(), kind, scope, range });
        self.nodes[scope].defs.insert(name.to_string(), id);
    }

    /// Some(true/false): the condition is a pure constant expression and the then-branch is / is not taken
    fn taken(&self, cond: &Expr) -> Option<bool> {
        match crate::model::expand::eval_with(&self.consts, cond) {
            Some(crate::model::eval::Value::Int(n)) => Some(n != 0),
            _ => None,
        }
    }

    // ---- pass 1: definitions, in render order
    fn collect(&mut self, body: &[Stmt], scope: usize) {
        for s in body {
            match s {
                Stmt::Label { name, block } => {
                    self.add_def(scope, name, DefKind::Label, true);
                    if let Some(b) = block {
                        let inner = match self.nodes[scope].children.get(name) {
                            Some(&c) => c,
                            None => self.node(Some(scope), Some(name)),
                        };
                        self.collect(b, inner);
                    }
                }
                Stmt::Braces(b) => {
                    let inner = self.node(Some(scope), None);
                    self.collect(b, inner);
                }
                Stmt::Const { name, .. } => self.add_def(scope, name, DefKind::Const, true),
                Stmt::Var { name, .. } => self.add_def(scope, name, DefKind::Var, true),
                Stmt::Loop { body, .. } => {
                    let inner = self.node(Some(scope), None);
                    self.add_def(inner, "index", DefKind::Index, false);
                    self.collect(body, inner);
                }
                Stmt::If { cond, then, els } => {
                    // what a branch that is not taken defines is not there for the rest of the program: its
                    // definitions live in a scope of their own (in which the branch itself is looked at)
                    let t = self.taken(cond);
                    if t == Some(false) {
                        let inner = self.node(Some(scope), None);
                        self.collect(then, inner);
                    } else {
                        self.collect(then, scope);
                    }
                    if let Some(e) = els {
                        if t == Some(true) {
                            let inner = self.node(Some(scope), None);
                            self.collect(e, inner);
                        } else {
                            self.collect(e, scope);
                        }
                    }
                }
                Stmt::MacroDef { name, params, body } => {
                    self.add_def(scope, name, DefKind::Macro, true);
                    let inner = self.node(Some(scope), None);
                    for p in params {
                        self.add_def(inner, p, DefKind::Param, true);
                    }
                    self.collect(body, inner);
                }
                Stmt::Segment { block: Some(b), .. } => self.collect(b, scope),
                Stmt::Test { body, .. } => self.collect(body, scope),
                _ => {}
            }
        }
    }

    fn next_anon(&mut self, scope: usize) -> usize {
        let k = self.anon_used.entry(scope).or_insert(0);
        let id = self.anon.get(&scope).and_then(|v| v.get(*k)).copied().unwrap_or(scope);
        *k += 1;
        id
    }

    fn try_index(&self, from: usize, path: &[String]) -> Option<Vec<Option<usize>>> {
        // per component: the def it denotes
        let mut cur = from;
        let mut out = vec![];
        for (i, comp) in path.iter().enumerate() {
            let last = i + 1 == path.len();
            if comp == "super" {
                cur = self.nodes[cur].parent?;
                out.push(None);
                if last {
                    return None;
                }
            } else {
                let def = self.nodes[cur].defs.get(comp).copied();
                if last {
                    if def.is_none() && !self.nodes[cur].children.contains_key(comp) {
                        return None;
                    }
                    out.push(def);
                } else {
                    let child = *self.nodes[cur].children.get(comp)?;
                    out.push(def);
                    cur = child;
                }
            }
        }
        Some(out)
    }

    fn resolve(&self, from: usize, path: &[String]) -> Vec<Option<usize>> {
        let has_super = path.iter().any(|c| c == "super");
        let mut cur = Some(from);
        while let Some(c) = cur {
            if let Some(r) = self.try_index(c, path) {
                return r;
            }
            if has_super {
                break;
            }
            cur = self.nodes[c].parent;
        }
        vec![None; path.len()]
    }

    fn use_path(&mut self, path: &[String], scope: usize, in_macro: bool, in_string: bool) {
        let marks = self.use_marks.get(self.next_use).cloned().unwrap_or_default();
        self.next_use += 1;
        let bound = self.resolve(scope, path);
        let comps = marks.into_iter().zip(bound.into_iter()).collect();
        self.uses.push(Use { path: path.to_vec(), comps, in_macro, in_string });
    }

    fn expr(&mut self, e: &Expr, scope: usize, in_macro: bool) {
        match e {
            Expr::Id { path, .. } => self.use_path(path, scope, in_macro, false),
            Expr::Defined(path) => self.use_path(path, scope, in_macro, false),
            Expr::Bin(l, _, r) => {
                self.expr(l, scope, in_macro);
                self.expr(r, scope, in_macro);
            }
            Expr::Paren(i) | Expr::Not(i) => self.expr(i, scope, in_macro),
            Expr::Neg(i) => self.expr(i, scope, in_macro),
            Expr::Call(_, args) => {
                for a in args {
                    self.expr(a, scope, in_macro);
                }
            }
            Expr::Str(parts) => {
                for p in parts {
                    if let StrPart::Interp(path) = p {
                        self.use_path(path, scope, in_macro, true);
                    }
                }
            }
            _ => {}
        }
    }

    // ---- pass 2: uses, in render order
    fn walk(&mut self, body: &[Stmt], scope: usize, in_macro: bool) {
        for s in body {
            match s {
                Stmt::Instr { operand, .. } => {
                    if let Some(e) = operand {
                        self.expr(e, scope, in_macro);
                    }
                }
                Stmt::Data { vals, .. } => {
                    for v in vals {
                        self.expr(v, scope, in_macro);
                    }
                }
                Stmt::Text { e, .. } | Stmt::Const { e, .. } | Stmt::Var { e, .. } | Stmt::SetPc(e) | Stmt::Align(e) => self.expr(e, scope, in_macro),
                Stmt::Assert { e, .. } => self.expr(e, scope, in_macro),
                Stmt::Trace { args: Some(a) } => {
                    for e in a {
                        self.expr(e, scope, in_macro);
                    }
                }
                Stmt::Label { name, block: Some(b) } => {
                    let inner = self.nodes[scope].children.get(name).copied().unwrap_or(scope);
                    self.walk(b, inner, in_macro);
                }
                Stmt::Braces(b) => {
                    let inner = self.next_anon(scope);
                    self.walk(b, inner, in_macro);
                }
                Stmt::Loop { count, body } => {
                    self.expr(count, scope, in_macro);
                    let inner = self.next_anon(scope);
                    self.walk(body, inner, in_macro);
                }
                Stmt::If { cond, then, els } => {
                    self.expr(cond, scope, in_macro);
                    let t = self.taken(cond);
                    if t == Some(false) {
                        let inner = self.next_anon(scope);
                        self.walk(then, inner, in_macro);
                    } else {
                        self.walk(then, scope, in_macro);
                    }
                    if let Some(e) = els {
                        if t == Some(true) {
                            let inner = self.next_anon(scope);
                            self.walk(e, inner, in_macro);
                        } else {
                            self.walk(e, scope, in_macro);
                        }
                    }
                }
                Stmt::MacroDef { body, .. } => {
                    let inner = self.next_anon(scope);
                    self.walk(body, inner, true);
                }
                Stmt::MacroCall { name, args } => {
                    self.use_path(&[name.clone()], scope, in_macro, false);
                    for a in args {
                        self.expr(a, scope, in_macro);
                    }
                }
                Stmt::Segment { block: Some(b), .. } => self.walk(b, scope, in_macro),
                Stmt::Test { body, .. } => self.walk(body, scope, in_macro),
                Stmt::DefineSegment { start, pc, .. } => {
                    if let Some(e) = start {
                        self.expr(e, scope, in_macro);
                    }
                    if let Some(e) = pc {
                        self.expr(e, scope, in_macro);
                    }
                }
                Stmt::DefineBank { size, fill, .. } => {
                    if let Some(e) = size {
                        self.expr(e, scope, in_macro);
                    }
                    if let Some(e) = fill {
                        self.expr(e, scope, in_macro);
                    }
                }
                _ => {}
            }
        }
    }
}

/// Bindings of the main file of a single-file program, aligned with `rendered` (the rendering of that file).
pub fn analyze(prog: &Program, rendered: &Rendered) -> Bindings {
    let def_marks: Vec<(usize, usize)> = rendered.marks.iter().filter(|m| matches!(m.kind, MarkKind::Def(_))).map(|m| (m.start, m.end)).collect();
    // group use marks: a new group starts at every component index 0
    let mut use_marks: Vec<Vec<(usize, usize)>> = vec![];
    for m in &rendered.marks {
        if let MarkKind::Use { idx, .. } = &m.kind {
            if *idx == 0 {
                use_marks.push(vec![]);
            }
            if let Some(g) = use_marks.last_mut() {
                g.push((m.start, m.end));
            }
        }
    }
    let mut b = B { nodes: vec![], defs: vec![], def_marks, next_def_mark: 0, use_marks, next_use: 0, uses: vec![], anon: BTreeMap::new(), anon_used: BTreeMap::new(), consts: crate::model::expand::pure_consts(prog), _p: std::marker::PhantomData };
    let root = b.node(None, None);
    b.collect(prog.main(), root);
    b.walk(prog.main(), root, false);
    Bindings { defs: b.defs, uses: b.uses }
}
