//! Driver for the `mos` executable in scratch project directories.

use crate::sut::core::Project;
use std::collections::BTreeMap;
use std::path::{Path, PathBuf};
use std::process::{Command, Stdio};
use std::sync::atomic::{AtomicUsize, Ordering};

static COUNTER: AtomicUsize = AtomicUsize::new(0);

pub fn mos_bin() -> PathBuf {
    std::env::var("MOS_BIN").map(PathBuf::from).unwrap_or_else(|_| crate::engine::verif_dir().join("target/sut/debug/mos"))
}

pub fn have_mos() -> bool {
    mos_bin().exists()
}

/// A scratch directory that is removed on drop.
pub struct Scratch {
    pub dir: PathBuf,
}

impl Scratch {
    pub fn new(tag: &str) -> Scratch {
        let base = std::env::temp_dir().join(format!("mosverif-{}", std::process::id()));
        let n = COUNTER.fetch_add(1, Ordering::SeqCst);
        let dir = base.join(format!("{}-{}", tag, n));
        let _ = std::fs::remove_dir_all(&dir);
        // (another thread that drops its scratch directory removes the base directory when it is empty, which may happen
        // between the two steps of create_dir_all: try again)
        let mut tries = 0;
        loop {
            match std::fs::create_dir_all(&dir) {
                Ok(()) => break,
                Err(e) if tries < 20 && e.kind() == std::io::ErrorKind::NotFound => {
                    tries += 1;
                    std::thread::yield_now();
                }
                Err(e) => panic!("create scratch dir: {:?}", e),
            }
        }
        Scratch { dir }
    }
    pub fn write(&self, rel: &str, contents: &[u8]) {
        let p = self.dir.join(rel);
        if let Some(parent) = p.parent() {
            let _ = std::fs::create_dir_all(parent);
        }
        std::fs::write(p, contents).expect("write scratch file");
    }
    pub fn write_project(&self, p: &Project, toml: &str) {
        for (name, text) in &p.files {
            self.write(name, text.as_bytes());
        }
        self.write("mos.toml", toml.as_bytes());
    }
    pub fn read(&self, rel: &str) -> Option<Vec<u8>> {
        std::fs::read(self.dir.join(rel)).ok()
    }
    /// every file under `rel` (recursively): relative path -> (contents, mtime in ns)
    pub fn snapshot(&self, rel: &str) -> BTreeMap<String, (Vec<u8>, u128)> {
        let mut out = BTreeMap::new();
        let root = self.dir.join(rel);
        fn walk(dir: &Path, root: &Path, out: &mut BTreeMap<String, (Vec<u8>, u128)>) {
            if let Ok(rd) = std::fs::read_dir(dir) {
                for e in rd.filter_map(|e| e.ok()) {
                    let p = e.path();
                    if p.is_dir() {
                        walk(&p, root, out);
                    } else {
                        let rel = p.strip_prefix(root).unwrap().to_string_lossy().to_string();
                        let data = std::fs::read(&p).unwrap_or_default();
                        let mt = std::fs::metadata(&p).and_then(|m| m.modified()).ok().and_then(|t| t.duration_since(std::time::UNIX_EPOCH).ok()).map(|d| d.as_nanos()).unwrap_or(0);
                        out.insert(rel, (data, mt));
                    }
                }
            }
        }
        walk(&root, &root, &mut out);
        out
    }
}

impl Drop for Scratch {
    fn drop(&mut self) {
        let _ = std::fs::remove_dir_all(&self.dir);
        // remove the per-process base directory when it became empty
        if let Some(base) = self.dir.parent() {
            let _ = std::fs::remove_dir(base);
        }
    }
}

#[derive(Clone, Debug)]
pub struct Run {
    pub code: Option<i32>,
    pub signal: Option<i32>,
    pub stdout: String,
    pub stderr: String,
    /// killed by the watchdog (MV_CLI_TIMEOUT seconds, default 120)
    pub timed_out: bool,
}

impl Run {
    pub fn ok(&self) -> bool {
        self.code == Some(0)
    }
}

static CLI_TIMEOUTS: std::sync::atomic::AtomicUsize = std::sync::atomic::AtomicUsize::new(0);

/// number of `mos` invocations that had to be killed (a watchdog matter: reported as a health problem, never as a violation)
pub fn cli_timeouts() -> usize {
    CLI_TIMEOUTS.load(std::sync::atomic::Ordering::SeqCst)
}

pub fn cli_timeout_secs() -> u64 {
    std::env::var("MV_CLI_TIMEOUT").ok().and_then(|v| v.parse().ok()).unwrap_or(120)
}

pub fn run_mos(dir: &Path, args: &[&str]) -> Run {
    use std::io::Read;
    use std::os::unix::process::ExitStatusExt;
    let mut child = Command::new(mos_bin()).args(args).current_dir(dir).stdin(Stdio::null()).stdout(Stdio::piped()).stderr(Stdio::piped()).spawn().expect("spawn mos");
    let mut so = child.stdout.take().unwrap();
    let mut se = child.stderr.take().unwrap();
    let t1 = std::thread::spawn(move || {
        let mut b = vec![];
        let _ = so.read_to_end(&mut b);
        b
    });
    let t2 = std::thread::spawn(move || {
        let mut b = vec![];
        let _ = se.read_to_end(&mut b);
        b
    });
    let deadline = std::time::Instant::now() + std::time::Duration::from_secs(cli_timeout_secs());
    let mut timed_out = false;
    let status = loop {
        match child.try_wait() {
            Ok(Some(st)) => break Some(st),
            Ok(None) => {
                if std::time::Instant::now() > deadline {
                    timed_out = true;
                    let _ = child.kill();
                    break child.wait().ok();
                }
                std::thread::sleep(std::time::Duration::from_millis(2));
            }
            Err(_) => break None,
        }
    };
    let out = t1.join().unwrap_or_default();
    let err = t2.join().unwrap_or_default();
    if timed_out {
        CLI_TIMEOUTS.fetch_add(1, std::sync::atomic::Ordering::SeqCst);
    }
    Run {
        code: status.and_then(|s| s.code()),
        signal: status.and_then(|s| s.signal()),
        stdout: String::from_utf8_lossy(&out).to_string(),
        stderr: String::from_utf8_lossy(&err).to_string(),
        timed_out,
    }
}

/// `file:line:col: error: message` lines of short-style output
#[derive(Clone, Debug, PartialEq, Eq)]
pub struct CliDiag {
    pub file: Option<String>,
    pub line: usize,
    pub col: usize,
    pub msg: String,
}

pub fn parse_short_diags(stdout: &str) -> Vec<CliDiag> {
    let mut v = vec![];
    for l in stdout.lines() {
        if let Some(idx) = l.find("error: ") {
            let head = l[..idx].trim_end().trim_end_matches(':');
            let msg = l[idx + 7..].to_string();
            let parts: Vec<&str> = head.rsplitn(3, ':').collect();
            if parts.len() == 3 {
                if let (Ok(col), Ok(line)) = (parts[0].trim().parse::<usize>(), parts[1].trim().parse::<usize>()) {
                    v.push(CliDiag { file: Some(parts[2].trim().to_string()), line, col, msg });
                    continue;
                }
            }
            v.push(CliDiag { file: None, line: 0, col: 0, msg });
        }
    }
    v
}
