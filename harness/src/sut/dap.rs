//! Minimal Debug Adapter Protocol client (TCP) for the debug server embedded in `mos lsp`.

use serde_json::{json, Value};
use std::io::{BufRead, BufReader, Read, Write};
use std::net::TcpStream;
use std::sync::mpsc::{channel, Receiver, RecvTimeoutError};
use std::time::{Duration, Instant};

#[derive(Debug, Clone)]
pub enum DapErr {
    Timeout,
    Closed,
    Failed(Value),
}

pub struct DapClient {
    stream: TcpStream,
    rx: Receiver<Value>,
    seq: u64,
    pub events: Vec<Value>,
    pub log: Vec<String>,
}

impl DapClient {
    pub fn connect(port: u16, timeout: Duration) -> Option<DapClient> {
        let deadline = Instant::now() + timeout;
        let stream = loop {
            match TcpStream::connect(("127.0.0.1", port)) {
                // (never talk to ourselves: a TCP self-connection)
                Ok(s) if s.local_addr().map(|a| a.port() != port).unwrap_or(true) => break s,
                Ok(_) => {}
                Err(_) => {
                    if Instant::now() > deadline {
                        return None;
                    }
                    std::thread::sleep(Duration::from_millis(10));
                }
            }
        };
        let _ = stream.set_nodelay(true);
        let rs = stream.try_clone().ok()?;
        let (tx, rx) = channel();
        std::thread::spawn(move || {
            let mut r = BufReader::new(rs);
            loop {
                let mut len: Option<usize> = None;
                loop {
                    let mut line = String::new();
                    match r.read_line(&mut line) {
                        Ok(0) | Err(_) => return,
                        Ok(_) => {}
                    }
                    let l = line.trim_end();
                    if l.is_empty() {
                        break;
                    }
                    if let Some(v) = l.strip_prefix("Content-Length:") {
                        len = v.trim().parse().ok();
                    }
                }
                let n = match len {
                    Some(n) => n,
                    None => return,
                };
                let mut buf = vec![0u8; n];
                if r.read_exact(&mut buf).is_err() {
                    return;
                }
                if let Ok(v) = serde_json::from_slice::<Value>(&buf) {
                    if tx.send(v).is_err() {
                        return;
                    }
                }
            }
        });
        Some(DapClient { stream, rx, seq: 1, events: vec![], log: vec![] })
    }

    pub fn send_request(&mut self, command: &str, args: Value) -> Option<u64> {
        let seq = self.seq;
        self.seq += 1;
        let mut msg = json!({"seq": seq, "type": "request", "command": command});
        if !args.is_null() {
            msg["arguments"] = args;
        }
        let body = serde_json::to_string(&msg).unwrap();
        self.log.push(format!("-> {}", body));
        let m = format!("Content-Length: {}\r\n\r\n{}", body.len(), body);
        if self.stream.write_all(m.as_bytes()).is_err() || self.stream.flush().is_err() {
            return None;
        }
        Some(seq)
    }

    /// wait for the response to `seq`, collecting events
    pub fn wait_response(&mut self, seq: u64, timeout: Duration) -> Result<Value, DapErr> {
        let deadline = Instant::now() + timeout;
        loop {
            let left = deadline.saturating_duration_since(Instant::now());
            match self.rx.recv_timeout(left) {
                Ok(v) => {
                    self.log.push(format!("<- {}", v));
                    if v["type"] == "response" && v["request_seq"].as_u64() == Some(seq) {
                        if v["success"].as_bool() == Some(true) {
                            return Ok(v);
                        }
                        return Err(DapErr::Failed(v));
                    }
                    if v["type"] == "event" {
                        self.events.push(v);
                    }
                }
                Err(RecvTimeoutError::Timeout) => return Err(DapErr::Timeout),
                Err(RecvTimeoutError::Disconnected) => return Err(DapErr::Closed),
            }
        }
    }

    pub fn request(&mut self, command: &str, args: Value, timeout: Duration) -> Result<Value, DapErr> {
        match self.send_request(command, args) {
            Some(seq) => self.wait_response(seq, timeout),
            None => Err(DapErr::Closed),
        }
    }

    /// wait until an event with this name arrives (events seen earlier are searched from index `from`)
    pub fn wait_event(&mut self, name: &str, from: usize, timeout: Duration) -> Option<(usize, Value)> {
        let deadline = Instant::now() + timeout;
        loop {
            if let Some((i, e)) = self.events.iter().enumerate().skip(from).find(|(_, e)| e["event"] == name) {
                return Some((i, e.clone()));
            }
            let left = deadline.saturating_duration_since(Instant::now());
            if left.is_zero() {
                return None;
            }
            match self.rx.recv_timeout(left) {
                Ok(v) => {
                    self.log.push(format!("<- {}", v));
                    if v["type"] == "event" {
                        self.events.push(v);
                    }
                }
                Err(_) => return None,
            }
        }
    }

    /// collect whatever arrives within `d`
    pub fn pump(&mut self, d: Duration) {
        let deadline = Instant::now() + d;
        loop {
            let left = deadline.saturating_duration_since(Instant::now());
            if left.is_zero() {
                return;
            }
            match self.rx.recv_timeout(left) {
                Ok(v) => {
                    self.log.push(format!("<- {}", v));
                    if v["type"] == "event" {
                        self.events.push(v);
                    }
                }
                Err(_) => return,
            }
        }
    }

    pub fn close(self) {
        let _ = self.stream.shutdown(std::net::Shutdown::Both);
    }
}
