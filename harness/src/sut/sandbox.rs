//! Worker sub-processes for cases that may abort the process (stack overflow) or fail to terminate.

use serde_json::Value;
use std::io::{BufRead, BufReader, Write};
use std::process::{Child, ChildStdin, Command, Stdio};
use std::sync::mpsc::{channel, Receiver, RecvTimeoutError};
use std::time::Duration;

pub enum WorkerResult {
    Ok(Value),
    /// worker process died while running the case (exit status description)
    Died(String),
    /// no answer within the watchdog limit: inconclusive, never a verdict
    TimedOut,
    /// no answer within the watchdog limit, and none is coming: every thread of the worker sleeps and none has used any
    /// CPU time between two samples (the text describes the samples)
    Blocked(String),
}

pub struct Worker {
    id: String,
    child: Option<Child>,
    stdin: Option<ChildStdin>,
    rx: Option<Receiver<String>>,
    pub restarts: usize,
}

impl Worker {
    pub fn new(id: &str) -> Worker {
        Worker { id: id.to_string(), child: None, stdin: None, rx: None, restarts: 0 }
    }

    fn start(&mut self) {
        let exe = std::env::current_exe().expect("current exe");
        let mut child = Command::new(exe)
            .arg(&self.id)
            .arg("--worker")
            .stdin(Stdio::piped())
            .stdout(Stdio::piped())
            .stderr(Stdio::null())
            .spawn()
            .expect("spawn worker");
        let stdout = child.stdout.take().unwrap();
        let (tx, rx) = channel();
        std::thread::spawn(move || {
            let r = BufReader::new(stdout);
            for line in r.lines() {
                match line {
                    Ok(l) => {
                        if tx.send(l).is_err() {
                            break;
                        }
                    }
                    Err(_) => break,
                }
            }
        });
        self.stdin = child.stdin.take();
        self.child = Some(child);
        self.rx = Some(rx);
    }

    fn kill(&mut self) -> String {
        let mut status = String::from("?");
        if let Some(mut c) = self.child.take() {
            let _ = c.kill();
            if let Ok(s) = c.wait() {
                status = format!("{}", s);
            }
        }
        self.stdin = None;
        self.rx = None;
        status
    }

    pub fn run(&mut self, case: &Value, timeout: Duration) -> WorkerResult {
        if self.child.is_none() {
            self.start();
        }
        let line = serde_json::to_string(case).unwrap();
        let ok = {
            let si = self.stdin.as_mut().unwrap();
            si.write_all(line.as_bytes()).and_then(|_| si.write_all(b"\n")).and_then(|_| si.flush()).is_ok()
        };
        if !ok {
            let st = self.wait_status();
            self.restarts += 1;
            return WorkerResult::Died(st);
        }
        match self.rx.as_ref().unwrap().recv_timeout(timeout) {
            Ok(l) => match serde_json::from_str::<Value>(&l) {
                Ok(v) => WorkerResult::Ok(v),
                Err(e) => WorkerResult::Died(format!("garbled answer: {}", e)),
            },
            Err(RecvTimeoutError::Timeout) => {
                let witness = self.child.as_ref().and_then(|c| {
                    let pid = c.id();
                    let a = crate::props::c20::thread_sample(pid);
                    std::thread::sleep(Duration::from_millis(300));
                    let b = crate::props::c20::thread_sample(pid);
                    let all_blocked = !a.is_empty() && a.len() == b.len() && a.iter().zip(b.iter()).all(|(x, y)| x.1 == 'S' && y.1 == 'S' && x.2 == y.2);
                    if all_blocked {
                        Some(format!("all {} threads sleep without consuming CPU time: {:?}", b.len(), b))
                    } else {
                        None
                    }
                });
                self.kill();
                self.restarts += 1;
                match witness {
                    Some(w) => WorkerResult::Blocked(w),
                    None => WorkerResult::TimedOut,
                }
            }
            Err(RecvTimeoutError::Disconnected) => {
                let st = self.wait_status();
                self.restarts += 1;
                WorkerResult::Died(st)
            }
        }
    }

    fn wait_status(&mut self) -> String {
        let mut status = String::from("?");
        if let Some(mut c) = self.child.take() {
            // the process is gone or going: reap it
            for _ in 0..50 {
                match c.try_wait() {
                    Ok(Some(s)) => {
                        status = describe(&s);
                        break;
                    }
                    Ok(None) => std::thread::sleep(Duration::from_millis(20)),
                    Err(_) => break,
                }
            }
            let _ = c.kill();
            let _ = c.wait();
        }
        self.stdin = None;
        self.rx = None;
        status
    }
}

fn describe(s: &std::process::ExitStatus) -> String {
    use std::os::unix::process::ExitStatusExt;
    if let Some(sig) = s.signal() {
        format!("signal {}", sig)
    } else {
        format!("exit code {}", s.code().unwrap_or(-1))
    }
}

impl Drop for Worker {
    fn drop(&mut self) {
        self.kill();
    }
}

/// Worker main loop: read JSON lines from stdin, answer with one JSON line each.
pub fn worker_loop(handler: impl Fn(&Value) -> Value) {
    let stdin = std::io::stdin();
    let stdout = std::io::stdout();
    for line in stdin.lock().lines() {
        let line = match line {
            Ok(l) => l,
            Err(_) => break,
        };
        let v: Value = match serde_json::from_str(&line) {
            Ok(v) => v,
            Err(_) => continue,
        };
        let out = handler(&v);
        let mut so = stdout.lock();
        let _ = so.write_all(serde_json::to_string(&out).unwrap().as_bytes());
        let _ = so.write_all(b"\n");
        let _ = so.flush();
    }
}
