pub mod core;
