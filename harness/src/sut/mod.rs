pub mod core;
pub mod sandbox;
