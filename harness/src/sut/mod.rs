pub mod cli;
pub mod core;
pub mod sandbox;
