pub mod cli;
pub mod core;
pub mod lsp;
pub mod sandbox;
