pub mod cli;
pub mod core;
pub mod dap;
pub mod lsp;
pub mod sandbox;
