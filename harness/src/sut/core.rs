//! In-process driver for mos-core: parse / codegen / format / listing with panic capture
//! and the pass observer (hook `--cfg mos_verif`).

use mos_core::codegen::{codegen, CodegenContext, CodegenOptions, SymbolData, SymbolType};
use mos_core::errors::Diagnostics;
use mos_core::parser::source::{InMemoryParsingSource, ParsingSource};
use mos_core::parser::{parse, ParseTree};
use serde::{Deserialize, Serialize};
use std::cell::RefCell;
use std::collections::{BTreeMap, HashSet};
use std::panic::{catch_unwind, AssertUnwindSafe};
use std::path::Path;
use std::rc::Rc;
use std::sync::{Arc, Mutex, Once};

#[derive(Clone, Debug, Serialize, Deserialize, PartialEq, Eq, Hash, Default)]
pub struct Project {
    /// path (relative, '/' separated) -> text
    pub files: BTreeMap<String, String>,
    pub entry: String,
}

impl Project {
    pub fn single(text: &str) -> Self {
        let mut files = BTreeMap::new();
        files.insert("main.asm".to_string(), text.to_string());
        Project {
            files,
            entry: "main.asm".into(),
        }
    }
    pub fn with(mut self, name: &str, text: &str) -> Self {
        self.files.insert(name.to_string(), text.to_string());
        self
    }
    pub fn main_text(&self) -> &str {
        &self.files[&self.entry]
    }
    pub fn source(&self) -> Arc<Mutex<dyn ParsingSource>> {
        let mut s = InMemoryParsingSource::new();
        for (k, v) in &self.files {
            s = s.add(k.as_str(), v);
        }
        s.into()
    }
}

#[derive(Clone, Debug, Serialize, Deserialize, PartialEq, Eq, Hash)]
pub struct Diag {
    pub msg: String,
    pub file: Option<String>,
    /// 1-based line/column of the first label (0 when there is no label)
    pub line: usize,
    pub col: usize,
    pub end_line: usize,
    pub end_col: usize,
    /// span offsets are valid (inside an existing file of the code map)
    pub span_ok: bool,
}

impl Diag {
    pub fn short(&self) -> String {
        match &self.file {
            Some(f) => format!("{}:{}:{}: {}", f, self.line, self.col, self.msg),
            None => self.msg.clone(),
        }
    }
}

#[derive(Clone, Debug, Serialize, Deserialize, PartialEq, Eq)]
pub struct PanicInfo {
    pub file: String,
    pub line: u32,
    pub msg: String,
}

impl PanicInfo {
    /// Signature without line numbers and with digits normalised
    pub fn signature(&self) -> String {
        let file = self
            .file
            .rsplit_once("/src/")
            .map(|(a, b)| {
                let krate = a.rsplit('/').next().unwrap_or("");
                format!("{}/src/{}", krate, b)
            })
            .unwrap_or_else(|| self.file.clone());
        let mut msg = String::new();
        let mut last_digit = false;
        for c in self.msg.chars() {
            if c.is_ascii_digit() {
                if !last_digit {
                    msg.push('N');
                }
                last_digit = true;
            } else {
                last_digit = false;
                msg.push(c);
            }
        }
        let msg: String = msg.chars().take(90).collect();
        format!("panic|{}|{}", file, msg)
    }
}

thread_local! {
    static LAST_PANIC: RefCell<Option<PanicInfo>> = RefCell::new(None);
    static CAPTURE: RefCell<bool> = RefCell::new(false);
}

static HOOK: Once = Once::new();

pub fn install_panic_hook() {
    HOOK.call_once(|| {
        let default = std::panic::take_hook();
        std::panic::set_hook(Box::new(move |info| {
            let capturing = CAPTURE.with(|c| *c.borrow());
            if capturing {
                let (file, line) = info
                    .location()
                    .map(|l| (l.file().to_string(), l.line()))
                    .unwrap_or_default();
                let msg = if let Some(s) = info.payload().downcast_ref::<&str>() {
                    s.to_string()
                } else if let Some(s) = info.payload().downcast_ref::<String>() {
                    s.clone()
                } else {
                    "<non-string panic>".to_string()
                };
                LAST_PANIC.with(|p| *p.borrow_mut() = Some(PanicInfo { file, line, msg }));
            } else {
                default(info);
            }
        }));
    });
}

/// Run `f`, converting a panic inside it into `Err(PanicInfo)`.
pub fn guarded<T>(f: impl FnOnce() -> T) -> Result<T, PanicInfo> {
    install_panic_hook();
    CAPTURE.with(|c| *c.borrow_mut() = true);
    LAST_PANIC.with(|p| *p.borrow_mut() = None);
    let r = catch_unwind(AssertUnwindSafe(f));
    CAPTURE.with(|c| *c.borrow_mut() = false);
    match r {
        Ok(v) => Ok(v),
        Err(_) => Err(LAST_PANIC
            .with(|p| p.borrow_mut().take())
            .unwrap_or(PanicInfo {
                file: "?".into(),
                line: 0,
                msg: "?".into(),
            })),
    }
}

fn conv_diags(d: &Diagnostics, tree: Option<&ParseTree>) -> Vec<Diag> {
    d.iter()
        .map(|diag| {
            let mut out = Diag {
                msg: diag.message.clone(),
                file: None,
                line: 0,
                col: 0,
                end_line: 0,
                end_col: 0,
                span_ok: true,
            };
            if let (Some(label), Some(tree)) = (diag.labels.first(), tree) {
                let span = label.file_id;
                // validity check without look_up_span (which asserts)
                let lo = span.low().as_usize();
                let hi = span.high().as_usize();
                let ok = tree.code_map.files().iter().any(|f| {
                    let fl = f.span.low().as_usize();
                    let fh = f.span.high().as_usize();
                    lo >= fl && hi <= fh && lo <= hi
                });
                out.span_ok = ok;
                if ok {
                    let sl = tree.code_map.look_up_span(span);
                    out.file = Some(sl.file.name().to_string());
                    out.line = sl.begin.line + 1;
                    out.col = sl.begin.column + 1;
                    out.end_line = sl.end.line + 1;
                    out.end_col = sl.end.column + 1;
                }
            }
            out
        })
        .collect()
}

pub fn conv_diags_pub(d: &Diagnostics, tree: &ParseTree) -> Vec<Diag> {
    conv_diags(d, Some(tree))
}

#[derive(Clone, Debug, Serialize, Deserialize, PartialEq, Eq)]
pub struct SegOut {
    pub name: String,
    pub start: usize,
    pub end: usize,
    pub data: Vec<u8>,
    pub initial_pc: usize,
    pub target_address: usize,
    pub write: bool,
    pub bank: Option<String>,
}

#[derive(Clone, Debug, Serialize, Deserialize, PartialEq, Eq)]
pub enum SymVal {
    Num(i64),
    Str(String),
    Macro,
    Placeholder,
}

#[derive(Clone, Debug, Serialize, Deserialize, PartialEq, Eq)]
pub struct SymOut {
    pub val: SymVal,
    pub ty: String,
}

#[derive(Clone, Debug, PartialEq, Eq, Serialize, Deserialize)]
pub enum PassVerdict {
    /// loop ended by itself
    Ended,
    /// a pass state digest repeated: proved non-termination
    Diverged { at_pass: usize },
    /// pass bound hit without a repeat
    Inconclusive { at_pass: usize },
}

#[derive(Clone, Debug)]
pub struct AsmOptions {
    pub active_test: Option<String>,
    pub pc: usize,
    pub greedy: bool,
    pub move_macro: bool,
    pub max_passes: usize,
    pub test: bool,
}

impl Default for AsmOptions {
    fn default() -> Self {
        AsmOptions {
            active_test: None,
            pc: 0x2000,
            greedy: false,
            move_macro: false,
            max_passes: 400,
            test: false,
        }
    }
}

pub struct Assembled {
    pub tree: Option<Arc<ParseTree>>,
    pub ctx: Option<CodegenContext>,
    pub parse_diags: Vec<Diag>,
    pub diags: Vec<Diag>,
    pub passes: usize,
    pub pass_verdict: PassVerdict,
    pub digests: Vec<u64>,
}

impl Assembled {
    pub fn ok(&self) -> bool {
        self.parse_diags.is_empty()
            && self.diags.is_empty()
            && self.ctx.is_some()
            && self.pass_verdict == PassVerdict::Ended
    }
    pub fn all_diags(&self) -> Vec<Diag> {
        let mut v = self.parse_diags.clone();
        v.extend(self.diags.clone());
        v
    }
    pub fn segments(&self) -> Vec<SegOut> {
        match &self.ctx {
            None => vec![],
            Some(ctx) => ctx
                .segments()
                .iter()
                .map(|(name, s)| SegOut {
                    name: name.to_string(),
                    start: s.range().start,
                    end: s.range().end,
                    data: s.range_data().to_vec(),
                    initial_pc: s.options().initial_pc.as_usize(),
                    target_address: s.options().target_address.as_usize(),
                    write: s.options().write,
                    bank: s.options().bank.as_ref().map(|b| b.to_string()),
                })
                .collect(),
        }
    }
    pub fn symbols(&self) -> BTreeMap<String, SymOut> {
        let mut m = BTreeMap::new();
        if let Some(ctx) = &self.ctx {
            for (path, (_, s)) in ctx.symbols().all() {
                let val = match &s.data {
                    SymbolData::Number(n) => SymVal::Num(*n),
                    SymbolData::String(s) => SymVal::Str(s.clone()),
                    SymbolData::MacroDefinition(_) => SymVal::Macro,
                    SymbolData::Placeholder => SymVal::Placeholder,
                };
                let ty = match s.ty {
                    SymbolType::Label => "label",
                    SymbolType::TestCase => "test",
                    SymbolType::MacroArgument => "macroarg",
                    SymbolType::Constant => "const",
                    SymbolType::Variable => "var",
                };
                m.insert(path.to_string(), SymOut { val, ty: ty.into() });
            }
        }
        m
    }
    pub fn vice(&self) -> Option<String> {
        self.ctx
            .as_ref()
            .map(|c| mos_core::io::to_vice_symbols(c.symbols()))
    }
    /// bytes of segment "default" (or the first segment)
    pub fn default_bytes(&self) -> Vec<u8> {
        let segs = self.segments();
        segs.iter()
            .find(|s| s.name == "default")
            .or(segs.first())
            .map(|s| s.data.clone())
            .unwrap_or_default()
    }
}

pub fn parse_project(p: &Project) -> (Option<Arc<ParseTree>>, Vec<Diag>) {
    let (tree, diags) = parse(Path::new(&p.entry), p.source());
    let d = conv_diags(&diags, tree.as_deref());
    (tree, d)
}

/// parse + codegen (when parsing had no diagnostics), with the pass observer installed.
pub fn assemble(p: &Project, opts: AsmOptions) -> Assembled {
    let (tree, parse_diags) = parse_project(p);
    let mut out = Assembled {
        tree: tree.clone(),
        ctx: None,
        parse_diags,
        diags: vec![],
        passes: 0,
        pass_verdict: PassVerdict::Ended,
        digests: vec![],
    };
    if !out.parse_diags.is_empty() || tree.is_none() {
        return out;
    }
    let tree = tree.unwrap();
    let (ctx, diags, passes, verdict, digests) = codegen_observed(tree.clone(), opts);
    out.diags = conv_diags(&diags, Some(&tree));
    out.ctx = ctx;
    out.passes = passes;
    out.pass_verdict = verdict;
    out.digests = digests;
    out
}

pub fn codegen_observed(
    tree: Arc<ParseTree>,
    opts: AsmOptions,
) -> (
    Option<CodegenContext>,
    Diagnostics,
    usize,
    PassVerdict,
    Vec<u64>,
) {
    let state: Rc<RefCell<(HashSet<u64>, Vec<u64>, PassVerdict)>> =
        Rc::new(RefCell::new((HashSet::new(), vec![], PassVerdict::Ended)));
    let st2 = state.clone();
    let max = opts.max_passes;
    mos_core::codegen::verif_hook::set_pass_observer(Some(Box::new(move |pass, digest| {
        let mut s = st2.borrow_mut();
        s.1.push(digest);
        // A repeated digest alone is not a proof: where hash-map iteration order leaks into a pass (e.g. which of
        // several clashing names an error message quotes) the pass is not a function of the digested state and the
        // loop may still end. Only a loop that has repeated a state AND is still running at the pass bound counts.
        if !s.0.insert(digest) && !matches!(s.2, PassVerdict::Diverged { .. }) {
            s.2 = PassVerdict::Diverged { at_pass: pass };
        }
        if pass + 1 >= max {
            if !matches!(s.2, PassVerdict::Diverged { .. }) {
                s.2 = PassVerdict::Inconclusive { at_pass: pass };
            }
            return false;
        }
        true
    })));
    let mut predefined_constants = std::collections::HashMap::new();
    if opts.active_test.is_some() {
        predefined_constants.insert("TEST".to_string(), 1);
    }
    let options = CodegenOptions {
        active_test: opts.active_test.as_deref().map(mos_core::parser::IdentifierPath::from),
        predefined_constants,
        pc: opts.pc.into(),
        enable_greedy_analysis: opts.greedy,
        move_macro_source_map_to_invocation: opts.move_macro,
        ..Default::default()
    };
    let (ctx, mut diags) = codegen(tree, options);
    mos_core::codegen::verif_hook::set_pass_observer(None);
    let s = state.borrow();
    // the loop ended by itself before the bound: whatever repeated, it terminated
    let stopped_by_observer = diags.iter().any(|d| d.message.starts_with("verification: pass loop stopped"));
    let verdict = if stopped_by_observer { s.2.clone() } else { PassVerdict::Ended };
    if verdict != PassVerdict::Ended {
        // remove the synthetic diagnostic the hook added
        let kept: Vec<_> = diags
            .iter()
            .filter(|d| !d.message.starts_with("verification: pass loop stopped"))
            .cloned()
            .collect();
        let cm = diags.code_map().cloned();
        diags = Diagnostics::from(kept);
        if let Some(cm) = cm {
            diags = diags.with_code_map(&cm);
        }
    }
    (ctx, diags, s.1.len(), verdict, s.1.clone())
}

/// Convenience: assemble a single-file program with default options.
pub fn asm1(text: &str) -> Assembled {
    assemble(&Project::single(text), AsmOptions::default())
}

/// Format the entry file with the given options.
pub fn format_file(
    tree: Arc<ParseTree>,
    file: &str,
    opts: mos_core::formatting::FormattingOptions,
) -> String {
    mos_core::formatting::format(file, tree, opts)
}

/// All listing files of an assembled context.
pub fn listing(ctx: &CodegenContext, n: usize) -> BTreeMap<String, String> {
    match mos_core::io::to_listing(ctx, n) {
        Ok(m) => m
            .into_iter()
            .map(|(k, v)| (k.to_string_lossy().to_string(), v))
            .collect(),
        Err(_) => BTreeMap::new(),
    }
}
