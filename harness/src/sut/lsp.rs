//! Minimal LSP client speaking JSON-RPC over the stdio of a `mos lsp` child process.

use crate::sut::cli::mos_bin;
use serde_json::{json, Value};
use std::io::{BufRead, BufReader, Read, Write};
use std::path::{Path, PathBuf};
use std::process::{Child, ChildStdin, Command, Stdio};
use std::sync::atomic::{AtomicU16, Ordering};
use std::sync::mpsc::{channel, Receiver, RecvTimeoutError};
use std::time::Duration;

static NEXT_PORT: AtomicU16 = AtomicU16::new(0);

/// a TCP port that is free right now (for the embedded debug adapter). Below the ephemeral range: a client that keeps
/// trying to connect to a port nobody listens on yet can otherwise end up connected to itself (TCP simultaneous open
/// when the kernel happens to pick that very port as the source port).
pub fn free_port() -> u16 {
    loop {
        let n = NEXT_PORT.fetch_add(1, Ordering::SeqCst) as u32;
        let port = 10_000 + (((std::process::id() % 97) * 211 + n) % 22_000) as u16;
        if std::net::TcpListener::bind(("127.0.0.1", port)).is_ok() {
            return port;
        }
    }
}

#[derive(Debug, Clone)]
pub enum LspErr {
    /// no answer within the limit (never a verdict by itself)
    Timeout,
    /// the server process ended: (exit description, stderr tail)
    Died(String, String),
    /// JSON-RPC error response
    Error(Value),
}

pub struct LspClient {
    child: Child,
    stdin: Option<ChildStdin>,
    rx: Receiver<Value>,
    err_rx: Receiver<String>,
    next_id: i64,
    pub notifications: Vec<Value>,
    pub port: u16,
    pub dir: PathBuf,
    stderr_buf: String,
}

pub fn file_uri(dir: &Path, rel: &str) -> String {
    format!("file://{}/{}", dir.to_string_lossy(), rel)
}

impl LspClient {
    pub fn start(dir: &Path) -> Result<LspClient, LspErr> {
        Self::start_on_port(dir, free_port())
    }

    /// start the server with a given debug adapter port (which may be in use)
    pub fn start_on_port(dir: &Path, port: u16) -> Result<LspClient, LspErr> {
        let mut child = Command::new(mos_bin())
            .args(["lsp", "-p", &port.to_string()])
            .current_dir(dir)
            .stdin(Stdio::piped())
            .stdout(Stdio::piped())
            .stderr(Stdio::piped())
            .spawn()
            .expect("spawn mos lsp");
        let stdout = child.stdout.take().unwrap();
        let stderr = child.stderr.take().unwrap();
        let (tx, rx) = channel();
        std::thread::spawn(move || {
            let mut r = BufReader::new(stdout);
            loop {
                let mut len: Option<usize> = None;
                loop {
                    let mut line = String::new();
                    match r.read_line(&mut line) {
                        Ok(0) | Err(_) => return,
                        Ok(_) => {}
                    }
                    let l = line.trim_end();
                    if l.is_empty() {
                        break;
                    }
                    if let Some(v) = l.strip_prefix("Content-Length:") {
                        len = v.trim().parse().ok();
                    }
                }
                let n = match len {
                    Some(n) => n,
                    None => return,
                };
                let mut buf = vec![0u8; n];
                if r.read_exact(&mut buf).is_err() {
                    return;
                }
                if let Ok(v) = serde_json::from_slice::<Value>(&buf) {
                    if tx.send(v).is_err() {
                        return;
                    }
                }
            }
        });
        let (etx, err_rx) = channel();
        std::thread::spawn(move || {
            let r = BufReader::new(stderr);
            for l in r.lines().map_while(|l| l.ok()) {
                if etx.send(l).is_err() {
                    break;
                }
            }
        });
        let mut c = LspClient { stdin: child.stdin.take(), child, rx, err_rx, next_id: 1, notifications: vec![], port, dir: dir.to_path_buf(), stderr_buf: String::new() };
        c.request("initialize", json!({"capabilities": {}, "processId": null, "rootUri": null}), Duration::from_secs(20))?;
        c.notify("initialized", json!({}));
        Ok(c)
    }

    fn send(&mut self, v: &Value) -> bool {
        let body = serde_json::to_string(v).unwrap();
        let msg = format!("Content-Length: {}\r\n\r\n{}", body.len(), body);
        match self.stdin.as_mut() {
            Some(si) => si.write_all(msg.as_bytes()).and_then(|_| si.flush()).is_ok(),
            None => false,
        }
    }

    pub fn notify(&mut self, method: &str, params: Value) -> bool {
        self.send(&json!({"jsonrpc": "2.0", "method": method, "params": params}))
    }

    fn drain_stderr(&mut self) {
        while let Ok(l) = self.err_rx.try_recv() {
            self.stderr_buf.push_str(&l);
            self.stderr_buf.push('\n');
        }
    }

    pub fn stderr_tail(&mut self) -> String {
        std::thread::sleep(Duration::from_millis(30));
        self.drain_stderr();
        let lines: Vec<&str> = self.stderr_buf.lines().filter(|l| l.contains("panicked") || l.contains("Error") || l.contains("error")).collect();
        let n = lines.len().saturating_sub(6);
        lines[n..].join("\n")
    }

    pub fn died(&mut self) -> LspErr {
        let mut status = String::from("?");
        for _ in 0..100 {
            match self.child.try_wait() {
                Ok(Some(s)) => {
                    use std::os::unix::process::ExitStatusExt;
                    status = match (s.code(), s.signal()) {
                        (Some(c), _) => format!("exit status {}", c),
                        (_, Some(sig)) => format!("signal {}", sig),
                        _ => "?".into(),
                    };
                    break;
                }
                Ok(None) => std::thread::sleep(Duration::from_millis(20)),
                Err(_) => break,
            }
        }
        let tail = self.stderr_tail();
        LspErr::Died(status, tail)
    }

    pub fn request(&mut self, method: &str, params: Value, timeout: Duration) -> Result<Value, LspErr> {
        let id = self.next_id;
        self.next_id += 1;
        if !self.send(&json!({"jsonrpc": "2.0", "id": id, "method": method, "params": params})) {
            return Err(self.died());
        }
        let deadline = std::time::Instant::now() + timeout;
        loop {
            let left = deadline.saturating_duration_since(std::time::Instant::now());
            match self.rx.recv_timeout(left) {
                Ok(v) => {
                    if v.get("id").and_then(|i| i.as_i64()) == Some(id) && v.get("method").is_none() {
                        if let Some(e) = v.get("error") {
                            return Err(LspErr::Error(e.clone()));
                        }
                        return Ok(v.get("result").cloned().unwrap_or(Value::Null));
                    }
                    if v.get("method").is_some() && v.get("id").is_none() {
                        self.notifications.push(v);
                    }
                }
                Err(RecvTimeoutError::Timeout) => {
                    // alive?
                    if let Ok(Some(_)) = self.child.try_wait() {
                        return Err(self.died());
                    }
                    return Err(LspErr::Timeout);
                }
                Err(RecvTimeoutError::Disconnected) => return Err(self.died()),
            }
        }
    }

    pub fn alive(&mut self) -> bool {
        matches!(self.child.try_wait(), Ok(None))
    }

    /// last published diagnostics per uri (a later publication replaces an earlier one)
    pub fn last_diagnostics(&self) -> std::collections::BTreeMap<String, Value> {
        let mut m = std::collections::BTreeMap::new();
        for n in &self.notifications {
            if n["method"] == "textDocument/publishDiagnostics" {
                if let Some(uri) = n["params"]["uri"].as_str() {
                    m.insert(uri.to_string(), n["params"]["diagnostics"].clone());
                }
            }
        }
        m
    }

    pub fn did_open(&mut self, uri: &str, text: &str) -> bool {
        self.notify("textDocument/didOpen", json!({"textDocument": {"uri": uri, "languageId": "asm", "version": 1, "text": text}}))
    }
    pub fn did_change(&mut self, uri: &str, text: &str, version: i64) -> bool {
        self.notify("textDocument/didChange", json!({"textDocument": {"uri": uri, "version": version}, "contentChanges": [{"text": text}]}))
    }
    pub fn did_close(&mut self, uri: &str) -> bool {
        self.notify("textDocument/didClose", json!({"textDocument": {"uri": uri}}))
    }

    /// orderly shutdown; returns (exit code, signal)
    pub fn shutdown(mut self, timeout: Duration) -> (Option<i32>, Option<i32>, String) {
        let _ = self.request("shutdown", Value::Null, timeout);
        self.notify("exit", Value::Null);
        self.stdin = None;
        let deadline = std::time::Instant::now() + timeout;
        loop {
            match self.child.try_wait() {
                Ok(Some(s)) => {
                    use std::os::unix::process::ExitStatusExt;
                    let t = self.stderr_tail();
                    return (s.code(), s.signal(), t);
                }
                Ok(None) => {
                    if std::time::Instant::now() > deadline {
                        let _ = self.child.kill();
                        let _ = self.child.wait();
                        return (None, None, "timeout".into());
                    }
                    std::thread::sleep(Duration::from_millis(10));
                }
                Err(_) => return (None, None, "wait error".into()),
            }
        }
    }

    pub fn pid(&self) -> u32 {
        self.child.id()
    }

    pub fn close_stdin(&mut self) {
        self.stdin = None;
    }

    pub fn try_wait(&mut self) -> Option<(Option<i32>, Option<i32>)> {
        use std::os::unix::process::ExitStatusExt;
        match self.child.try_wait() {
            Ok(Some(s)) => Some((s.code(), s.signal())),
            _ => None,
        }
    }
}

impl Drop for LspClient {
    fn drop(&mut self) {
        self.stdin = None;
        let _ = self.child.kill();
        let _ = self.child.wait();
    }
}

/// UTF-16 code units of a string prefix
pub fn utf16_len(s: &str) -> usize {
    s.chars().map(|c| c.len_utf16()).sum()
}

/// apply LSP text edits (ranges in UTF-16 columns, all relative to the original text); None when an edit is out
/// of range or edits overlap
pub fn apply_edits(text: &str, edits: &[Value]) -> Option<String> {
    // line start offsets
    let mut starts = vec![0usize];
    for (i, b) in text.bytes().enumerate() {
        if b == b'\n' {
            starts.push(i + 1);
        }
    }
    let offset = |line: usize, ch: usize| -> Option<usize> {
        if line >= starts.len() {
            // the position right after the last line
            if line == starts.len() && ch == 0 {
                return Some(text.len());
            }
            return None;
        }
        let ls = starts[line];
        let le = if line + 1 < starts.len() { starts[line + 1] } else { text.len() };
        let line_text = &text[ls..le];
        // the line's content excludes its line ending; a character beyond the end of the line is clamped to the end
        // of the line (LSP specification)
        let content = line_text.trim_end_matches(|c| c == '\n' || c == '\r');
        let mut u = 0usize;
        for (bi, c) in content.char_indices() {
            if u == ch {
                return Some(ls + bi);
            }
            u += c.len_utf16();
            if u > ch {
                return None; // inside a surrogate pair
            }
        }
        Some(ls + content.len())
    };
    let mut es: Vec<(usize, usize, String)> = vec![];
    for e in edits {
        let r = &e["range"];
        let a = offset(r["start"]["line"].as_u64()? as usize, r["start"]["character"].as_u64()? as usize)?;
        let b = offset(r["end"]["line"].as_u64()? as usize, r["end"]["character"].as_u64()? as usize)?;
        if b < a {
            return None;
        }
        es.push((a, b, e["newText"].as_str()?.to_string()));
    }
    let mut sorted = es.clone();
    sorted.sort_by_key(|e| (e.0, e.1));
    for w in sorted.windows(2) {
        if w[1].0 < w[0].1 {
            return None;
        }
    }
    let mut out = String::new();
    let mut pos = 0;
    for (a, b, t) in sorted {
        out.push_str(&text[pos..a]);
        out.push_str(&t);
        pos = b;
    }
    out.push_str(&text[pos..]);
    Some(out)
}
