//! C16 — go-to-definition and find-references agree with the assembler's scoping.

use crate::engine::{CaseLog, Ctx, Verdict};
use crate::gen::ast::*;
use crate::gen::binding::{analyze, Bindings, DefKind};
use crate::gen::build::{build, GenCfg};
use crate::model::layout::{check_image_all, CheckErr};
use crate::props::c17::{drop_server, with_server};
use crate::sut::cli::have_mos;
use crate::sut::core::{assemble, guarded, AsmOptions};
use crate::sut::lsp::{file_uri, LspErr};
use proptest::prelude::*;
use serde::{Deserialize, Serialize};
use serde_json::{json, Value};
use std::collections::BTreeSet;
use std::time::Duration;

#[derive(Clone, Debug, Hash, PartialEq, Eq, Serialize, Deserialize)]
pub struct Case {
    pub entropy: Vec<u32>,
}

pub fn cfg() -> GenCfg {
    let mut g = GenCfg::full();
    // (`-` and `+` are not names the rename and navigation properties are about)
    g.block_labels = false;
    // (a variable that is assigned several times has several definitions; which of them an occurrence belongs to is a
    // matter of source order, which the static binding model used here does not know)
    g.var_shadow = false;
    g.cond_defs = true;
    g.tests = true;
    g.straddle_shadow = true;
    g.max_stmts = 28;
    g.constructs_boost = true;
    g
}

type Rng = ((u64, u64), (u64, u64));

fn to_rng(r: &Rendered, a: usize, b: usize) -> Rng {
    let (l1, c1) = r.line_col16(a);
    let (l2, c2) = r.line_col16(b);
    ((l1 as u64 - 1, c1 as u64 - 1), (l2 as u64 - 1, c2 as u64 - 1))
}

fn json_rng(v: &Value) -> Option<Rng> {
    Some(((v["start"]["line"].as_u64()?, v["start"]["character"].as_u64()?), (v["end"]["line"].as_u64()?, v["end"]["character"].as_u64()?)))
}

/// byte ranges of statements the assembler never emits: bodies of loops with a count of zero, bodies of macros that
/// are never invoked (identifiers in them are bound to nothing)
fn dead_ranges(prog: &Program, r: &Rendered, invoked: &BTreeSet<String>) -> Vec<(usize, usize)> {
    let consts = crate::model::expand::pure_consts(prog);
    let mut out = vec![];
    let mut n = 0usize;
    fn go(body: &[Stmt], n: &mut usize, r: &Rendered, consts: &std::collections::BTreeMap<String, crate::model::eval::Value>, invoked: &BTreeSet<String>, out: &mut Vec<(usize, usize)>) {
        for s in body {
            let k = *n;
            *n += 1;
            let dead = match s {
                Stmt::Loop { count, .. } => !matches!(crate::model::expand::eval_with(consts, count), Some(crate::model::eval::Value::Int(c)) if c >= 1),
                Stmt::MacroDef { name, .. } => !invoked.contains(name),
                _ => false,
            };
            if dead {
                if let Some(span) = r.stmt_span(k) {
                    out.push(span);
                }
            }
            for c in s.children() {
                go(c, n, r, consts, invoked, out);
            }
        }
    }
    go(prog.main(), &mut n, r, &consts, invoked, &mut out);
    out
}

pub struct Prepared {
    pub dead: Vec<(usize, usize)>,
    pub prog: Program,
    pub text: String,
    pub rendered: Rendered,
    pub bindings: Bindings,
    pub invoked: BTreeSet<String>,
    pub features: BTreeSet<String>,
}

pub fn prepare(entropy: &[u32]) -> Option<Prepared> {
    let b = build(entropy, &cfg());
    // one case in three: comments (also with characters that take two UTF-16 code units) between the tokens
    let h = crate::engine::hash_of(&entropy.to_vec());
    let (proj, rs) = if h % 3 == 0 {
        let seed: Vec<u32> = entropy.iter().map(|v| v.rotate_left(5) ^ 0xc2b2_ae35).collect();
        let tc = crate::gen::trivia::TriviaCfg { vary: 20, case_flips: false, crlf: false, non_ascii: true, ..crate::gen::trivia::TriviaCfg::clean() };
        let mut f = crate::gen::trivia::RandFiller::new(&seed, tc);
        b.prog.render_with(&mut f)
    } else {
        b.prog.render()
    };
    // the program must assemble and agree with the reference model (so that the model's binding is the build's)
    let a = guarded(|| assemble(&proj, AsmOptions::default())).ok()?;
    if !a.ok() {
        return None;
    }
    match check_image_all(&b.prog, &a.segments(), 0x2000) {
        Ok(_) => {}
        Err(CheckErr::Unsupported(_)) | Err(CheckErr::Mismatch { .. }) => return None,
    }
    let rendered = rs["main.asm"].clone();
    let bindings = analyze(&b.prog, &rendered);
    // macros invoked from code that is really emitted
    let mut invoked = BTreeSet::new();
    let consts = crate::model::expand::pure_consts(&b.prog);
    crate::props::c04::invoked_macros(b.prog.main(), true, &consts, &mut invoked);
    let dead = dead_ranges(&b.prog, &rendered, &invoked);
    let mut features = b.stats.features.clone();
    if h % 3 == 0 {
        features.insert("comments_between_tokens".into());
    }
    if proj.main_text().chars().any(|c| c.len_utf16() == 2) {
        features.insert("characters_of_two_utf16_units".into());
    }
    Some(Prepared { dead, text: proj.main_text().to_string(), features, prog: b.prog, rendered, bindings, invoked })
}

/// names of macros whose body contains the byte offset
fn enclosing_macro(p: &Prepared, off: usize) -> Option<String> {
    let mut n = 0usize;
    let mut found = None;
    fn go(body: &[Stmt], n: &mut usize, r: &Rendered, off: usize, found: &mut Option<String>) {
        for s in body {
            let k = *n;
            *n += 1;
            if let Stmt::MacroDef { name, .. } = s {
                if let Some((a, b)) = r.stmt_span(k) {
                    if off >= a && off < b {
                        *found = Some(name.clone());
                    }
                }
            }
            for c in s.children() {
                go(c, n, r, off, found);
            }
        }
    }
    go(p.prog.main(), &mut n, &p.rendered, off, &mut found);
    found
}

/// a test whose body refers to something the program defines
pub fn has_test(p: &Prepared) -> bool {
    p.prog.main().iter().any(|s| matches!(s, Stmt::Test { .. })) && p.text.contains(".test")
}

pub fn prop(c: &Case, log: &mut CaseLog) -> Verdict {
    let p = match prepare(&c.entropy) {
        Some(p) => p,
        None => return Verdict::Discard("program does not assemble / not modelled".into()),
    };
    let r = &p.rendered;
    let t = Duration::from_secs(20);
    let nuses = p.bindings.uses.len();
    log.label_if(p.bindings.uses.iter().any(|u| u.path.len() > 1), "dotted-or-super-path");
    log.label_if(p.bindings.uses.iter().any(|u| u.in_macro), "use-in-macro");
    log.label_if(p.bindings.uses.iter().any(|u| u.in_string), "use-in-string");
    log.label_if(has_test(&p), "use-in-test");
    log.label_if(p.features.contains("comments_between_tokens"), "comments-between-tokens");
    log.label_if(p.features.contains("characters_of_two_utf16_units"), "characters-of-two-utf16-units");
    log.nontrivial = nuses >= 3;
    let text = p.text.clone();
    let res = with_server(|s| -> Result<Verdict, LspErr> {
        let uri = file_uri(&s.scratch.dir, "main.asm");
        s.version += 1;
        if !s.opened {
            s.client.did_open(&uri, &text);
            s.opened = true;
        } else {
            s.client.did_change(&uri, &text, s.version);
        }
        // ---- go to definition for every use component
        for u in &p.bindings.uses {
            for (ci, ((a, b), def)) in u.comps.iter().enumerate() {
                let d = match def {
                    Some(d) => &p.bindings.defs[*d],
                    None => continue,
                };
                let drange = match d.range {
                    Some(x) => x,
                    None => continue, // the implicit loop `index`
                };
                if p.dead.iter().any(|(x, y)| a >= x && a < y) {
                    // never emitted: bound to nothing
                    continue;
                }
                let mid = a + (b - a) / 2;
                let (l, col) = r.line_col16(mid);
                let resp = s.client.request("textDocument/definition", json!({"textDocument": {"uri": uri}, "position": {"line": l - 1, "character": col - 1}}), t)?;
                let want = to_rng(r, drange.0, drange.1);
                let got: Vec<Rng> = resp.as_array().map(|v| v.iter().filter_map(|x| json_rng(&x["targetSelectionRange"]).or_else(|| json_rng(&x["range"]))).collect()).unwrap_or_default();
                if got != vec![want] {
                    let kind = match d.kind {
                        DefKind::Param => "definition-wrong|macro-parameter",
                        DefKind::Macro => "definition-wrong|macro-name",
                        _ => {
                            if u.path.len() > 1 {
                                "definition-wrong|path-component"
                            } else if u.in_string {
                                "definition-wrong|string-interpolation"
                            } else {
                                "definition-wrong"
                            }
                        }
                    };
                    return Ok(Verdict::fail(
                        kind,
                        format!("{}\ngo-to-definition on component {} of `{}` at {}:{} should lead to the definition of `{}` at {:?}, got {}", text, ci, u.path.join("."), l, col, d.name, want, resp),
                    ));
                }
            }
        }
        // ---- references / highlights for every definition with a position
        for d in &p.bindings.defs {
            let (a, b) = match d.range {
                Some(x) => x,
                None => continue,
            };
            if p.dead.iter().any(|(x, y)| a >= *x && a < *y) {
                continue;
            }
            if d.kind == DefKind::Param || d.kind == DefKind::Macro {
                // parameters are one symbol per invocation and macro names are looked up separately: covered by the
                // definition direction only
                continue;
            }
            let mut uses: BTreeSet<Rng> = BTreeSet::new();
            let mut skip = false;
            for u in &p.bindings.uses {
                for ((ua, ub), def) in &u.comps {
                    if *def == Some(d.id) {
                        if p.dead.iter().any(|(x, y)| ua >= x && ua < y) {
                            // a use in code that is never emitted may or may not be recorded: do not judge this definition
                            skip = true;
                        }
                        uses.insert(to_rng(r, *ua, *ub));
                    }
                }
            }
            if skip {
                continue;
            }
            // occurrences in code that is never emitted (an uninvoked macro is analysed once, without a second look at
            // forward references): whatever the server says about them is not judged
            let in_dead = |x: usize| p.dead.iter().any(|(lo, hi)| x >= *lo && x < *hi);
            let dead_occ: BTreeSet<Rng> = p
                .bindings
                .uses
                .iter()
                .flat_map(|u| u.comps.iter().map(|((x, y), _)| (*x, *y)).collect::<Vec<_>>())
                .chain(p.bindings.defs.iter().filter_map(|d| d.range))
                .filter(|(x, _)| in_dead(*x))
                .map(|(x, y)| to_rng(r, x, y))
                .collect();
            // `super` path components are no identifiers: whatever the server says about them is not judged here
            let supers: BTreeSet<Rng> = p.bindings.uses.iter().flat_map(|u| u.path.iter().zip(u.comps.iter()).filter(|(c, _)| *c == "super").map(|(_, ((x, y), _))| to_rng(r, *x, *y)).collect::<Vec<_>>()).collect();
            let (l, col) = r.line_col16(a + (b - a) / 2);
            let pos = json!({"line": l - 1, "character": col - 1});
            for incl in [true, false] {
                let resp = s.client.request("textDocument/references", json!({"textDocument": {"uri": uri}, "position": pos, "context": {"includeDeclaration": incl}}), t)?;
                let got: BTreeSet<Rng> = resp.as_array().map(|v| v.iter().filter_map(|x| json_rng(&x["range"])).filter(|g| !supers.contains(g) && !dead_occ.contains(g)).collect()).unwrap_or_default();
                // "exactly the occurrences": each of them once
                let listed: Vec<Rng> = resp.as_array().map(|v| v.iter().filter_map(|x| json_rng(&x["range"])).collect()).unwrap_or_default();
                let distinct: BTreeSet<Rng> = listed.iter().cloned().collect();
                if listed.len() != distinct.len() {
                    return Ok(Verdict::fail("references-listed-more-than-once", format!("{}\nreferences of `{}` (defined at {}:{}), includeDeclaration={}: {:?}", text, d.name, l, col, incl, listed)));
                }
                let mut want = uses.clone();
                if incl {
                    want.insert(to_rng(r, a, b));
                }
                if got != want {
                    let missing: Vec<&Rng> = want.difference(&got).collect();
                    let extra: Vec<&Rng> = got.difference(&want).collect();
                    return Ok(Verdict::fail(
                        if !missing.is_empty() { "references-missing" } else { "references-extra" },
                        format!("{}\nreferences of `{}` (defined at {}:{}), includeDeclaration={}: missing {:?}, unexpected {:?}", text, d.name, l, col, incl, missing, extra),
                    ));
                }
            }
            let resp = s.client.request("textDocument/documentHighlight", json!({"textDocument": {"uri": uri}, "position": pos}), t)?;
            let got: BTreeSet<Rng> = resp.as_array().map(|v| v.iter().filter_map(|x| json_rng(&x["range"])).filter(|g| !supers.contains(g) && !dead_occ.contains(g)).collect()).unwrap_or_default();
            let mut want = uses.clone();
            want.insert(to_rng(r, a, b));
            if got != want {
                return Ok(Verdict::fail("highlights-differ", format!("{}\nhighlights of `{}` at {}:{}: got {:?}, want {:?}", text, d.name, l, col, got, want)));
            }
        }
        Ok(Verdict::Pass)
    });
    match res {
        Ok(Ok(v)) => v,
        Ok(Err(LspErr::Timeout)) | Err(LspErr::Timeout) => {
            drop_server();
            log.label("inconclusive");
            Verdict::Pass
        }
        Ok(Err(LspErr::Died(st, tail))) | Err(LspErr::Died(st, tail)) => {
            drop_server();
            Verdict::fail(format!("server-died|{}", st), format!("{}\n{}", text, tail))
        }
        Ok(Err(LspErr::Error(e))) | Err(LspErr::Error(e)) => Verdict::fail("error-response", format!("{}\n{}", text, e)),
    }
}

pub fn to_json(c: &Case) -> Value {
    json!({"entropy": c.entropy, "program": prepare(&c.entropy).map(|p| p.text)})
}

pub fn strategy() -> impl Strategy<Value = Case> {
    proptest::collection::vec(any::<u32>(), 8..260).prop_map(|entropy| Case { entropy })
}

// ------------------------------------------------------------------------------------------------ across files

/// Two-file projects (as in C15): every occurrence of a library symbol, in both files, must lead to its definition in
/// the library, and find-references from any of them must list exactly all of them.
pub fn prop_multi(c: &crate::props::c15::MultiCase, log: &mut CaseLog) -> Verdict {
    use crate::props::c15::{multi_project, word_occurrences};
    use std::collections::BTreeSet;
    if c.import_kind % 5 == 4 {
        // A file that is imported twice: what it defines exists once per import. The unit tests of mos pin that
        // find-references keeps those apart (`find_all_references`), while every one of them has its definition at the
        // same place: the "exactly the occurrences whose go-to-definition is that definition" of the property cannot be
        // decided for it. (Rename, which has to cover all of them, is held to it in C15.)
        return Verdict::Discard("file imported twice".into());
    }
    let proj = multi_project(c);
    let name = match (c.symbol % 4, c.import_kind % 5) {
        (2, 3) => "mk1",
        (3, 3) => "ml0",
        (s, _) if s % 2 == 0 => "libk1",
        _ => "libl0",
    };
    let mut occ: Vec<(String, (u64, u64, u64))> = vec![];
    if c.import_kind % 5 == 3 {
        // `.import libk1 as mk1, libl0 as ml0`: one symbol under two names. The occurrences are those of the library name
        // in the library, those of the alias in the main file, and the import argument `libk1 as mk1` as a whole (one
        // usage, as the unit tests of mos pin it).
        let (lib_name, alias) = if matches!(name, "libk1" | "mk1") { ("libk1", "mk1") } else { ("libl0", "ml0") };
        for o in word_occurrences(&proj.files["lib.asm"], lib_name) {
            occ.push(("lib.asm".to_string(), o));
        }
        let a = word_occurrences(&proj.files["main.asm"], lib_name)[0];
        let b = word_occurrences(&proj.files["main.asm"], alias)[0];
        occ.push(("main.asm".to_string(), (0, a.1, b.2)));
        for o in word_occurrences(&proj.files["main.asm"], alias).into_iter().skip(1) {
            occ.push(("main.asm".to_string(), o));
        }
    } else {
        for (f, t) in &proj.files {
            for o in word_occurrences(t, name) {
                occ.push((f.clone(), o));
            }
        }
    }
    // the definition is the first occurrence in lib.asm
    let def = occ.iter().find(|(f, _)| f == "lib.asm").cloned().unwrap();
    let coincide = occ.iter().any(|(f, o)| occ.iter().any(|(g, q)| f != g && o == q));
    log.label_if(coincide, "same-range-in-both-files");
    log.label(format!("import-kind:{}", c.import_kind % 5));
    log.nontrivial = true;
    let sc = crate::sut::cli::Scratch::new("c16m");
    sc.write("mos.toml", b"[build]\nentry = \"main.asm\"\n");
    for (f, t) in &proj.files {
        sc.write(f, t.as_bytes());
    }
    let mut client = match crate::sut::lsp::LspClient::start(&sc.dir) {
        Ok(c) => c,
        Err(_) => {
            log.label("inconclusive");
            return Verdict::Pass;
        }
    };
    let t = std::time::Duration::from_secs(20);
    let uri_of = |f: &str| crate::sut::lsp::file_uri(&sc.dir, f);
    client.did_open(&uri_of("main.asm"), &proj.files["main.asm"]);
    client.did_open(&uri_of("lib.asm"), &proj.files["lib.asm"]);
    let describe = |what: &str| format!("{}\n--- main.asm ---\n{}\n--- lib.asm ---\n{}\nsymbol `{}`, occurrences {:?}", what, proj.files["main.asm"], proj.files["lib.asm"], name, occ);
    let file_of = |u: &str| proj.files.keys().find(|f| u.ends_with(&format!("/{}", f))).cloned();
    let want_all: BTreeSet<(String, (u64, u64, u64))> = occ.iter().cloned().collect();
    let run = (|| -> Result<Verdict, crate::sut::lsp::LspErr> {
        for (f, o) in &occ {
            let pos = json!({"line": o.0, "character": o.1 + 1});
            // definition
            let r = client.request("textDocument/definition", json!({"textDocument": {"uri": uri_of(f)}, "position": pos}), t)?;
            let got: Vec<(Option<String>, (u64, u64, u64))> = r
                .as_array()
                .cloned()
                .unwrap_or_default()
                .iter()
                .map(|l| {
                    let rg = &l["targetSelectionRange"];
                    (file_of(l["targetUri"].as_str().unwrap_or("")), (rg["start"]["line"].as_u64().unwrap_or(9999), rg["start"]["character"].as_u64().unwrap_or(9999), rg["end"]["character"].as_u64().unwrap_or(9999)))
                })
                .collect();
            if got != vec![(Some(def.0.clone()), def.1)] {
                return Ok(Verdict::fail("definition-elsewhere|multi-file", describe(&format!("definition requested at {}:{}:{} -> {:?}, expected {:?}", f, o.0, o.1 + 1, got, def))));
            }
            // references, with declaration
            let r = client.request("textDocument/references", json!({"textDocument": {"uri": uri_of(f)}, "position": pos, "context": {"includeDeclaration": true}}), t)?;
            let got: BTreeSet<(String, (u64, u64, u64))> = r
                .as_array()
                .cloned()
                .unwrap_or_default()
                .iter()
                .filter_map(|l| {
                    let rg = &l["range"];
                    Some((file_of(l["uri"].as_str()?)?, (rg["start"]["line"].as_u64()?, rg["start"]["character"].as_u64()?, rg["end"]["character"].as_u64()?)))
                })
                .collect();
            if r.as_array().map(|a| a.len()).unwrap_or(0) != got.len() {
                return Ok(Verdict::fail("references-listed-more-than-once|multi-file", describe(&format!("references requested at {}:{}:{}: {}", f, o.0, o.1 + 1, r))));
            }
            // highlights: the occurrences in this document
            let r = client.request("textDocument/documentHighlight", json!({"textDocument": {"uri": uri_of(f)}, "position": pos}), t)?;
            let hl: BTreeSet<(u64, u64, u64)> = r
                .as_array()
                .cloned()
                .unwrap_or_default()
                .iter()
                .filter_map(|l| {
                    let rg = &l["range"];
                    if rg["start"]["line"] != rg["end"]["line"] {
                        return Some((rg["start"]["line"].as_u64()?, 9999, rg["end"]["line"].as_u64()?));
                    }
                    Some((rg["start"]["line"].as_u64()?, rg["start"]["character"].as_u64()?, rg["end"]["character"].as_u64()?))
                })
                .collect();
            let want_hl: BTreeSet<(u64, u64, u64)> = occ.iter().filter(|(g, _)| g == f).map(|(_, o)| *o).collect();
            if hl != want_hl {
                return Ok(Verdict::fail("highlights-differ|multi-file", describe(&format!("highlights requested at {}:{}:{}: got {:?}, expected {:?}", f, o.0, o.1 + 1, hl, want_hl))));
            }
            if got != want_all {
                let missing: Vec<_> = want_all.difference(&got).collect();
                let extra: Vec<_> = got.difference(&want_all).collect();
                return Ok(Verdict::fail("references-differ|multi-file", describe(&format!("references requested at {}:{}:{}: missing {:?}, unexpected {:?}", f, o.0, o.1 + 1, missing, extra))));
            }
        }
        Ok(Verdict::Pass)
    })();
    match run {
        Ok(v) => v,
        Err(crate::sut::lsp::LspErr::Timeout) => {
            log.label("inconclusive");
            Verdict::Pass
        }
        Err(crate::sut::lsp::LspErr::Died(st, tail)) => Verdict::fail(format!("server-died|{}", st), describe(&tail)),
        Err(crate::sut::lsp::LspErr::Error(e)) => Verdict::fail("error-response|multi-file", describe(&e.to_string())),
    }
}

pub fn run_check(ctx: &mut Ctx) {
    ctx.rule = "error-free generator programs (shadowed names in nested scopes, dotted and `super` paths, macros with parameters, loops, untaken branches, string interpolation, tests whose bodies, assertions and traces refer to the program's symbols; one case in three rendered with comments between the tokens, a third of those with characters of two UTF-16 code units; positions are sent and expected in UTF-16 code units) that assemble and agree byte-for-byte with the reference layout model (so the model's binding is the one the build used); for every path component of every identifier use: textDocument/definition must return exactly the range of the definition the documented scoping rule binds it to; for every label/constant/variable definition: textDocument/references (with and without declaration) and documentHighlight must return exactly the set of occurrences bound to it. non-trivial = program with >= 3 identifier uses. second campaign: two-file projects (main imports lib with `*`, `* as ns` or a specific list): from every occurrence of a library symbol, in both files, definition must lead to the library and references must list exactly all whole-word occurrences in both files".into();
    if !have_mos() {
        ctx.health(false, "mos binary not built (MOS_BIN)");
        return;
    }
    let n = ctx.tier.pick(12_000, 240_000);
    ctx.campaign_parallel("all-occurrences", n, 16, strategy, prop, to_json);
    let n = ctx.tier.pick(800, 8_000);
    ctx.campaign_parallel("across-files", n, 16, crate::props::c15::multi_strategy, prop_multi, crate::props::c15::multi_to_json);
    let k = ctx.label_count("same-range-in-both-files");
    ctx.health(k > 0, "no case with an occurrence at the same range in both files");
}

pub fn replay(ctx: &mut Ctx, case: &Value) {
    if let Some(m) = case.get("multi") {
        match serde_json::from_value::<crate::props::c15::MultiCase>(m.clone()) {
            Ok(c) => ctx.replay_one(&c, prop_multi, case.clone()),
            Err(e) => ctx.health(false, format!("replay case does not deserialize: {}", e)),
        }
        return;
    }
    let c: Case = match serde_json::from_value(json!({"entropy": case["entropy"]})) {
        Ok(c) => c,
        Err(e) => {
            ctx.health(false, format!("replay case does not deserialize: {}", e));
            return;
        }
    };
    ctx.replay_one(&c, prop, case.clone());
}
