//! C12 — formatting never changes what a program means and never loses comments.
//! C13 — formatting is idempotent. (shared generator; in-process `format`)

use crate::engine::{CaseLog, Ctx, Verdict};
use crate::gen::build::{build, GenCfg};
use crate::gen::trivia::{RandFiller, TriviaCfg};
use crate::sut::core::{assemble, format_file, guarded, parse_project, AsmOptions, Project};
use mos_core::formatting::{Alignment, BracePosition, Casing, FormattingOptions};
use proptest::prelude::*;
use serde::{Deserialize, Serialize};
use serde_json::json;
use std::collections::{BTreeMap, BTreeSet};

#[derive(Clone, Debug, Hash, PartialEq, Eq, Serialize, Deserialize)]
pub struct Opts {
    pub upper_mnemonics: bool,
    pub upper_registers: bool,
    pub brace_newline: bool,
    pub indent: usize,
    pub label_margin: usize,
    pub align_left: bool,
    pub code_margin: usize,
}

impl Opts {
    pub fn default_opts() -> Opts {
        Opts { upper_mnemonics: false, upper_registers: false, brace_newline: false, indent: 4, label_margin: 20, align_left: false, code_margin: 30 }
    }
    pub fn to_mos(&self) -> FormattingOptions {
        let mut o = FormattingOptions::default();
        o.mnemonics.casing = if self.upper_mnemonics { Casing::Uppercase } else { Casing::Lowercase };
        o.mnemonics.register_casing = if self.upper_registers { Casing::Uppercase } else { Casing::Lowercase };
        o.braces.position = if self.brace_newline { BracePosition::NewLine } else { BracePosition::SameLine };
        o.whitespace.indent = self.indent;
        o.whitespace.label_margin = self.label_margin;
        o.whitespace.label_alignment = if self.align_left { Alignment::Left } else { Alignment::Right };
        o.whitespace.code_margin = self.code_margin;
        o
    }
    pub fn to_toml(&self) -> String {
        format!(
            "[formatting]\nmnemonics.casing = '{}'\nmnemonics.register-casing = '{}'\nbraces.position = '{}'\nwhitespace.indent = {}\nwhitespace.label-margin = {}\nwhitespace.label-alignment = '{}'\nwhitespace.code-margin = {}\n",
            if self.upper_mnemonics { "uppercase" } else { "lowercase" },
            if self.upper_registers { "uppercase" } else { "lowercase" },
            if self.brace_newline { "new-line" } else { "same-line" },
            self.indent,
            self.label_margin,
            if self.align_left { "left" } else { "right" },
            self.code_margin
        )
    }
}

#[derive(Clone, Debug, Hash, PartialEq, Eq, Serialize, Deserialize)]
pub struct Case {
    pub entropy: Vec<u32>,
    pub trivia: Vec<u32>,
    pub opts: Opts,
    /// finding features switched on for this case
    pub features: Vec<String>,
}

pub struct Rendered {
    pub project: Project,
    pub features: BTreeSet<String>,
    pub comments: usize,
    pub slots_with_comment: BTreeSet<String>,
    pub placed: Vec<(String, String)>,
}

/// slot ids in which a comment is known to be deleted by the formatter (recorded findings)
/// slot ids in which a comment makes the formatter's output unstable (second run differs; recorded findings)
pub const UNSTABLE_SLOTS: &[&str] = &[];

/// slots in which the formatter is known to delete comments (none anymore: the brace slots were repaired)
pub const LOSSY_SLOTS: &[&str] = &[];

pub fn trivia_cfg(features: &[String]) -> TriviaCfg {
    let has = |f: &str| features.iter().any(|x| x == f);
    // a feature "slot:<id>" switches comments in that (lossy) slot on, and only there
    let slots: Vec<String> = features.iter().filter_map(|f| f.strip_prefix("slot:").map(|s| s.to_string())).collect();
    TriviaCfg {
        vary: 30,
        multiline_block_comment: has("multiline_block_comment"),
        non_ascii: true,
        uppercase_true: true,
        empty_line_comment: has("empty_line_comment"),
        no_comment_slots: LOSSY_SLOTS.iter().chain(UNSTABLE_SLOTS.iter()).filter(|s| !slots.iter().any(|x| x == *s)).map(|s| s.to_string()).collect(),
        only_comment_slots: vec![],
        serial_comments: true,
        config_pairs_same_line: has("config_pairs_on_one_line"),
        comment_before_statement_same_line: has("comment_before_statement_same_line"),
        label_and_instruction_on_one_line: has("label_and_instruction_on_one_line"),
        ..TriviaCfg::clean()
    }
}

pub fn render_case(c: &Case) -> Rendered {
    let mut cfg = GenCfg::full();
    cfg.max_stmts = 40;
    // (feature "source:imports": a project of two files with imports of every form, see c07x)
    let prog = if c.features.iter().any(|f| f == "source:imports") { crate::props::c07x::import_pair(&c.entropy).original } else if c.features.iter().any(|f| f == "source:type-errors") { crate::props::c07x::type_error_program(&c.entropy) } else { build(&c.entropy, &cfg).prog };
    let mut f = RandFiller::new(&c.trivia, trivia_cfg(&c.features));
    let (proj, rs) = prog.render_with(&mut f);
    // which slot ids received a comment
    let mut slots = BTreeSet::new();
    for r in rs.values() {
        for m in &r.marks {
            if let crate::gen::ast::MarkKind::Slot(id) = &m.kind {
                let t = &r.text[m.start..m.end];
                if t.contains("/*") || t.contains("//") {
                    slots.insert(id.clone());
                }
            }
        }
    }
    Rendered { project: proj, features: f.features.clone(), comments: f.comments, slots_with_comment: slots, placed: f.placed.clone() }
}

/// the (possibly nested) block comment that starts at `i`, and the index behind it
fn block_comment_at(b: &[char], mut i: usize) -> (String, usize) {
    let s = i;
    let mut depth = 0;
    while i < b.len() {
        if b[i] == '/' && i + 1 < b.len() && b[i + 1] == '*' {
            depth += 1;
            i += 2;
        } else if b[i] == '*' && i + 1 < b.len() && b[i + 1] == '/' {
            depth -= 1;
            i += 2;
            if depth == 0 {
                break;
            }
        } else {
            i += 1;
        }
    }
    (b[s..i.min(b.len())].iter().collect(), i)
}

/// comments of a text in order (block comments incl. nested ones as one item), strings skipped
pub fn comments_of(text: &str) -> Vec<String> {
    let b: Vec<char> = text.chars().collect();
    let mut out = vec![];
    let mut i = 0;
    while i < b.len() {
        match b[i] {
            '"' => {
                i += 1;
                while i < b.len() && b[i] != '"' && b[i] != '\n' {
                    i += 1;
                    // between the brace of an interpolation and the path there may be comments
                    if b[i - 1] == '{' {
                        loop {
                            while i < b.len() && (b[i] == ' ' || b[i] == '\t') {
                                i += 1;
                            }
                            if i + 1 < b.len() && b[i] == '/' && b[i + 1] == '*' {
                                let (c, next) = block_comment_at(&b, i);
                                out.push(c.split_whitespace().collect::<Vec<_>>().join(" "));
                                i = next;
                            } else {
                                break;
                            }
                        }
                    }
                }
                i += 1;
            }
            '/' if i + 1 < b.len() && b[i + 1] == '/' => {
                let s = i;
                while i < b.len() && b[i] != '\n' && b[i] != '\r' {
                    i += 1;
                }
                out.push(b[s..i].iter().collect::<String>().trim_end().to_string());
            }
            '/' if i + 1 < b.len() && b[i + 1] == '*' => {
                let s = i;
                let mut depth = 0;
                while i < b.len() {
                    if b[i] == '/' && i + 1 < b.len() && b[i + 1] == '*' {
                        depth += 1;
                        i += 2;
                    } else if b[i] == '*' && i + 1 < b.len() && b[i + 1] == '/' {
                        depth -= 1;
                        i += 2;
                        if depth == 0 {
                            break;
                        }
                    } else {
                        i += 1;
                    }
                }
                let c: String = b[s..i.min(b.len())].iter().collect();
                // whitespace inside a comment may be re-indented: compare modulo whitespace runs
                out.push(c.split_whitespace().collect::<Vec<_>>().join(" "));
            }
            _ => i += 1,
        }
    }
    out
}

/// text with comments and whitespace outside of string literals removed, upper-cased: the token sequence
pub fn skeleton(text: &str) -> String {
    let b: Vec<char> = text.chars().collect();
    let mut out = String::new();
    let mut i = 0;
    while i < b.len() {
        match b[i] {
            '"' => {
                out.push('"');
                i += 1;
                while i < b.len() && b[i] != '"' && b[i] != '\n' {
                    out.push(b[i]);
                    i += 1;
                    // whitespace and comments between the brace of an interpolation and the path are trivia, not string content
                    if b[i - 1] == '{' {
                        loop {
                            while i < b.len() && (b[i] == ' ' || b[i] == '\t') {
                                i += 1;
                            }
                            if i + 1 < b.len() && b[i] == '/' && b[i + 1] == '*' {
                                i = block_comment_at(&b, i).1;
                            } else {
                                break;
                            }
                        }
                    }
                }
                if i < b.len() {
                    out.push(b[i]);
                }
                i += 1;
            }
            '/' if i + 1 < b.len() && b[i + 1] == '/' => {
                while i < b.len() && b[i] != '\n' && b[i] != '\r' {
                    i += 1;
                }
            }
            '/' if i + 1 < b.len() && b[i + 1] == '*' => {
                let mut depth = 0;
                while i < b.len() {
                    if b[i] == '/' && i + 1 < b.len() && b[i + 1] == '*' {
                        depth += 1;
                        i += 2;
                    } else if b[i] == '*' && i + 1 < b.len() && b[i + 1] == '/' {
                        depth -= 1;
                        i += 2;
                        if depth == 0 {
                            break;
                        }
                    } else {
                        i += 1;
                    }
                }
            }
            c if c.is_whitespace() => i += 1,
            c => {
                out.extend(c.to_uppercase());
                i += 1;
            }
        }
    }
    out
}

pub struct FormatRun {
    pub once: Project,
    pub twice: Project,
}

fn format_project(p: &Project, opts: FormattingOptions) -> Result<Option<Project>, crate::sut::core::PanicInfo> {
    guarded(|| {
        let (tree, diags) = parse_project(p);
        if !diags.is_empty() {
            return None;
        }
        let tree = tree?;
        let mut out = p.clone();
        for f in p.files.keys() {
            if tree.try_get_file(f.as_str()).is_some() {
                out.files.insert(f.clone(), format_file(tree.clone(), f, opts));
            }
        }
        Some(out)
    })
}

fn asm_summary(p: &Project) -> Result<(Vec<(String, usize, Vec<u8>)>, Vec<String>, bool), crate::sut::core::PanicInfo> {
    guarded(|| {
        let a = assemble(p, AsmOptions::default());
        let segs = a.segments().into_iter().map(|s| (s.name, s.start, s.data)).collect();
        let mut msgs: Vec<String> = a.all_diags().into_iter().map(|d| d.msg).collect();
        msgs.sort();
        (segs, msgs, a.pass_verdict == crate::sut::core::PassVerdict::Ended)
    })
}

fn signature_features(kind: &str, features: &BTreeSet<String>) -> String {
    let mut k = kind.to_string();
    for f in features {
        k = format!("{}|feature={}", k, f);
    }
    k
}

/// returns (verdict for C12, verdict for C13)
pub fn check(c: &Case, log: &mut CaseLog) -> (Verdict, Verdict) {
    let r = render_case(c);
    check_rendered(&r, &c.opts, &c.features, log)
}

pub fn check_rendered(r: &Rendered, case_opts: &Opts, case_features: &[String], log: &mut CaseLog) -> (Verdict, Verdict) {
    let p = &r.project;
    let has_else = p.files.values().any(|t| skeleton(t).contains("}ELSE{"));
    let mut eff = case_opts.clone();
    let mut opt_features: BTreeSet<String> = BTreeSet::new();
    // (`else` with the new-line brace style was the trigger of a finding that has been repaired: part of the clean domain)
    let _ = (has_else, case_features);
    let eff = eff;
    let opt_features = opt_features;
    let opts = eff.to_mos();
    log.label_if(r.comments >= 2, "comments>=2");
    log.label_if(p.files.len() > 1, "multi-file");
    log.label_if(*case_opts != Opts::default_opts(), "non-default-options");
    for s in &r.slots_with_comment {
        log.label(format!("comment-slot:{}", s));
    }
    log.nontrivial = r.comments >= 2;
    let text_all = |p: &Project| p.files.iter().map(|(n, t)| format!("--- {} ---\n{}", n, t)).collect::<Vec<_>>().join("\n");
    let mut relevant: BTreeSet<String> = r.features.iter().filter(|f| matches!(f.as_str(), "multiline_block_comment" | "empty_line_comment" | "config_pairs_on_one_line" | "comment_before_statement_same_line" | "label_and_instruction_on_one_line")).cloned().collect();
    for slot in UNSTABLE_SLOTS.iter().chain(LOSSY_SLOTS.iter()) {
        if r.placed.iter().any(|(s, _)| s == slot) {
            relevant.insert(format!("comment-in-slot:{}", slot));
        }
    }
    relevant.extend(opt_features);

    let once = match format_project(p, opts) {
        Err(pn) => {
            log.label("sut-panic");
            let v = Verdict::fail(signature_features(&format!("format-{}", pn.signature()), &relevant), format!("{}\n{:?}", text_all(p), pn));
            return (v, Verdict::Pass);
        }
        Ok(None) => {
            log.label("input-has-parse-errors");
            return (Verdict::Discard("input does not parse".into()), Verdict::Discard("input does not parse".into()));
        }
        Ok(Some(o)) => o,
    };
    log.label("formatted");
    // ---- C12
    let c12 = (|| {
        // 1. output parses without diagnostics
        let (_, d) = match guarded(|| parse_project(&once)) {
            Ok(x) => x,
            Err(pn) => return Verdict::fail(format!("reparse-{}", pn.signature()), text_all(&once)),
        };
        if !d.is_empty() {
            return Verdict::fail(
                signature_features("formatted-output-does-not-parse", &relevant),
                format!("input:\n{}\noutput:\n{}\ndiagnostics: {:?}", text_all(p), text_all(&once), d),
            );
        }
        for (name, before) in &p.files {
            let after = &once.files[name];
            // 2. same token sequence
            if skeleton(before) != skeleton(after) {
                return Verdict::fail(
                    signature_features("token-sequence-changed", &relevant),
                    format!("file {}\ninput:\n{}\noutput:\n{}\nskeleton in : {}\nskeleton out: {}", name, before, after, skeleton(before), skeleton(after)),
                );
            }
            // 3. every comment, in order
            let (cb, ca) = (comments_of(before), comments_of(after));
            if cb != ca {
                // multiset difference: which comments disappeared
                let mut rest = ca.clone();
                let mut lost: Vec<String> = vec![];
                for c in &cb {
                    match rest.iter().position(|x| x == c) {
                        Some(i) => {
                            rest.remove(i);
                        }
                        None => lost.push(c.clone()),
                    }
                }
                let norm = |s: &str| s.split_whitespace().collect::<Vec<_>>().join(" ");
                let mut lost_slots: BTreeSet<String> = BTreeSet::new();
                for l in &lost {
                    for (slot, text) in &r.placed {
                        if norm(text).trim_end() == l.trim_end() {
                            lost_slots.insert(slot.clone());
                        }
                    }
                }
                let kind = if !lost.is_empty() {
                    format!("comment-lost|slot={}", lost_slots.iter().next().cloned().unwrap_or("?".into()))
                } else {
                    "comments-reordered-or-added".to_string()
                };
                let rel2: BTreeSet<String> = relevant.iter().filter(|f| !f.starts_with("comment-in-slot:")).cloned().collect();
                return Verdict::fail(
                    signature_features(&kind, &rel2),
                    format!("file {}\ninput:\n{}\noutput:\n{}\nlost: {:?} (slots {:?})\ncomments in : {:?}\ncomments out: {:?}", name, before, after, lost, lost_slots, cb, ca),
                );
            }
        }
        // 4. same bytes and diagnostics
        let (a, b) = match (asm_summary(p), asm_summary(&once)) {
            (Ok(a), Ok(b)) => (a, b),
            _ => return Verdict::Pass, // crashes are C06's business
        };
        if a.2 && b.2 && (a.0 != b.0 || a.1 != b.1) {
            return Verdict::fail(
                signature_features("assembles-differently", &relevant),
                format!("input:\n{}\noutput:\n{}\nbefore: {:02x?} {:?}\nafter : {:02x?} {:?}", text_all(p), text_all(&once), a.0, a.1, b.0, b.1),
            );
        }
        Verdict::Pass
    })();
    // ---- C13
    let c13 = match format_project(&once, opts) {
        Err(pn) => Verdict::fail(signature_features(&format!("second-format-{}", pn.signature()), &relevant), text_all(&once)),
        Ok(None) => Verdict::Pass, // reported by C12
        Ok(Some(twice)) => {
            if twice != once {
                let name = once.files.keys().find(|k| once.files[*k] != twice.files[*k]).unwrap();
                let (a, b) = (&once.files[name], &twice.files[name]);
                let line = a.lines().zip(b.lines()).position(|(x, y)| x != y).unwrap_or(a.lines().count().min(b.lines().count()));
                Verdict::fail(
                    signature_features("second-format-differs", &relevant),
                    format!(
                        "options {:?} (effective {:?})\nfile {} first differing line {}\ninput:\n{}\nformat once:\n{}\nformat twice:\n{}",
                        case_opts, eff, name, line + 1, p.files[name], a, b
                    ),
                )
            } else {
                Verdict::Pass
            }
        }
    };
    (c12, c13)
}

pub fn prop12(c: &Case, log: &mut CaseLog) -> Verdict {
    check(c, log).0
}

pub fn prop13(c: &Case, log: &mut CaseLog) -> Verdict {
    let mut l2 = CaseLog::default();
    let (v12, v13) = check(c, &mut l2);
    log.labels = l2.labels;
    log.nontrivial = l2.nontrivial;
    if let Verdict::Discard(w) = v12 {
        return Verdict::Discard(w);
    }
    v13
}

/// `mos format` on a project on disk: every file is rewritten with the formatter's text for it, or - when a file has a
/// parse error - nothing is touched and the exit status says so. Run from the project directory or from a sub-directory.
pub fn prop_cli(c: &Case, log: &mut CaseLog) -> Verdict {
    use crate::sut::cli::{run_mos, Scratch};
    let r = render_case(c);
    let mut project = r.project.clone();
    let mut e = crate::gen::build::Ent::new(&c.trivia);
    let broken = e.chance(1, 3);
    if broken {
        let names: Vec<String> = project.files.keys().cloned().collect();
        let victim = names[e.below(names.len())].clone();
        let bad = *e.pick(&["lda #\n", ".byte\n", "{ nop\n", "lda ($10\n", "zzbad bar\n"]);
        let t = project.files.get_mut(&victim).unwrap();
        if !t.ends_with('\n') {
            t.push('\n');
        }
        t.push_str(bad);
    }
    let from_sub = e.chance(1, 3);
    let sc = Scratch::new("c12");
    let toml = format!("[build]\nentry = \"main.asm\"\n{}", c.opts.to_toml());
    sc.write_project(&project, &toml);
    sc.write("sub/keep.txt", b"x");
    let before = sc.snapshot(".");
    let dir = if from_sub { sc.dir.join("sub") } else { sc.dir.clone() };
    let run = run_mos(&dir, &["--no-color", "-e", "Short", "format"]);
    if run.timed_out {
        return Verdict::Discard("mos killed by the watchdog".into());
    }
    let after = sc.snapshot(".");
    log.label("cli");
    log.label(if broken { "cli:parse-error" } else { "cli:clean" });
    log.label_if(from_sub, "cli:from-sub-directory");
    log.nontrivial = project.files.len() >= 2;
    let text = || project.files.iter().map(|(n, t)| format!("--- {} ---\n{}", n, t)).collect::<Vec<_>>().join("\n");
    let contents = |m: &BTreeMap<String, (Vec<u8>, u128)>| -> BTreeMap<String, Vec<u8>> { m.iter().map(|(k, v)| (k.clone(), v.0.clone())).collect() };
    if broken {
        if run.code == Some(0) {
            return Verdict::fail("cli-format-succeeds-on-parse-error", format!("{}\nstdout: {}", text(), run.stdout));
        }
        if contents(&before) != contents(&after) {
            let changed: Vec<&String> = after.keys().filter(|k| before.get(*k).map(|v| &v.0) != after.get(*k).map(|v| &v.0)).collect();
            return Verdict::fail("cli-format-touches-files-on-parse-error", format!("{}\nchanged: {:?}\nstdout: {}", text(), changed, run.stdout));
        }
        return Verdict::Pass;
    }
    let expected = match format_project(&project, c.opts.to_mos()) {
        Ok(Some(p)) => p,
        _ => return Verdict::Discard("not formattable in-process".into()),
    };
    if run.code != Some(0) {
        return Verdict::fail(if from_sub { "cli-format-fails|from-sub-directory" } else { "cli-format-fails" }, format!("{}\nexit {:?}\nstdout: {}\nstderr: {}", text(), run.code, run.stdout, run.stderr));
    }
    let got = contents(&after);
    for (name, want) in &expected.files {
        let have = got.get(name).map(|v| String::from_utf8_lossy(v).to_string());
        if have.as_deref() != Some(want.as_str()) {
            return Verdict::fail(if from_sub { "cli-format-differs-from-formatter|from-sub-directory" } else { "cli-format-differs-from-formatter" }, format!("{}\nfile {}\nexpected:\n{}\nfound:\n{:?}", text(), name, want, have));
        }
    }
    // nothing else is created or changed
    for (name, v) in &got {
        if !expected.files.contains_key(name) && before.get(name).map(|b| &b.0) != Some(v) {
            return Verdict::fail("cli-format-touches-other-files", format!("{}\nfile {}", text(), name));
        }
    }
    Verdict::Pass
}

pub fn to_json(c: &Case) -> serde_json::Value {
    let r = render_case(c);
    json!({"entropy": c.entropy, "trivia": c.trivia, "opts": c.opts, "features": c.features, "files": r.project.files,
        "text_features": r.features, "placed": r.placed})
}

pub fn opts_strategy() -> impl Strategy<Value = Opts> {
    prop_oneof![
        Just(Opts::default_opts()),
        (any::<bool>(), any::<bool>(), any::<bool>(), 0usize..=8, 0usize..=40, any::<bool>(), 0usize..=60).prop_map(|(a, b, c, indent, lm, al, cm)| Opts {
            upper_mnemonics: a,
            upper_registers: b,
            brace_newline: c,
            indent,
            label_margin: lm,
            align_left: al,
            code_margin: cm
        }),
    ]
}

pub fn strategy(features: Vec<String>) -> impl Strategy<Value = Case> {
    (proptest::collection::vec(any::<u32>(), 8..260), proptest::collection::vec(any::<u32>(), 0..200), opts_strategy()).prop_map(move |(entropy, trivia, opts)| Case { entropy, trivia, opts, features: features.clone() })
}

pub const RULE: &str = "error-free generator programs (whole statement grammar: instructions, data, text, labels, scopes, constants, loops, conditionals, macros, segments; and two-file projects with imports of every form, parameter blocks and aliases) rendered with random trivia - block/line/nested/non-ASCII comments in every slot kind the grammar allows, CRLF, case flips - x formatter options (casings, brace position, indent 0-8, label margin 0-40, alignment, code margin 0-60). non-trivial = at least 2 comments; distinct by case hash";

pub fn run_check12(ctx: &mut Ctx) {
    ctx.rule = format!("{}. oracle C12: formatted text parses clean, same token skeleton (whitespace/comments stripped, case folded), same comments in order (modulo whitespace inside block comments), same segment bytes and diagnostic messages; `mos format` in a scratch copy of a two-file project (run from the project directory or a sub-directory): every file holds the formatter's text afterwards, or - with a parse error in one of the files - exit status 1 and every file byte-identical", RULE);
    let n = ctx.tier.pick(14_000, 300_000);
    // (`label: instruction` on one line is part of C12's clean domain; for C13 it is the trigger of a recorded finding)
    ctx.campaign_parallel("clean-domain", n, 16, || strategy(vec!["label_and_instruction_on_one_line".to_string(), "comment_before_statement_same_line".to_string(), "config_pairs_on_one_line".to_string()]), prop12, to_json);
    let n3 = ctx.tier.pick(5000, 80_000);
    ctx.campaign_parallel("imports", n3, 16, || strategy(vec!["source:imports".to_string(), "label_and_instruction_on_one_line".to_string(), "comment_before_statement_same_line".to_string()]), prop12, to_json);
    // programs whose diagnostics quote an expression: formatting must not change what they say
    let n5 = ctx.tier.pick(3000, 40_000);
    ctx.campaign_parallel("type-errors", n5, 16, || strategy(vec!["source:type-errors".to_string(), "label_and_instruction_on_one_line".to_string()]), prop12, to_json);
    if crate::sut::cli::have_mos() {
        let n4 = ctx.tier.pick(1600, 20_000);
        ctx.campaign_parallel("cli", n4, 16, || strategy(vec!["source:imports".to_string(), "cli".to_string(), "label_and_instruction_on_one_line".to_string()]), prop_cli, to_json);
    } else {
        ctx.health(false, "mos binary not built (MOS_BIN)");
    }
    for f in ["multiline_block_comment", "empty_line_comment"] {
        let n2 = ctx.tier.pick(1500, 30_000);
        ctx.campaign_parallel(&format!("feature:{}", f), n2, 8, || strategy(vec![f.to_string()]), prop12, to_json);
    }
    for slot in LOSSY_SLOTS {
        let n2 = ctx.tier.pick(800, 10_000);
        ctx.campaign_parallel(&format!("feature:slot:{}", slot), n2, 4, || strategy(vec![format!("slot:{}", slot)]), prop12, to_json);
    }
    ctx.excluded.insert("comments in the slots where the formatter is known to delete them (confirmed separately)".into(), LOSSY_SLOTS.len() as u64);
    health(ctx);
}

pub fn run_check13(ctx: &mut Ctx) {
    ctx.rule = format!("{}. oracle C13: format(format(p)) == format(p) with the same options, every file", RULE);
    let n = ctx.tier.pick(14_000, 300_000);
    // (`label: instruction` and two config pairs on one line were triggers of findings that have been repaired: part of
    // the clean domain, and so is, since dc4b6fe, a comment in front of a statement on the same line.)
    ctx.campaign_parallel("clean-domain", n, 16, || strategy(vec!["label_and_instruction_on_one_line".to_string(), "config_pairs_on_one_line".to_string(), "comment_before_statement_same_line".to_string()]), prop13, to_json);
    let n3 = ctx.tier.pick(5000, 80_000);
    ctx.campaign_parallel("imports", n3, 16, || strategy(vec!["source:imports".to_string(), "label_and_instruction_on_one_line".to_string()]), prop13, to_json);
    for f in ["multiline_block_comment", "empty_line_comment", "comment_before_statement_same_line"] {
        let n2 = ctx.tier.pick(1500, 30_000);
        ctx.campaign_parallel(&format!("feature:{}", f), n2, 8, || strategy(vec![f.to_string()]), prop13, to_json);
    }
    for slot in UNSTABLE_SLOTS.iter().chain(LOSSY_SLOTS.iter()) {
        let n2 = ctx.tier.pick(800, 10_000);
        ctx.campaign_parallel(&format!("feature:slot:{}", slot), n2, 4, || strategy(vec![format!("slot:{}", slot)]), prop13, to_json);
    }
    ctx.excluded.insert("comments in slots / option combinations that are triggers of recorded findings (confirmed separately)".into(), (UNSTABLE_SLOTS.len() + LOSSY_SLOTS.len() + 4) as u64);
    health(ctx);
}

fn health(ctx: &mut Ctx) {
    let total = ctx.evaluations.max(1);
    let k = ctx.label_count("comments>=2");
    ctx.health(k * 100 / total >= 50, format!("cases with >= 2 comments: {}%", k * 100 / total));
    let f = ctx.label_count("formatted");
    ctx.health(f * 100 / total >= 80, format!("formatted: {}%", f * 100 / total));
}

pub fn replay(ctx: &mut Ctx, case: &serde_json::Value) {
    if let Some(files) = case.get("raw_files") {
        // stored text (independent of later generator changes)
        let files: std::collections::BTreeMap<String, String> = serde_json::from_value(files.clone()).unwrap();
        let opts: Opts = serde_json::from_value(case["opts"].clone()).unwrap_or(Opts::default_opts());
        let features: Vec<String> = serde_json::from_value(case["features"].clone()).unwrap_or_default();
        let text_features: BTreeSet<String> = serde_json::from_value(case["text_features"].clone()).unwrap_or_default();
        let placed: Vec<(String, String)> = serde_json::from_value(case["placed"].clone()).unwrap_or_default();
        let comments = files.values().map(|t| comments_of(t).len()).sum();
        let r = Rendered { project: Project { files, entry: "main.asm".into() }, features: text_features, comments, slots_with_comment: BTreeSet::new(), placed };
        let which = ctx.id.clone();
        ctx.replay_one(
            &r.project.clone(),
            |_p, log| {
                let (a, b) = check_rendered(&r, &opts, &features, log);
                if which == "C12" {
                    a
                } else {
                    b
                }
            },
            case.clone(),
        );
        return;
    }
    let c: Case = match serde_json::from_value(json!({"entropy": case["entropy"], "trivia": case["trivia"], "opts": case["opts"], "features": case["features"]})) {
        Ok(c) => c,
        Err(e) => {
            ctx.health(false, format!("replay case does not deserialize: {}", e));
            return;
        }
    };
    if ctx.id == "C12" && c.features.iter().any(|f| f == "cli") {
        ctx.replay_one(&c, prop_cli, case.clone());
    } else if ctx.id == "C12" {
        ctx.replay_one(&c, prop12, case.clone());
    } else {
        ctx.replay_one(&c, prop13, case.clone());
    }
}
