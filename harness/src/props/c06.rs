//! C06 — every input terminates cleanly: no crash, no hang, output or located diagnostics.

use crate::engine::{CaseLog, Ctx, Verdict};
use crate::gen::build::{build, Ent, GenCfg};
use crate::gen::trivia::{RandFiller, TriviaCfg};
use crate::sut::core::{codegen_observed, guarded, parse_project, AsmOptions, PassVerdict, Project};
use crate::sut::sandbox::{worker_loop, Worker, WorkerResult};
use proptest::prelude::*;
use serde::{Deserialize, Serialize};
use serde_json::{json, Value};
use std::cell::RefCell;
use std::collections::BTreeMap;
use std::time::Duration;

#[derive(Clone, Copy, Debug, Hash, PartialEq, Eq, Serialize, Deserialize)]
pub enum Shape {
    Grammar,
    Mutated,
    Extreme,
    ImportGraph,
    SegmentDeps,
    NestedLoops,
    Names,
    Nesting,
    Fragments,
    /// an instruction whose operand is within a few bytes of what it can encode, with a forward reference
    Borderline,
}

#[derive(Clone, Debug, Hash, PartialEq, Eq, Serialize, Deserialize)]
pub struct Case {
    pub shape: Shape,
    pub entropy: Vec<u32>,
    pub trivia: Vec<u32>,
    pub mutations: Vec<(u32, u32, u32)>,
}

pub const EXTREME: &[&str] = &[
    "0", "1", "-1", "2", "255", "256", "65535", "65536", "-65536", "2147483647", "2147483648", "4294967296",
    "9223372036854775807", "-9223372036854775807", "$7fffffffffffffff", "$8000000000000000", "$ffffffffffffffff",
    "18446744073709551616", "99999999999999999999999999999999", "$10000000000000000000",
    "%1111111111111111111111111111111111111111111111111111111111111111111111", "-9223372036854775808", "63", "64", "31", "32",
    "TRUE", "False", "true",
    // the most negative value has no literal of its own (the sign is an operator): it only arises from arithmetic
    "(-9223372036854775807 - 1)", "(0 - 9223372036854775807 - 1)", "($7fffffffffffffff + 1)", "(1 << 63)", "(-1 << 63)",
];

/// values that would make `.loop`/`.align` run (practically) for ever or allocate without bound
fn too_big_for_count(s: &str) -> bool {
    let t = s.trim_start_matches('-');
    let v: Option<i128> = if let Some(h) = t.strip_prefix('$') {
        i128::from_str_radix(h, 16).ok()
    } else if let Some(b) = t.strip_prefix('%') {
        i128::from_str_radix(b, 2).ok()
    } else {
        t.parse::<i128>().ok()
    };
    match v {
        // literals that do not fit 64 bits are rejected (or crash) before they are ever used as a count
        Some(v) => v > 70_000 && v <= i64::MAX as i128 && !s.starts_with('-'),
        None => false,
    }
}

fn extreme(e: &mut Ent, for_count: bool, excluded: &mut u64) -> String {
    for _ in 0..8 {
        let s = *e.pick(EXTREME);
        // (counts that would take for ever are part of the domain: they have to be refused)
        let _ = (for_count, &excluded);
        return s.to_string();
    }
    "3".to_string()
}

pub fn project_of(c: &Case) -> (Project, u64) {
    let mut excluded = 0u64;
    let mut e = Ent::new(&c.entropy);
    let p = match c.shape {
        Shape::Grammar | Shape::Mutated => {
            let b = build(&c.entropy, &GenCfg { defs_in_loop: true, shadow_forward_ref: true, ..GenCfg::full() });
            let mut f = RandFiller::new(&c.trivia, TriviaCfg { multiline_block_comment: true, non_ascii: true, uppercase_true: true, empty_line_comment: true, ..TriviaCfg::clean() });
            let (proj, _) = b.prog.render_with(&mut f);
            proj
        }
        Shape::Fragments => {
            let cc = crate::props::c05::Case { source: crate::props::c05::Source::Fragments, entropy: c.entropy.clone(), trivia: vec![], mutations: vec![], allow_stray: true };
            Project::single(&crate::props::c05::text_of(&cc).0)
        }
        Shape::Extreme => {
            let mut t = String::new();
            let n = 1 + e.below(5);
            let ops = ["+", "-", "*", "/", "%", "<<", ">>", "^", "==", "<", "&&", "||", ">="];
            for _ in 0..n {
                let a = extreme(&mut e, false, &mut excluded);
                let b = extreme(&mut e, false, &mut excluded);
                let op = *e.pick(&ops[..]);
                let line = match e.below(20) {
                    0 => format!(".align {}", extreme(&mut e, true, &mut excluded)),
                    1 => format!(".loop {} {{ nop }}", extreme(&mut e, true, &mut excluded)),
                    2 => format!("* = {}", a),
                    3 => format!("lda #{} {} {}", a, op, b),
                    4 => format!(".byte {} {} {}", a, op, b),
                    5 => format!(".word {} {} {}", a, op, b),
                    6 => format!(".dword {} {} {}", a, op, b),
                    7 => format!("lda {}", a),
                    8 => format!(".define segment {{ name = \"s{}\" start = {} pc = {} }}\n.segment \"s{}\" {{ nop }}", e.below(3), a, b, e.below(3)),
                    9 => format!(".define bank {{ name = \"b{}\" size = {} fill = {} }}", e.below(3), extreme(&mut e, true, &mut excluded), b),
                    10 => format!(".const c{} = {} {} {}\n.dword c{}", e.below(3), a, op, b, e.below(3)),
                    11 => format!(".byte !{}, -{}", a, b.trim_start_matches('-')),
                    12 => format!("lda #<{}\nbne {}", a, b),
                    13 => format!(".if {} {} {} {{ nop }} else {{ asl }}", a, op, b),
                    14 => format!(".loop {} {{ .byte index {} {} }}", e.below(4), op, a),
                    15 => format!(".if defined(defined(c{})) {{ nop }}\nlda #defined(defined({}))", e.below(3), a),
                    16 => {
                        // strings that double
                        let k = 20 + e.below(30);
                        let mut t = String::from(".const sq0 = \"ab\"\n");
                        for i in 1..=k {
                            t.push_str(&format!(".{} sq{} = sq{} + sq{}\n", if e.chance(1, 2) { "const" } else { "var" }, i, i - 1, i - 1));
                        }
                        t.push_str(&format!(".text sq{}", k));
                        t
                    }
                    17 => format!(".macro never() {{\n    .loop {} {{ }}\n}}\nnop", a),
                    18 => format!(".import super{} from \"libq.asm\"", if e.chance(1, 2) { " as xq" } else { "" }),
                    _ => format!("jmp ({} {} {})", a, op, b),
                };
                t.push_str(&line);
                t.push('\n');
            }
            let mut p = Project::single(&t);
            if t.contains("libq.asm") {
                p.files.insert("libq.asm".into(), "fooq: rts\n".into());
            }
            p
        }
        Shape::ImportGraph if e.chance(1, 4) => {
            // a ring of imports that does not pass through the entry file, every path in one of its spellings
            let k = 2 + e.below(2);
            let dirs = ["lib/gfx", "lib/snd", "lib/gfx"];
            let ring: Vec<String> = (0..k).map(|i| format!("{}/r{}.asm", dirs[i], i)).collect();
            let spell = |e: &mut Ent, from_dir: Option<&str>, to: &str| -> String {
                let (tdir, tfile) = to.rsplit_once('/').unwrap();
                match from_dir {
                    None => match e.below(3) {
                        0 => format!("./{}", to),
                        // (a spelling with `..` from the root directory)
                        1 => format!("lib/../{}", to),
                        _ => to.to_string(),
                    },
                    Some(d) if d == tdir && e.chance(1, 2) => tfile.to_string(),
                    Some(_) => format!("../{}/{}", tdir.rsplit('/').next().unwrap(), tfile),
                }
            };
            let mut files = BTreeMap::new();
            let first = spell(&mut e, None, &ring[0]);
            files.insert("main.asm".to_string(), format!("nop\n.import * from \"{}\"\n", first));
            for i in 0..k {
                let next = &ring[(i + 1) % k];
                // (the last one closes the ring, or not)
                let imp = if i + 1 == k && e.chance(1, 4) { String::new() } else { format!(".import * from \"{}\"\n", spell(&mut e, ring[i].rsplit_once('/').map(|x| x.0), next)) };
                files.insert(ring[i].clone(), format!("ring{}: rts\n{}", i, imp));
            }
            Project { files, entry: "main.asm".into() }
        }
        Shape::ImportGraph => {
            let nfiles = 1 + e.below(4);
            let nfiles = nfiles + e.below(2);
            let names: Vec<String> = (0..nfiles).map(|i| match i {
                0 => "main.asm".to_string(),
                2 => "sub/f2.asm".to_string(),
                3 => if e.chance(1, 2) { "oth/f3.asm".to_string() } else { "f3.asm".to_string() },
                4 => "sub/f4.asm".to_string(),
                _ => format!("f{}.asm", i),
            }).collect();
            let mut files = BTreeMap::new();
            for (i, name) in names.iter().enumerate() {
                let mut t = String::new();
                t.push_str(&format!("lab{}: nop\n.const kon{} = {}\n", i, i, i + 1));
                let nimp = e.below(3);
                for _ in 0..nimp {
                    let target = match e.below(8) {
                        0 => "nope.asm".to_string(),
                        1 => name.rsplit('/').next().unwrap().to_string(), // self (relative to own dir)
                        _ => {
                            let k = e.below(nfiles);
                            // path relative to the importing file's directory
                            let tn = &names[k];
                            let own_dir = name.rsplit_once('/').map(|(d, _)| d);
                            let (tdir, tfile) = match tn.rsplit_once('/') {
                                Some((d, f)) => (Some(d), f),
                                None => (None, tn.as_str()),
                            };
                            // one of the equivalent spellings of the path from the importing file's directory
                            match (own_dir, tdir) {
                                (None, None) => match e.below(4) {
                                    0 => format!("./{}", tfile),
                                    1 => format!("sub/../{}", tfile),
                                    _ => tfile.to_string(),
                                },
                                (None, Some(d)) => if e.chance(1, 4) { format!("./{}/{}", d, tfile) } else { format!("{}/{}", d, tfile) },
                                (Some(_), None) => format!("../{}", tfile),
                                (Some(o), Some(d)) if o == d => match e.below(3) {
                                    0 => format!("../{}/{}", d, tfile),
                                    _ => tfile.to_string(),
                                },
                                (Some(_), Some(d)) => format!("../{}/{}", d, tfile),
                            }
                        }
                    };
                    let k = e.below(nfiles);
                    let stmt = match e.below(5) {
                        0 => format!(".import * from \"{}\"", target),
                        1 => format!(".import * as ns{} from \"{}\"", e.below(3), target),
                        2 => format!(".import lab{} from \"{}\"", k, target),
                        3 => format!(".import lab{} as other{}, kon{} from \"{}\" {{ .const par = {} }}", k, e.below(3), k, target, e.below(9)),
                        _ => format!("{{ .import * from \"{}\" }}", target),
                    };
                    t.push_str(&stmt);
                    t.push('\n');
                }
                if e.chance(1, 2) {
                    t.push_str(&format!("lda lab{}\n.byte kon{}\n", e.below(nfiles), e.below(nfiles)));
                }
                files.insert(name.clone(), t);
            }
            Project { files, entry: "main.asm".into() }
        }
        Shape::SegmentDeps => {
            let n = 2 + e.below(2);
            let names = ["a", "b", "c"];
            let mut t = String::new();
            for i in 0..n {
                let dep = names[e.below(n)];
                let what = if e.chance(1, 2) { "end" } else { "start" };
                let plus = if e.chance(1, 2) { format!(" + {}", e.below(4)) } else { String::new() };
                let start = if e.chance(1, 4) { format!("${:x}", 0x1000 * (i + 1)) } else { format!("segments.{}.{}{}", dep, what, plus) };
                t.push_str(&format!(".define segment {{ name = \"{}\" start = {} }}\n", names[i], start));
            }
            for i in 0..n {
                let body = match e.below(4) {
                    0 => "nop".to_string(),
                    1 => format!(".byte 1, 2, 3\nl{}: jmp l{}", i, i),
                    2 => format!("lda segments.{}.end", names[e.below(n)]),
                    _ => format!(".loop {} {{ nop }}", e.below(5)),
                };
                t.push_str(&format!(".segment \"{}\" {{ {} }}\n", names[i], body.replace('\n', "\n    ")));
            }
            Project::single(&t)
        }
        Shape::Borderline => {
            let n = 122 + e.below(11);
            let pre = *e.pick(&["", "dey\n.align 4\n", "lda later\n", ".align 8\nearly2:\n", "asl wc\n", ".byte 0, 0\n"][..]);
            let k = 122 + e.below(10);
            let probe = match e.below(6) {
                0 => "bne later".to_string(),
                1 => "beq later\nbne later".to_string(),
                2 => format!("ldx #later - early + {}", k),
                3 => format!("lda #later - early + {}\nbne later", k),
                4 => format!(".loop later - early - {} {{ nop }}", k),
                _ => format!("bne later\n.align later - early - {}", 100 + e.below(40)),
            };
            let post = *e.pick(&["", "bmi early\n", ".const wc = $f0 + 4\nasl wc\n", "jmp early\n", "bvs early\n.const wc = 7\n"][..]);
            Project::single(&format!("early:\n{}{}\n.loop {} {{ nop }}\nlater:\n{}rts\n", pre, probe, n, post))
        }
        Shape::NestedLoops => {
            let a = 1 + e.below(14);
            let b = 1 + e.below(14);
            let extra = e.below(6);
            let fwd = e.chance(1, 2);
            let inner = *e.pick(&["nop", "lda later", "lda #0", ".byte 1", "inc $10"][..]);
            let pad = format!(".loop {} {{ .loop {} {{ {} }} }}\n.loop {} {{ nop }}\n", a, b, inner, extra);
            let t = if fwd {
                format!("bne later\n{}later: nop\n", pad)
            } else {
                format!("early: nop\n{}bne early\nlater: nop\n", pad)
            };
            Project::single(&t)
        }
        Shape::Names => {
            let hostile = ["a.b", "", "default", "segments", "super", "-", "+", "index", "$x", "x y", "1abc", "é", "cpu", "lda", "a\tb", "{q}"];
            let mut t = String::new();
            for _ in 0..1 + e.below(3) {
                let n = *e.pick(&hostile[..]);
                let ident = |e: &mut Ent| -> &'static str { *e.pick(&["segments", "default", "start", "end", "index", "cpu", "a", "x", "flags", "carry", "sp", "TEST", "ram", "defined", "s0", "test", "q"][..]) };
                let line = match e.below(14) {
                    13 => format!("segments: {{\n {}: {{\n  {}: nop\n }}\n}}", *e.pick(&["default", "s0", "q"][..]), *e.pick(&["start", "end", "x"][..])),
                    8 => {
                        // nested scopes whose path may coincide with a symbol the assembler generates itself
                        let (a, b, c2) = (ident(&mut e), ident(&mut e), ident(&mut e));
                        format!("{}: {{\n {}: {{\n  {}: nop\n }}\n}}", a, b, c2)
                    }
                    9 => format!(".const {} = 1\n.var {} = 2\nlda #{}", ident(&mut e), ident(&mut e), ident(&mut e)),
                    10 => format!("{}: {{ .const {} = 3 }}\nlda {}.{}", ident(&mut e), ident(&mut e), ident(&mut e), ident(&mut e)),
                    11 => format!(".loop 2 {{ {}: nop }}\n.test \"t\" {{ {}: nop\n.assert {}.{} == 0\nbrk }}", ident(&mut e), ident(&mut e), ident(&mut e), ident(&mut e)),
                    12 => format!(".macro {}({}) {{ lda #{} }}\n{}(1)", ident(&mut e), ident(&mut e), ident(&mut e), ident(&mut e)),
                    0 => format!(".define segment {{ name = \"{}\" start = $1000 }}", n),
                    1 => format!(".define bank {{ name = \"{}\" }}", n),
                    2 => format!(".segment \"{}\" {{ nop }}", n),
                    3 => format!(".define segment {{ name = \"ok\" bank = \"{}\" }}", n),
                    4 => format!(".test \"{}\" {{ brk }}", n),
                    5 => format!(".import * as {} from \"main.asm\"", if n.is_empty() { "q" } else { n }),
                    6 => format!(".macro {}() {{ nop }}\n{}()", if n.is_empty() { "q" } else { n }, if n.is_empty() { "q" } else { n }),
                    _ => format!(".define bank {{ name = \"bk\" filename = \"{}\" }}", n),
                };
                t.push_str(&line);
                t.push('\n');
            }
            t.push_str("nop\n");
            Project::single(&t)
        }
        Shape::Nesting => {
            // any depth: up to 64 levels are accepted, beyond that the input has to be rejected (not: die of it)
            let mut d = 1 + e.below(64);
            let deep = e.chance(1, 3);
            if deep {
                d = *e.pick(&[64usize, 65, 66, 100, 128, 129, 300, 500, 1000, 3000, 6000][..]);
            }
            let (open, close) = *e.pick(&[("{ ", " }"), ("lda #(", ")"), (".if 1 { ", " }"), ("q: { ", " }"), (".loop 1 { ", " }"), ("/* ", " */"), ("{\n", "}\n"), (".if 0 { nop } else { ", " }"), (".segment \"default\" { ", " }")][..]);
            let mut t = String::new();
            if e.chance(1, 5) {
                // nesting that only exists while assembling: a macro that invokes itself (directly, or through a second
                // macro) from inside `k` blocks, so that every level of the recursion adds k levels of blocks - the
                // text itself is shallow. Accepted up to the documented limits, rejected beyond; never a dead process.
                let k = *e.pick(&[0usize, 1, 2, 3, 7, 20, 40, 60][..]);
                let (o, cl) = *e.pick(&[("{ ", " }"), (".if 1 { ", " }"), ("q: { ", " }"), (".loop 1 { ", " }"), (".if 0 { nop } else { ", " }"), (".segment \"default\" { ", " }")][..]);
                let wrap = |body: &str| format!("{}{}{}", o.repeat(k), body, cl.repeat(k));
                t = match e.below(4) {
                    0 => format!(".macro m() {{ {} }}\nm()", wrap("nop\nm()\n")),
                    1 => format!(".macro a() {{ {} }}\n.macro b() {{ {} }}\na()", wrap("b()\n"), wrap("nop\na()\n")),
                    // the recursion ends by itself after `n` levels (n * k levels of blocks): accepted or rejected, never a crash
                    2 => {
                        let n = *e.pick(&[1usize, 2, 3, 10, 30, 63, 64, 65][..]);
                        format!(".macro m(n) {{ {} }}\nm({})", wrap(".if n > 0 { m(n - 1) }\nnop\n"), n)
                    }
                    // never invoked: only the analysis mode of the language server enters it
                    _ => format!(".macro m() {{ {} }}\nnop", wrap("nop\nm()\n")),
                };
            } else if deep && e.chance(1, 3) {
                // one expression: a long sum, calls in calls, parentheses in a sum in parentheses, a configuration in a configuration
                let n = d * *e.pick(&[1usize, 1, 10, 40][..]);
                t = match e.below(5) {
                    0 => format!(".word {}", vec!["1"; n].join(" + ")),
                    1 => format!("lda #{}x{}", "defined(".repeat(d), ")".repeat(d)),
                    2 => format!(".byte {}1{}", "(1 * ".repeat(d), ")".repeat(d)),
                    3 => format!(".define segment {}1{}", "{ a = ".repeat(d), " }".repeat(d)),
                    _ => format!(".const k = {}\nlda #{}k{}", vec!["k2"; n.min(20000)].join(" - "), "(".repeat(d.min(60)), ")".repeat(d.min(60))),
                };
            } else if open == "lda #(" {
                t.push_str("lda #");
                for _ in 0..d {
                    t.push('(');
                }
                t.push('1');
                for _ in 0..d {
                    t.push(')');
                }
            } else {
                for _ in 0..d {
                    t.push_str(open);
                }
                t.push_str("nop");
                for _ in 0..d {
                    t.push_str(close);
                }
            }
            t.push('\n');
            Project::single(&t)
        }
    };
    // character mutations
    let mut p = p;
    if c.shape == Shape::Mutated || !c.mutations.is_empty() {
        let entry = p.entry.clone();
        let mut text = p.files[&entry].clone();
        text = crate::props::c05::mutate_text(text, &c.mutations, true);
        p.files.insert(entry, text);
    }
    (p, excluded)
}

// ------------------------------------------------------------------ worker side

fn count_defs(p: &Project) -> usize {
    p.files.values().map(|t| t.matches(':').count() + t.matches(".const").count() + t.matches(".var").count() + t.matches(".define").count()).sum()
}

/// Runs the whole pipeline on one project inside the worker process.
pub fn run_pipeline(p: &Project) -> Value {
    let mut stages: Vec<&str> = vec![];
    let bound = 400 + 4 * count_defs(p);
    macro_rules! stage {
        ($name:expr, $body:expr) => {{
            stages.push($name);
            match guarded(|| $body) {
                Ok(v) => v,
                Err(pn) => {
                    return json!({"stages": stages, "panic": {"stage": $name, "sig": pn.signature(), "file": pn.file, "line": pn.line, "msg": pn.msg}});
                }
            }
        }};
    }
    let (tree, parse_diags) = stage!("parse", parse_project(p));
    let mut out = serde_json::Map::new();
    out.insert("parse_diags".into(), json!(parse_diags.len()));
    if parse_diags.iter().any(|d| !d.span_ok) {
        out.insert("bad_span".into(), json!("parse"));
    }
    let tree = match tree {
        Some(t) => t,
        None => {
            out.insert("stages".into(), json!(stages));
            out.insert("no_output_no_diag".into(), json!(parse_diags.is_empty()));
            return Value::Object(out);
        }
    };
    let mut max_passes = 0;
    // build mode (only when the parse is clean, as `mos build` does)
    if parse_diags.is_empty() {
        let t = tree.clone();
        let (ctx, diags, passes, verdict) = stage!("codegen-build", {
            let (ctx, diags, passes, verdict, _) = codegen_observed(t, AsmOptions { max_passes: bound, ..AsmOptions::default() });
            let d = crate::sut::core::conv_diags_pub(&diags, &tree);
            (ctx, d, passes, verdict)
        });
        max_passes = max_passes.max(passes);
        match verdict {
            PassVerdict::Diverged { at_pass } => {
                out.insert("diverged".into(), json!({"stage": "codegen-build", "at_pass": at_pass}));
            }
            PassVerdict::Inconclusive { at_pass } => {
                out.insert("inconclusive".into(), json!({"stage": "codegen-build", "at_pass": at_pass}));
            }
            PassVerdict::Ended => {
                if diags.iter().any(|d| !d.span_ok) {
                    out.insert("bad_span".into(), json!("codegen-build"));
                }
                if ctx.is_none() && diags.is_empty() {
                    out.insert("no_output_no_diag".into(), json!(true));
                }
                if let (Some(ctx), true) = (ctx.as_ref(), diags.is_empty()) {
                    let _ = stage!("merge-segments", {
                        let mut bw = mos_core::io::BinaryWriter {};
                        bw.merge_segments(ctx).map(|b| b.len()).unwrap_or(0)
                    });
                    let _ = stage!("listing", crate::sut::core::listing(ctx, 8).len());
                    let _ = stage!("vice", mos_core::io::to_vice_symbols(ctx.symbols()).len());
                }
            }
        }
        out.insert("build_diags".into(), json!(diags.len()));
        // formatting (as `mos format`: only for a clean parse), every file
        for f in p.files.keys() {
            if tree.try_get_file(f.as_str()).is_some() {
                let t = tree.clone();
                let _ = stage!("format", crate::sut::core::format_file(t, f, Default::default()).len());
            }
        }
    }
    // analysis mode, as the language server: also when parsing had errors
    {
        let t = tree.clone();
        let (ctx, diags, passes, verdict) = stage!("codegen-greedy", {
            let (ctx, diags, passes, verdict, _) = codegen_observed(t, AsmOptions { pc: 0xc000, greedy: true, max_passes: bound, ..AsmOptions::default() });
            let d = crate::sut::core::conv_diags_pub(&diags, &tree);
            (ctx, d, passes, verdict)
        });
        max_passes = max_passes.max(passes);
        match verdict {
            PassVerdict::Diverged { at_pass } => {
                out.entry("diverged").or_insert(json!({"stage": "codegen-greedy", "at_pass": at_pass}));
            }
            PassVerdict::Inconclusive { at_pass } => {
                out.entry("inconclusive").or_insert(json!({"stage": "codegen-greedy", "at_pass": at_pass}));
            }
            PassVerdict::Ended => {
                if diags.iter().any(|d| !d.span_ok) {
                    out.insert("bad_span".into(), json!("codegen-greedy"));
                }
                if ctx.is_none() && diags.is_empty() && parse_diags.is_empty() {
                    out.insert("no_output_no_diag".into(), json!(true));
                }
            }
        }
    }
    out.insert("passes".into(), json!(max_passes));
    out.insert("stages".into(), json!(stages));
    Value::Object(out)
}

/// Inputs of the coverage-guided target (harness/fuzz) that lie inside this check's domain: the same exclusions as
/// the generated campaigns, decided on the raw text (termination of huge `.loop`/`.align`/bank sizes cannot be
/// decided without a clock, and unbounded nesting is unbounded recursion).
pub fn fuzz_domain(text: &str) -> bool {
    if text.len() > 4096 {
        return false;
    }
    let mut depth = 0i32;
    for c in text.chars() {
        match c {
            '{' | '(' | '[' => {
                depth += 1;
                if depth > 48 {
                    return false;
                }
            }
            '}' | ')' | ']' => depth = (depth - 1).max(0),
            _ => {}
        }
    }
    let lower = text.to_lowercase();
    let small_literal_after = |at: usize, max: u64| -> bool {
        let rest = lower[at..].trim_start_matches(|c: char| c == ' ' || c == '\t' || c == '=');
        let digits: String = rest.chars().take_while(|c| c.is_ascii_digit()).collect();
        if digits.is_empty() || digits.len() > 6 {
            return false;
        }
        let after = rest[digits.len()..].chars().next();
        let plain = matches!(after, None | Some(' ') | Some('\t') | Some('\n') | Some('\r') | Some('{') | Some('}') | Some('/'));
        plain && digits.parse::<u64>().map(|v| v <= max).unwrap_or(false)
    };
    let mut loops = 0;
    for (kw, max) in [(".loop", 40u64), (".align", 4096), ("size", 70_000), ("fill", 255)] {
        let mut from = 0;
        while let Some(i) = lower[from..].find(kw) {
            let at = from + i + kw.len();
            if kw == ".loop" {
                loops += 1;
            }
            if !small_literal_after(at, max) {
                return false;
            }
            from = at;
        }
    }
    loops <= 3
}

pub fn worker_main() {
    crate::sut::core::install_panic_hook();
    worker_loop(|v| {
        let p: Project = match serde_json::from_value(v.clone()) {
            Ok(p) => p,
            Err(e) => return json!({"error": e.to_string()}),
        };
        run_pipeline(&p)
    });
}

// ------------------------------------------------------------------ parent side

thread_local! {
    static WORKER: RefCell<Worker> = RefCell::new(Worker::new("C06"));
}

pub fn prop(c: &Case, log: &mut CaseLog) -> Verdict {
    let (p, excluded) = project_of(c);
    log.label(format!("shape:{:?}", c.shape));
    for _ in 0..excluded {
        log.label("excluded:count-above-70000");
    }
    prop_project(&p, c, log)
}

pub fn prop_project(p: &Project, c: &Case, log: &mut CaseLog) -> Verdict {
    let text = || {
        let mut s = String::new();
        for (n, t) in &p.files {
            s.push_str(&format!("--- {} ---\n{}\n", n, t));
        }
        s
    };
    let t0 = std::time::Instant::now();
    let r = WORKER.with(|w| w.borrow_mut().run(&serde_json::to_value(p).unwrap(), Duration::from_secs(30)));
    if std::env::var("MV_TRACE_SLOW").is_ok() && t0.elapsed().as_secs_f64() > 1.0 {
        eprintln!("SLOW {:.1}s shape {:?}\n{}", t0.elapsed().as_secs_f64(), c.shape, text());
    }
    match r {
        WorkerResult::TimedOut => {
            // a wall-clock limit is never a verdict
            log.label("inconclusive");
            log.label("inconclusive:watchdog");
            Verdict::Pass
        }
        WorkerResult::Blocked(w) => Verdict::fail(format!("process-never-ends|deadlock|shape={:?}", c.shape), format!("{}\nno result after 30 s and none is coming: {}", text(), w)),
        WorkerResult::Died(st) => Verdict::fail(format!("process-aborted|{}|shape={:?}", st, c.shape), text()),
        WorkerResult::Ok(v) => {
            if let Some(st) = v.get("stages").and_then(|s| s.as_array()) {
                for s in st {
                    log.label(format!("stage:{}", s.as_str().unwrap_or("")));
                }
            }
            let passes = v.get("passes").and_then(|p| p.as_u64()).unwrap_or(0);
            log.label_if(passes >= 3, "passes>=3");
            log.nontrivial = p.files.len() >= 2 || c.shape == Shape::Extreme || passes >= 3 || !c.mutations.is_empty();
            if let Some(pn) = v.get("panic") {
                let sig = pn["sig"].as_str().unwrap_or("panic|?").to_string();
                return Verdict::fail(sig, format!("{}\nstage {}: panic at {}:{}: {}", text(), pn["stage"], pn["file"], pn["line"], pn["msg"]));
            }
            if let Some(d) = v.get("diverged") {
                return Verdict::fail(format!("pass-loop-never-terminates|shape={:?}", c.shape), format!("{}\nthe pass state digest repeated (first at pass {}) and the loop was still running at the pass bound in {}", text(), d["at_pass"], d["stage"]));
            }
            if v.get("inconclusive").is_some() {
                log.label("inconclusive");
                log.label("inconclusive:pass-bound");
                log.label(format!("inconclusive:pass-bound:{:?}", c.shape));
                if std::env::var("MV_TRACE_SLOW").is_ok() {
                    eprintln!("INCONCLUSIVE {:?}\n{}", v.get("inconclusive"), text());
                }
            }
            if v.get("no_output_no_diag").and_then(|b| b.as_bool()) == Some(true) {
                return Verdict::fail("neither-output-nor-diagnostic", text());
            }
            if let Some(s) = v.get("bad_span") {
                return Verdict::fail(format!("diagnostic-location-outside-project|{}", s), text());
            }
            Verdict::Pass
        }
    }
}

pub fn to_json(c: &Case) -> Value {
    let (p, _) = project_of(c);
    json!({"shape": c.shape, "entropy": c.entropy, "trivia": c.trivia, "mutations": c.mutations, "files": p.files})
}

pub fn strategy(shapes: Vec<Shape>) -> impl Strategy<Value = Case> {
    (
        proptest::sample::select(shapes),
        proptest::collection::vec(any::<u32>(), 2..160),
        proptest::collection::vec(any::<u32>(), 0..60),
        proptest::collection::vec((any::<u32>(), any::<u32>(), any::<u32>()), 0..3),
    )
        .prop_map(|(shape, entropy, trivia, mutations)| {
            let mutations = if shape == Shape::Mutated || shape == Shape::Fragments { mutations } else { vec![] };
            Case { shape, entropy, trivia, mutations }
        })
}

pub fn run_check(ctx: &mut Ctx) {
    ctx.rule = "projects of 10 shapes (grammar programs with hostile trivia; the same with character mutations; fragments of the example sources; extreme integers from a boundary list (up to 2^63 and beyond, nothing excluded) as arguments of .align/.loop/* =/shifts/division/segment and bank options, strings that double, defined() inside defined(), import of `super`; import graphs over <= 4 files incl. self-import, cycles, diamonds, missing files, sub-directories; mutually dependent segments; nested loops with branches at the edge of range; forward branches, immediates, loop counts and alignments whose value is within a few bytes of the limit; hostile names; nesting of blocks, parentheses, calls and configuration maps up to 6000 levels and single expressions of up to 240000 terms, which have to be rejected beyond 64 levels / 512 factors) run through parse -> codegen(build) -> merge/listing/vice -> format -> codegen(greedy analysis) in worker sub-processes. oracle: no panic, no abnormal exit, no repeated pass-state digest (proof of non-termination), no worker whose threads all sleep without an answer (deadlock), binary or diagnostic, diagnostic spans inside project files. non-trivial = >= 2 files, extreme integers, >= 3 passes or mutated; distinct by case hash".into();
    ctx.assumptions.push("pass observer hook digest covers everything that determines the next pass; a watchdog kill or the pass bound is inconclusive, never a violation".into());
    let all = vec![Shape::Grammar, Shape::Mutated, Shape::Extreme, Shape::Extreme, Shape::ImportGraph, Shape::ImportGraph, Shape::SegmentDeps, Shape::NestedLoops, Shape::Names, Shape::Nesting, Shape::Fragments, Shape::Borderline];
    let n = ctx.tier.pick(64_000, 1_600_000);
    let all2 = all.clone();
    ctx.campaign_parallel("all-shapes", n, 16, move || strategy(all2.clone()), prop, to_json);
    let total = ctx.evaluations.max(1);
    for st in ["parse", "codegen-build", "codegen-greedy", "format", "listing"] {
        let k = ctx.label_count(&format!("stage:{}", st));
        ctx.health(k * 100 / total >= 15, format!("stage {} reached by {}% of cases", st, k * 100 / total));
    }
    let inc = ctx.label_count("inconclusive");
    ctx.health(inc * 100 / total < 20, format!("{}% inconclusive", inc * 100 / total));
    // a case that the watchdog had to end is no verdict, but it is not nothing either: the check is then inconclusive
    let wd = ctx.label_count("inconclusive:watchdog");
    ctx.health(wd == 0, format!("{} case(s) were still being computed after 30 s and were ended by the watchdog (inconclusive, not a violation)", wd));
}

pub fn replay(ctx: &mut Ctx, case: &Value) {
    if let Some(rp) = case.get("raw_project") {
        let p: Project = serde_json::from_value(rp.clone()).unwrap();
        let c = Case { shape: Shape::Fragments, entropy: vec![], trivia: vec![], mutations: vec![] };
        ctx.replay_one(&p, |p, log| prop_project(p, &c, log), case.clone());
        return;
    }
    let c: Case = match serde_json::from_value(json!({"shape": case["shape"], "entropy": case["entropy"], "trivia": case["trivia"], "mutations": case["mutations"]})) {
        Ok(c) => c,
        Err(e) => {
            ctx.health(false, format!("replay case does not deserialize: {}", e));
            return;
        }
    };
    ctx.replay_one(&c, prop, case.clone());
}
