//! C10 — builds are reproducible.

use crate::engine::{hash_of, CaseLog, Ctx, Verdict};
use crate::gen::build::Ent;
use crate::sut::cli::{have_mos, run_mos, Scratch};
use crate::sut::core::{assemble, guarded, listing, AsmOptions, Project};
use proptest::prelude::*;
use serde::{Deserialize, Serialize};
use serde_json::json;
use std::collections::BTreeMap;

#[derive(Clone, Debug, Hash, PartialEq, Eq, Serialize, Deserialize)]
pub struct Case {
    pub entropy: Vec<u32>,
    pub cli: bool,
    /// finding features
    pub same_stem: bool,
    pub repeated_undefined: bool,
    pub clashing_imports: bool,
}

pub struct Built {
    pub project: Project,
    pub undefined_uses: usize,
    pub imports: usize,
    pub valid_by_construction: bool,
    pub same_stem: bool,
    pub clashing: bool,
}

pub fn build(c: &Case) -> Built {
    let mut e = Ent::new(&c.entropy);
    let nlib = 1 + e.below(3);
    let mut names: Vec<String> = (0..nlib).map(|i| format!("lib{}.asm", i)).collect();
    let mut same_stem = false;
    if c.same_stem && nlib >= 2 {
        // sources whose listings would get the same name unless the naming really tells them apart
        let (a, b) = *e.pick(&[("a/x.asm", "b/x.asm"), ("main.inc", "lib1.asm"), ("lib/util.asm", "lib_util.asm"), ("gfx/c64/spr.asm", "gfx_c64/spr.asm"), ("a/x.asm", "a/x.inc")]);
        names[0] = a.into();
        names[1] = b.into();
        if nlib >= 3 && (a, b) == ("lib/util.asm", "lib_util.asm") {
            names[2] = "app/util.asm".into();
        }
        same_stem = true;
    }
    let mut files = BTreeMap::new();
    let mut undefined_uses = 0;
    let undef_names = ["nodefa", "nodefb"];
    let mut valid = true;
    for (i, n) in names.iter().enumerate() {
        let mut t = String::new();
        let k = 1 + e.below(4);
        for j in 0..k {
            t.push_str(&format!("lab{}x{}: {}\n", i, j, e.pick(&["nop", "lda #1", "inx", ".byte 1, 2", "sta $d020"][..])));
        }
        t.push_str(&format!(".const kon{} = {}\n", i, 10 + i));
        if c.repeated_undefined && e.chance(1, 2) {
            let u = *e.pick(&undef_names[..]);
            let m = 1 + e.below(3);
            for _ in 0..m {
                t.push_str(&format!("lda {}\n", u));
                undefined_uses += 1;
            }
            valid = false;
        }
        files.insert(n.clone(), t);
    }
    let mut main = String::new();
    main.push_str("start: ldx #0\n");
    let mut imports = 0;
    let mut clashing = false;
    for (i, n) in names.iter().enumerate() {
        match e.below(4) {
            0 => main.push_str(&format!(".import * from \"{}\"\n", n)),
            1 => main.push_str(&format!(".import * as ns{} from \"{}\"\n", i, n)),
            2 => main.push_str(&format!(".import lab{}x0, kon{} from \"{}\"\n", i, i, n)),
            _ => main.push_str(&format!("sc{}: {{ .import * from \"{}\" }}\n", i, n)),
        }
        imports += 1;
    }
    if c.clashing_imports && e.chance(1, 2) {
        // the same file imported twice with `*`: every name clashes
        main.push_str(&format!(".import * from \"{}\"\n.import * from \"{}\"\n", names[0], names[0]));
        clashing = true;
        valid = false;
    }
    main.push_str("jmp start\n");
    if c.repeated_undefined {
        let u = *e.pick(&undef_names[..]);
        let m = 2 + e.below(3);
        for j in 0..m {
            main.push_str(&format!("{} {}\n", e.pick(&["lda", "sta", "jsr", ".word"][..]), u));
            if j % 2 == 0 {
                main.push_str("nop\n");
            }
            undefined_uses += 1;
        }
        valid = false;
    } else if e.chance(1, 6) {
        main.push_str("lda #256\n");
        valid = false;
    }
    files.insert("main.asm".to_string(), main);
    Built { project: Project { files, entry: "main.asm".into() }, undefined_uses, imports, valid_by_construction: valid, same_stem, clashing }
}

type Obs = (Vec<(String, usize, Vec<u8>)>, BTreeMap<String, String>, Option<String>, Vec<String>);

fn observe(p: &Project) -> Option<Obs> {
    guarded(|| {
        let a = assemble(p, AsmOptions { move_macro: true, ..AsmOptions::default() });
        let segs = a.segments().into_iter().map(|s| (s.name, s.start, s.data)).collect();
        let lst = if a.ok() { listing(a.ctx.as_ref().unwrap(), 8) } else { BTreeMap::new() };
        let vice = if a.ok() { a.vice() } else { None };
        // the diagnostic sequence exactly as returned (unsorted)
        let diags = a.all_diags().iter().map(|d| d.short()).collect();
        (segs, lst, vice, diags)
    })
    .ok()
}

pub fn prop(c: &Case, log: &mut CaseLog) -> Verdict {
    let b = build(c);
    log.label(if b.valid_by_construction { "valid" } else { "invalid" });
    log.label(format!("imports:{}", b.imports));
    log.label_if(b.undefined_uses >= 2, "same-undefined-name>=2");
    log.nontrivial = b.imports >= 2 || b.undefined_uses >= 2;
    let mut feats = vec![];
    if b.same_stem {
        feats.push("same_file_stem_in_two_directories");
    }
    if b.undefined_uses >= 2 {
        feats.push("repeated_undefined_name");
    }
    if b.clashing {
        feats.push("clashing_imports");
    }
    let feat: String = feats.iter().map(|f| format!("|feature={}", f)).collect();
    let text = || b.project.files.iter().map(|(n, t)| format!("--- {} ---\n{}", n, t)).collect::<Vec<_>>().join("");
    if !c.cli {
        let n = 8;
        let first = match observe(&b.project) {
            Some(o) => o,
            None => {
                log.label("sut-panic");
                return Verdict::Pass;
            }
        };
        for i in 1..n {
            let o = match observe(&b.project) {
                Some(o) => o,
                None => return Verdict::Pass,
            };
            if o != first {
                let what = if o.3 != first.3 {
                    "diagnostics-differ-between-runs"
                } else if o.0 != first.0 {
                    "image-differs-between-runs"
                } else if o.1 != first.1 {
                    "listing-differs-between-runs"
                } else {
                    "symbols-differ-between-runs"
                };
                return Verdict::fail(format!("{}{}", what, feat), format!("{}\nrun 1: {:?}\nrun {}: {:?}", text(), (&first.3, hash_of(&first.0), hash_of(&first.1)), i + 1, (&o.3, hash_of(&o.0), hash_of(&o.1))));
            }
        }
        return Verdict::Pass;
    }
    // fresh processes
    let n = 6;
    let toml = "[build]\nentry = \"main.asm\"\nlisting = true\nsymbols = [\"vice\"]\n";
    let mut first: Option<(String, Option<i32>, BTreeMap<String, Vec<u8>>)> = None;
    for i in 0..n {
        let sc = Scratch::new("c10");
        sc.write_project(&b.project, toml);
        let run = run_mos(&sc.dir, &["--no-color", "-e", "Short", "build"]);
        if run.timed_out {
            return Verdict::Discard("mos killed by the watchdog".into());
        }
        let files: BTreeMap<String, Vec<u8>> = sc.snapshot("target").into_iter().map(|(k, v)| (k, v.0)).collect();
        // absolute scratch paths differ between runs: normalise
        let stdout = run.stdout.replace(&sc.dir.to_string_lossy().to_string(), "<dir>");
        let obs = (stdout, run.code, files);
        match &first {
            None => first = Some(obs),
            Some(f) => {
                if *f != obs {
                    let what = if f.0 != obs.0 {
                        "cli-stdout-differs-between-runs"
                    } else if f.1 != obs.1 {
                        "cli-exit-status-differs-between-runs"
                    } else {
                        let name = f.2.keys().chain(obs.2.keys()).find(|k| f.2.get(*k) != obs.2.get(*k)).cloned().unwrap_or_default();
                        if name.ends_with(".lst") {
                            "cli-listing-file-differs-between-runs"
                        } else {
                            "cli-output-file-differs-between-runs"
                        }
                    };
                    return Verdict::fail(format!("{}{}", what, feat), format!("{}\nrun 1: exit {:?}\n{}\nfiles {:?}\nrun {}: exit {:?}\n{}\nfiles {:?}", text(), f.1, f.0, f.2.iter().map(|(k, v)| (k, hash_of(v))).collect::<Vec<_>>(), i + 1, obs.1, obs.0, obs.2.iter().map(|(k, v)| (k, hash_of(v))).collect::<Vec<_>>()));
                }
            }
        }
    }
    log.label("cli");
    // one listing per source file: a listing that is overwritten by another one is lost whatever the order
    if let Some(f) = &first {
        if f.1 == Some(0) {
            let listings = f.2.keys().filter(|k| k.ends_with(".lst")).count();
            if listings != b.project.files.len() {
                return Verdict::fail(format!("cli-listing-missing-for-a-source{}", feat), format!("{}\n{} sources, listing files: {:?}", text(), b.project.files.len(), f.2.keys().filter(|k| k.ends_with(".lst")).collect::<Vec<_>>()));
            }
        }
    }
    Verdict::Pass
}

pub fn to_json(c: &Case) -> serde_json::Value {
    let b = build(c);
    json!({"entropy": c.entropy, "cli": c.cli, "same_stem": c.same_stem, "repeated_undefined": c.repeated_undefined, "clashing_imports": c.clashing_imports, "files": b.project.files})
}

pub fn strategy(cli: bool, same_stem: bool, repeated_undefined: bool, clashing_imports: bool) -> impl Strategy<Value = Case> {
    proptest::collection::vec(any::<u32>(), 8..80).prop_map(move |entropy| Case { entropy, cli, same_stem, repeated_undefined, clashing_imports })
}

pub fn run_check(ctx: &mut Ctx) {
    ctx.rule = "multi-file projects (1-3 imported files, `*`/`as`/specific/scoped imports, labels, constants; valid, or invalid through one out-of-range immediate; feature campaigns add the same undefined name used at several places in several files, the same file imported twice with `*`, and equal file stems in two directories) built repeatedly: 8 times in-process (every HashMap draws a fresh RandomState) comparing image, listing texts, VICE text and the unsorted diagnostic sequence, and 6 times by `mos build` in fresh processes comparing stdout, exit status and every file of the target directory. Detection probability per case with k equally ranked items is about 1-(1/k!)^(N-1). non-trivial = >= 2 imports or >= 2 uses of one undefined name".into();
    let n = ctx.tier.pick(2000, 40_000);
    ctx.campaign_parallel("in-process clean", n, 16, || strategy(false, false, false, false), prop, to_json);
    let nf = ctx.tier.pick(600, 6_000);
    ctx.campaign_parallel("in-process feature:repeated_undefined_name", nf, 8, || strategy(false, false, true, false), prop, to_json);
    ctx.campaign_parallel("in-process feature:clashing_imports", nf, 8, || strategy(false, false, false, true), prop, to_json);
    if have_mos() {
        let n2 = ctx.tier.pick(160, 2000);
        ctx.campaign_parallel("cli clean", n2, 16, || strategy(true, false, false, false), prop, to_json);
        let n3 = ctx.tier.pick(64, 600);
        ctx.campaign_parallel("cli feature:same_file_stem_in_two_directories", n3, 8, || strategy(true, true, false, false), prop, to_json);
        ctx.campaign_parallel("cli feature:repeated_undefined_name", n3, 8, || strategy(true, false, true, false), prop, to_json);
    } else {
        ctx.health(false, "mos binary not built (MOS_BIN)");
    }
}

pub fn replay(ctx: &mut Ctx, case: &serde_json::Value) {
    let c: Case = match serde_json::from_value(json!({"entropy": case["entropy"], "cli": case["cli"], "same_stem": case["same_stem"], "repeated_undefined": case["repeated_undefined"], "clashing_imports": case["clashing_imports"]})) {
        Ok(c) => c,
        Err(e) => {
            ctx.health(false, format!("replay case does not deserialize: {}", e));
            return;
        }
    };
    ctx.replay_one(&c, prop, case.clone());
}
