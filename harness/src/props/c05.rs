//! C05 — lossless parse: nothing in a source file is silently ignored.

use crate::engine::{CaseLog, Ctx, Verdict};
use crate::gen::ast::*;
use crate::gen::build::{build, Ent, GenCfg};
use crate::gen::trivia::{RandFiller, TriviaCfg};
use crate::sut::core::{guarded, parse_project, Project};
use proptest::prelude::*;
use serde::{Deserialize, Serialize};
use serde_json::json;
use std::sync::OnceLock;

#[derive(Clone, Debug, Hash, PartialEq, Eq, Serialize, Deserialize)]
pub enum Source {
    /// rendered generator program with random trivia
    Generated,
    /// concatenation of line fragments of the repository's example sources
    Fragments,
}

#[derive(Clone, Debug, Hash, PartialEq, Eq, Serialize, Deserialize)]
pub struct Case {
    pub source: Source,
    pub entropy: Vec<u32>,
    pub trivia: Vec<u32>,
    /// number of character mutations (0 = none)
    pub mutations: Vec<(u32, u32, u32)>,
    /// allow the characters that trigger the recorded finding (stray `)` / lone CR at statement level)
    pub allow_stray: bool,
}

pub const SPECIAL: &[&str] = &[
    ")", "}", "{", "\"", "\r", "\0", "\u{1}", "\u{7f}", "(", ",", ":", "#", ".", "=", "*", "/", "$", "%", "é", "ß", "日", "😀", "\u{feff}", "\u{2028}", "\t", ";", "'", "\\", "@", "!", "<", ">", "-", "+", "a", "0", " ", "\n",
];

static FRAGMENTS: OnceLock<Vec<String>> = OnceLock::new();

fn fragments() -> &'static Vec<String> {
    FRAGMENTS.get_or_init(|| {
        let mut lines: Vec<String> = vec![];
        let mut stack = vec![std::path::PathBuf::from("/repo/examples"), std::path::PathBuf::from("/repo/mos/test-data")];
        let mut files = vec![];
        while let Some(d) = stack.pop() {
            if let Ok(rd) = std::fs::read_dir(&d) {
                let mut es: Vec<_> = rd.filter_map(|e| e.ok()).map(|e| e.path()).collect();
                es.sort();
                for p in es {
                    if p.is_dir() {
                        stack.push(p);
                    } else if p.extension().map(|e| e == "asm").unwrap_or(false) {
                        files.push(p);
                    }
                }
            }
        }
        files.sort();
        for f in files {
            if let Ok(t) = std::fs::read_to_string(&f) {
                for l in t.lines() {
                    if !l.trim().is_empty() {
                        lines.push(l.to_string());
                    }
                }
            }
        }
        if lines.is_empty() {
            lines = vec!["lda #1".into(), "foo: {".into(), "}".into(), ".byte 1,2".into()];
        }
        lines.sort();
        lines.dedup();
        lines
    })
}

pub fn text_of(c: &Case) -> (String, bool) {
    let mut text = match c.source {
        Source::Generated => {
            let b = build(&c.entropy, &GenCfg::full());
            let mut f = RandFiller::new(&c.trivia, TriviaCfg { multiline_block_comment: true, non_ascii: true, uppercase_true: true, ..TriviaCfg::clean() });
            let (proj, _) = b.prog.render_with(&mut f);
            proj.main_text().to_string()
        }
        Source::Fragments => {
            let fr = fragments();
            let mut e = Ent::new(&c.entropy);
            let n = 1 + e.below(12);
            let mut s = String::new();
            for _ in 0..n {
                let l = &fr[e.below(fr.len())];
                // whole line or a fragment of it
                if e.chance(1, 3) {
                    let chars: Vec<char> = l.chars().collect();
                    let a = e.below(chars.len() + 1);
                    let b = a + e.below(chars.len() - a + 1);
                    s.extend(chars[a..b].iter());
                } else {
                    s.push_str(l);
                }
                s.push('\n');
            }
            s
        }
    };
    let mut mutated = false;
    for (pos, kind, what) in &c.mutations {
        let chars: Vec<char> = text.chars().collect();
        if chars.is_empty() {
            break;
        }
        let i = ((*pos as u64 * chars.len() as u64) >> 32) as usize;
        let mut sp: Vec<&str> = SPECIAL.to_vec();
        if !c.allow_stray {
            sp.retain(|s| *s != ")" && *s != "\r");
        }
        let ins = sp[((*what as u64 * sp.len() as u64) >> 32) as usize];
        let mut out: String = chars[..i].iter().collect();
        match kind % 3 {
            0 => {
                out.push_str(ins);
                out.extend(chars[i..].iter());
            }
            1 => {
                // deletion (a deletion may expose a stray ')' only if the text had one: fine)
                out.extend(chars[i + 1..].iter());
            }
            _ => {
                out.push_str(ins);
                out.extend(chars[i + 1..].iter());
            }
        }
        text = out;
        mutated = true;
    }
    (text, mutated)
}

/// is there a `)` or a lone CR at a position where a statement would have to start? (approximation used only
/// to name the recorded finding: first non-trivia character of the unparsed remainder)
fn stray_kind(text: &str, printed_len_chars: usize) -> Option<&'static str> {
    let rest: String = text.chars().skip(printed_len_chars).collect();
    let t = rest.trim_start_matches(|c: char| c == ' ' || c == '\t' || c == '\n');
    if t.starts_with(')') {
        Some("stray-closing-paren")
    } else if t.starts_with('\r') {
        Some("lone-carriage-return")
    } else {
        None
    }
}

/// For every character of a (parse-clean) source text: is it part of a comment or of a string?
fn literal_mask(t: &[char]) -> Vec<bool> {
    let mut m = vec![false; t.len()];
    let mut i = 0;
    while i < t.len() {
        if t[i] == '/' && t.get(i + 1) == Some(&'/') {
            while i < t.len() && t[i] != '\n' {
                m[i] = true;
                i += 1;
            }
        } else if t[i] == '/' && t.get(i + 1) == Some(&'*') {
            let mut depth = 0;
            while i < t.len() {
                if t[i] == '/' && t.get(i + 1) == Some(&'*') {
                    depth += 1;
                    m[i] = true;
                    m[i + 1] = true;
                    i += 2;
                } else if t[i] == '*' && t.get(i + 1) == Some(&'/') {
                    depth -= 1;
                    m[i] = true;
                    m[i + 1] = true;
                    i += 2;
                    if depth == 0 {
                        break;
                    }
                } else {
                    m[i] = true;
                    i += 1;
                }
            }
        } else if t[i] == '"' {
            m[i] = true;
            i += 1;
            while i < t.len() && t[i] != '"' && t[i] != '\n' {
                m[i] = true;
                i += 1;
            }
            if i < t.len() && t[i] == '"' {
                m[i] = true;
                i += 1;
            }
        } else {
            i += 1;
        }
    }
    m
}

/// The property's comparison: exact, except for the letter case of what is not a comment or a string (mnemonics,
/// keywords; identifiers and hex digits are printed as written and are held to the same rule).
fn same_up_to_keyword_case(printed: &str, want: &str) -> bool {
    let a: Vec<char> = printed.chars().collect();
    let b: Vec<char> = want.chars().collect();
    if a.len() != b.len() {
        return false;
    }
    let lit = literal_mask(&b);
    a.iter().zip(b.iter()).enumerate().all(|(i, (x, y))| x == y || (!lit[i] && x.eq_ignore_ascii_case(y)))
}

pub fn check_text(text: &str, log: &mut CaseLog) -> Verdict {
    let p = Project::single(text);
    let r = guarded(|| {
        let (tree, diags) = parse_project(&p);
        let printed = tree.map(|t| t.main_file().tokens.iter().map(|t| format!("{}", t)).collect::<Vec<_>>().join(""));
        (printed, diags)
    });
    let (printed, diags) = match r {
        Ok(x) => x,
        Err(pn) => {
            // crashes belong to C06; they are not a lossless-parse verdict
            log.label("sut-panic");
            let _ = pn;
            return Verdict::Pass;
        }
    };
    if !diags.is_empty() {
        log.label("parse-diagnostics");
        return Verdict::Pass;
    }
    log.label("parse-clean");
    let printed = match printed {
        Some(p) => p,
        None => return Verdict::fail("no-tree-no-diagnostics", text.to_string()),
    };
    let want = text.replace("\r\n", "\n");
    // CRLF inside a block comment is kept verbatim by the printer: "up to CRLF -> LF" applies to both sides
    let printed = printed.replace("\r\n", "\n");
    if !same_up_to_keyword_case(&printed, &want) {
        // locate
        let a: Vec<char> = printed.chars().collect();
        let b: Vec<char> = want.chars().collect();
        let lit = literal_mask(&b);
        let pos = a.iter().zip(b.iter()).enumerate().position(|(i, (x, y))| x != y && (lit[i] || !x.eq_ignore_ascii_case(y))).unwrap_or(a.len().min(b.len()));
        let kind = if a.len() < b.len() && pos == a.len() {
            match stray_kind(&want, printed.chars().count()) {
                Some(k) => format!("text-dropped-without-diagnostic|{}", k),
                None => "text-dropped-without-diagnostic".to_string(),
            }
        } else {
            "round-trip-differs".to_string()
        };
        return Verdict::fail(
            kind,
            format!("input ({} chars): {:?}\nprinted ({} chars): {:?}\nfirst difference at char {}", b.len(), text, a.len(), printed, pos),
        );
    }
    Verdict::Pass
}

pub fn prop(c: &Case, log: &mut CaseLog) -> Verdict {
    let (text, mutated) = text_of(c);
    log.label(format!("source:{:?}", c.source));
    log.label_if(mutated, "mutated");
    let v = check_text(&text, log);
    let clean = log.labels.iter().any(|l| l == "parse-clean");
    log.label_if(mutated && clean, "mutated-and-parse-clean");
    log.nontrivial = mutated || text.chars().any(|ch| !ch.is_ascii());
    v
}

pub fn to_json(c: &Case) -> serde_json::Value {
    json!({"source": c.source, "entropy": c.entropy, "trivia": c.trivia, "mutations": c.mutations, "allow_stray": c.allow_stray, "text": text_of(c).0})
}

pub fn strategy(allow_stray: bool) -> impl Strategy<Value = Case> {
    (
        prop_oneof![Just(Source::Generated), Just(Source::Generated), Just(Source::Fragments)],
        proptest::collection::vec(any::<u32>(), 4..200),
        proptest::collection::vec(any::<u32>(), 0..120),
        proptest::collection::vec((any::<u32>(), any::<u32>(), any::<u32>()), 0..3),
    )
        .prop_map(move |(source, entropy, trivia, mutations)| Case { source, entropy, trivia, mutations, allow_stray })
}

pub fn run_check(ctx: &mut Ctx) {
    ctx.rule = "texts = generator programs rendered with random trivia (comments incl. nested/multi-line/non-ASCII, CRLF, case flips) or concatenated line fragments of the repository's example sources, with 0-2 character insertions/deletions/replacements from a list of special characters at random positions; oracle: parse without diagnostics => upper-cased concatenated Display of the tokens == upper-cased text (CRLF->LF). non-trivial = mutated or containing non-ASCII; distinct by case hash".into();
    ctx.assumptions.push("letter case is compared after to_uppercase on both sides (the printer upper-cases keywords together with their leading trivia)".into());
    let n = ctx.tier.pick(60_000, 1_500_000);
    ctx.campaign_parallel("without-stray-insertions", n, 16, || strategy(false), prop, to_json);
    let n2 = ctx.tier.pick(30_000, 600_000);
    ctx.campaign_parallel("with-stray-paren-or-cr", n2, 16, || strategy(true), prop, to_json);
    let m = ctx.label_count("mutated-and-parse-clean");
    let total = ctx.evaluations.max(1);
    ctx.health(m * 100 / total >= 3, format!("mutated texts that still parse clean: {}%", m * 100 / total));
    ctx.excluded.insert("stray ')' / lone CR insertions in the clean campaign".into(), 0);
}

pub fn replay(ctx: &mut Ctx, case: &serde_json::Value) {
    if let Some(t) = case.get("raw_text").and_then(|t| t.as_str()) {
        let t = t.to_string();
        ctx.replay_one(&t, |t, log| check_text(t, log), case.clone());
        return;
    }
    let c: Case = match serde_json::from_value(json!({"source": case["source"], "entropy": case["entropy"], "trivia": case["trivia"], "mutations": case["mutations"], "allow_stray": case["allow_stray"]})) {
        Ok(c) => c,
        Err(e) => {
            ctx.health(false, format!("replay case does not deserialize: {}", e));
            return;
        }
    };
    ctx.replay_one(&c, prop, case.clone());
}
