//! C05 — lossless parse: nothing in a source file is silently ignored.

use crate::engine::{CaseLog, Ctx, Verdict};
use crate::gen::ast::*;
use crate::gen::build::{build, Ent, GenCfg};
use crate::gen::trivia::{RandFiller, TriviaCfg};
use crate::sut::core::{guarded, parse_project, Project};
use proptest::prelude::*;
use serde::{Deserialize, Serialize};
use serde_json::json;
use std::sync::OnceLock;

#[derive(Clone, Debug, Hash, PartialEq, Eq, Serialize, Deserialize)]
pub enum Source {
    /// rendered generator program with random trivia
    Generated,
    /// concatenation of line fragments of the repository's example sources
    Fragments,
}

#[derive(Clone, Debug, Hash, PartialEq, Eq, Serialize, Deserialize)]
pub struct Case {
    pub source: Source,
    pub entropy: Vec<u32>,
    pub trivia: Vec<u32>,
    /// number of character mutations (0 = none)
    pub mutations: Vec<(u32, u32, u32)>,
    /// allow the characters that trigger the recorded finding (stray `)` / lone CR at statement level)
    pub allow_stray: bool,
}

pub const SPECIAL: &[&str] = &[
    ")", "}", "{", "\"", "\r", "\0", "\u{1}", "\u{7f}", "(", ",", ":", "#", ".", "=", "*", "/", "$", "%", "é", "ß", "日", "😀", "\u{feff}", "\u{2028}", "\t", ";", "'", "\\", "@", "!", "<", ">", "-", "+", "a", "0", " ", "\n",
    // letters that, to a case-insensitive comparison, are a plain letter in another case (Kelvin sign, long s, dotless i)
    "\u{212a}", "\u{17f}", "\u{131}",
];

static FRAGMENTS: OnceLock<Vec<String>> = OnceLock::new();

fn fragments() -> &'static Vec<String> {
    FRAGMENTS.get_or_init(|| {
        let mut lines: Vec<String> = vec![];
        let mut stack = vec![std::path::PathBuf::from("/repo/examples"), std::path::PathBuf::from("/repo/mos/test-data")];
        let mut files = vec![];
        while let Some(d) = stack.pop() {
            if let Ok(rd) = std::fs::read_dir(&d) {
                let mut es: Vec<_> = rd.filter_map(|e| e.ok()).map(|e| e.path()).collect();
                es.sort();
                for p in es {
                    if p.is_dir() {
                        stack.push(p);
                    } else if p.extension().map(|e| e == "asm").unwrap_or(false) {
                        files.push(p);
                    }
                }
            }
        }
        files.sort();
        for f in files {
            if let Ok(t) = std::fs::read_to_string(&f) {
                for l in t.lines() {
                    if !l.trim().is_empty() {
                        lines.push(l.to_string());
                    }
                }
            }
        }
        if lines.is_empty() {
            lines = vec!["lda #1".into(), "foo: {".into(), "}".into(), ".byte 1,2".into()];
        }
        lines.sort();
        lines.dedup();
        lines
    })
}

/// Character insertions, deletions and replacements at relative positions (shared with C06).
pub fn mutate_text(text: String, mutations: &[(u32, u32, u32)], allow_stray: bool) -> String {
    let mut text = text;
    for (pos, kind, what) in mutations {
        let chars: Vec<char> = text.chars().collect();
        if chars.is_empty() {
            break;
        }
        let i = ((*pos as u64 * chars.len() as u64) >> 32) as usize;
        let mut sp: Vec<&str> = SPECIAL.to_vec();
        if !allow_stray {
            sp.retain(|s| *s != ")" && *s != "\r");
        }
        let ins = sp[((*what as u64 * sp.len() as u64) >> 32) as usize];
        // (a look-alike letter goes where the letter it looks like stands, when there is one)
        let twin = match ins {
            "\u{212a}" => Some('k'),
            "\u{17f}" => Some('s'),
            "\u{131}" => Some('i'),
            _ => None,
        };
        let (i, kind) = match twin {
            Some(t) => {
                let all: Vec<usize> = chars.iter().enumerate().filter(|(_, c)| c.eq_ignore_ascii_case(&t)).map(|(k, _)| k).collect();
                // (preferably in a mnemonic: the `k` of `brk`, the `s` of `sta`/`asl`.., the `i` of `inc`/`bit`..)
                let in_mnemonic: Vec<usize> = all
                    .iter()
                    .cloned()
                    .filter(|&k| {
                        let lo = k.saturating_sub(2);
                        let hi = (k + 3).min(chars.len());
                        let w: String = chars[lo..hi].iter().collect::<String>().to_lowercase();
                        ["brk", "sta", "asl", "inc", "bit", "sei", "cli"].iter().any(|m| w.contains(m)) && (lo == 0 || !chars[lo.saturating_sub(1)].is_alphanumeric() || k - lo < 2)
                    })
                    .collect();
                let at = if in_mnemonic.is_empty() { all } else { in_mnemonic };
                if at.is_empty() {
                    (i, *kind)
                } else {
                    (at[((*pos as u64 * at.len() as u64) >> 32) as usize], 2)
                }
            }
            None => (i, *kind),
        };
        let mut out: String = chars[..i].iter().collect();
        match kind % 3 {
            0 => {
                out.push_str(ins);
                out.extend(chars[i..].iter());
            }
            1 => {
                // deletion (a deletion may expose a stray ')' only if the text had one: fine)
                out.extend(chars[i + 1..].iter());
            }
            _ => {
                out.push_str(ins);
                out.extend(chars[i + 1..].iter());
            }
        }
        text = out;
    }
    text
}

pub fn text_of(c: &Case) -> (String, bool) {
    let mut text = match c.source {
        Source::Generated => {
            let b = build(&c.entropy, &GenCfg::full());
            let mut f = RandFiller::new(&c.trivia, TriviaCfg { multiline_block_comment: true, non_ascii: true, uppercase_true: true, ..TriviaCfg::clean() });
            let (proj, _) = b.prog.render_with(&mut f);
            proj.main_text().to_string()
        }
        Source::Fragments => {
            let fr = fragments();
            let mut e = Ent::new(&c.entropy);
            let n = 1 + e.below(12);
            let mut s = String::new();
            for _ in 0..n {
                let l = &fr[e.below(fr.len())];
                // whole line or a fragment of it
                if e.chance(1, 3) {
                    let chars: Vec<char> = l.chars().collect();
                    let a = e.below(chars.len() + 1);
                    let b = a + e.below(chars.len() - a + 1);
                    s.extend(chars[a..b].iter());
                } else {
                    s.push_str(l);
                }
                s.push('\n');
            }
            s
        }
    };
    let mutated = !c.mutations.is_empty() && !text.is_empty();
    let text = mutate_text(text, &c.mutations, c.allow_stray);
    (text, mutated)
}

/// is there a `)` or a lone CR at a position where a statement would have to start? (approximation used only
/// to name the recorded finding: first non-trivia character of the unparsed remainder)
fn stray_kind(text: &str, printed_len_chars: usize) -> Option<&'static str> {
    let rest: String = text.chars().skip(printed_len_chars).collect();
    let t = rest.trim_start_matches(|c: char| c == ' ' || c == '\t' || c == '\n');
    if t.starts_with(')') {
        Some("stray-closing-paren")
    } else if t.starts_with('\r') {
        Some("lone-carriage-return")
    } else {
        None
    }
}

/// For every character of a (parse-clean) source text: is it part of a comment or of a string?
fn literal_mask(t: &[char]) -> Vec<bool> {
    let mut m = vec![false; t.len()];
    let mut i = 0;
    while i < t.len() {
        if t[i] == '/' && t.get(i + 1) == Some(&'/') {
            while i < t.len() && t[i] != '\n' {
                m[i] = true;
                i += 1;
            }
        } else if t[i] == '/' && t.get(i + 1) == Some(&'*') {
            let mut depth = 0;
            while i < t.len() {
                if t[i] == '/' && t.get(i + 1) == Some(&'*') {
                    depth += 1;
                    m[i] = true;
                    m[i + 1] = true;
                    i += 2;
                } else if t[i] == '*' && t.get(i + 1) == Some(&'/') {
                    depth -= 1;
                    m[i] = true;
                    m[i + 1] = true;
                    i += 2;
                    if depth == 0 {
                        break;
                    }
                } else {
                    m[i] = true;
                    i += 1;
                }
            }
        } else if t[i] == '"' {
            m[i] = true;
            i += 1;
            while i < t.len() && t[i] != '"' && t[i] != '\n' {
                m[i] = true;
                i += 1;
            }
            if i < t.len() && t[i] == '"' {
                m[i] = true;
                i += 1;
            }
        } else {
            i += 1;
        }
    }
    m
}

/// The property's comparison: exact, except for the letter case of what is not a comment or a string (mnemonics,
/// keywords; identifiers and hex digits are printed as written and are held to the same rule).
fn same_up_to_keyword_case(printed: &str, want: &str) -> bool {
    let a: Vec<char> = printed.chars().collect();
    let b: Vec<char> = want.chars().collect();
    if a.len() != b.len() {
        return false;
    }
    let lit = literal_mask(&b);
    a.iter().zip(b.iter()).enumerate().all(|(i, (x, y))| x == y || (!lit[i] && x.eq_ignore_ascii_case(y)))
}

pub fn check_text(text: &str, log: &mut CaseLog) -> Verdict {
    let p = Project::single(text);
    let r = guarded(|| {
        let (tree, diags) = parse_project(&p);
        let printed = tree.map(|t| t.main_file().tokens.iter().map(|t| format!("{}", t)).collect::<Vec<_>>().join(""));
        (printed, diags)
    });
    let (printed, diags) = match r {
        Ok(x) => x,
        Err(pn) => {
            // crashes belong to C06; they are not a lossless-parse verdict
            log.label("sut-panic");
            let _ = pn;
            return Verdict::Pass;
        }
    };
    if !diags.is_empty() {
        log.label("parse-diagnostics");
        return Verdict::Pass;
    }
    log.label("parse-clean");
    let printed = match printed {
        Some(p) => p,
        None => return Verdict::fail("no-tree-no-diagnostics", text.to_string()),
    };
    let want = text.replace("\r\n", "\n");
    // CRLF inside a block comment is kept verbatim by the printer: "up to CRLF -> LF" applies to both sides
    let printed = printed.replace("\r\n", "\n");
    if !same_up_to_keyword_case(&printed, &want) {
        // locate
        let a: Vec<char> = printed.chars().collect();
        let b: Vec<char> = want.chars().collect();
        let lit = literal_mask(&b);
        let pos = a.iter().zip(b.iter()).enumerate().position(|(i, (x, y))| x != y && (lit[i] || !x.eq_ignore_ascii_case(y))).unwrap_or(a.len().min(b.len()));
        let kind = if a.len() < b.len() && pos == a.len() {
            match stray_kind(&want, printed.chars().count()) {
                Some(k) => format!("text-dropped-without-diagnostic|{}", k),
                None => "text-dropped-without-diagnostic".to_string(),
            }
        } else {
            "round-trip-differs".to_string()
        };
        return Verdict::fail(
            kind,
            format!("input ({} chars): {:?}\nprinted ({} chars): {:?}\nfirst difference at char {}", b.len(), text, a.len(), printed, pos),
        );
    }
    Verdict::Pass
}

pub fn prop(c: &Case, log: &mut CaseLog) -> Verdict {
    let (text, mutated) = text_of(c);
    log.label(format!("source:{:?}", c.source));
    log.label_if(mutated, "mutated");
    let v = check_text(&text, log);
    let clean = log.labels.iter().any(|l| l == "parse-clean");
    log.label_if(mutated && clean, "mutated-and-parse-clean");
    log.nontrivial = mutated || text.chars().any(|ch| !ch.is_ascii());
    v
}

/// Two files, each with something in it that is not understood: each gets a diagnostic of its own. (What is said about
/// one file must not make the parser overlook the other.)
pub fn prop_two_files(entropy: &Vec<u32>, log: &mut CaseLog) -> Verdict {
    let mut e = crate::gen::build::Ent::new(entropy);
    let good = ["nop", "lda #1", "l1: rts", "    sta $d020", "// comment", ".byte 1, 2", "{ nop }", ""];
    let bad = [")", "lda #", "foo bar", "}", "lda ($10", ".byte", "\"open", "/* unfinished", "br\u{212a}"];
    let mut file = |e: &mut crate::gen::build::Ent, with_bad: bool, bad_last: bool| -> (String, bool) {
        let mut lines: Vec<String> = (0..1 + e.below(4)).map(|_| (*e.pick(&good[..])).to_string()).collect();
        let mut has_bad = false;
        if with_bad {
            let b = (*e.pick(&bad[..])).to_string();
            // (an unterminated comment swallows what follows it: it goes last)
            if bad_last || b.starts_with("/*") {
                lines.push(b);
            } else {
                let at = e.below(lines.len() + 1);
                lines.insert(at, b);
            }
            has_bad = true;
        }
        (lines.join("\n") + if e.chance(1, 2) { "\n" } else { "" }, has_bad)
    };
    let n = 1 + e.below(2);
    let mut files = std::collections::BTreeMap::new();
    let mut expect: Vec<String> = vec![];
    let mut main = String::new();
    for i in 0..n {
        main.push_str(&format!(".import * from \"f{}.asm\"\n", i));
    }
    let (t, b) = file(&mut e, true, true);
    main.push_str(&t);
    if b {
        expect.push("main.asm".into());
    }
    files.insert("main.asm".to_string(), main);
    for i in 0..n {
        let with_bad = e.chance(2, 3);
        let (t, b) = file(&mut e, with_bad, false);
        if b {
            expect.push(format!("f{}.asm", i));
        }
        files.insert(format!("f{}.asm", i), t);
    }
    let p = Project { files, entry: "main.asm".into() };
    let r = guarded(|| parse_project(&p).1);
    let diags = match r {
        Ok(d) => d,
        Err(_) => {
            log.label("sut-panic");
            return Verdict::Pass;
        }
    };
    log.label("two-files");
    log.nontrivial = expect.len() >= 2;
    for f in &expect {
        if !diags.iter().any(|d| d.file.as_deref().map(|n| n.ends_with(f.as_str())).unwrap_or(false)) {
            return Verdict::fail(
                "file-with-errors-gets-no-diagnostic",
                format!("{}\nsomething in {} is not understood, but no diagnostic names that file: {:?}", p.files.iter().map(|(n, t)| format!("--- {} ---\n{}", n, t)).collect::<Vec<_>>().join("\n"), f, diags.iter().map(|d| d.short()).collect::<Vec<_>>()),
            );
        }
    }
    Verdict::Pass
}

pub fn to_json(c: &Case) -> serde_json::Value {
    json!({"source": c.source, "entropy": c.entropy, "trivia": c.trivia, "mutations": c.mutations, "allow_stray": c.allow_stray, "text": text_of(c).0})
}

pub fn strategy(allow_stray: bool) -> impl Strategy<Value = Case> {
    (
        prop_oneof![Just(Source::Generated), Just(Source::Generated), Just(Source::Fragments)],
        proptest::collection::vec(any::<u32>(), 4..200),
        proptest::collection::vec(any::<u32>(), 0..120),
        proptest::collection::vec((any::<u32>(), any::<u32>(), any::<u32>()), 0..3),
    )
        .prop_map(move |(source, entropy, trivia, mutations)| Case { source, entropy, trivia, mutations, allow_stray })
}

pub fn run_check(ctx: &mut Ctx) {
    ctx.rule = "texts = generator programs rendered with random trivia (comments incl. nested/multi-line/non-ASCII, CRLF, case flips) or concatenated line fragments of the repository's example sources, with 0-2 character insertions/deletions/replacements from a list of special characters at random positions; oracle: parse without diagnostics => upper-cased concatenated Display of the tokens == upper-cased text (CRLF->LF). A further campaign parses projects of two or three files, each with one line that is not understood (a stray bracket, half a statement, an unterminated string or comment, a keyword spelled with a look-alike letter): every such file is named by a diagnostic. non-trivial = mutated or containing non-ASCII; distinct by case hash".into();
    ctx.assumptions.push("letter case is compared after to_uppercase on both sides (the printer upper-cases keywords together with their leading trivia)".into());
    let n = ctx.tier.pick(60_000, 1_500_000);
    ctx.campaign_parallel("without-stray-insertions", n, 16, || strategy(false), prop, to_json);
    let n2 = ctx.tier.pick(30_000, 600_000);
    ctx.campaign_parallel("with-stray-paren-or-cr", n2, 16, || strategy(true), prop, to_json);
    let n3 = ctx.tier.pick(20_000, 300_000);
    ctx.campaign_parallel("two-files", n3, 16, || proptest::collection::vec(any::<u32>(), 6..40), prop_two_files, |en| json!({"two_files_entropy": en}));
    let m = ctx.label_count("mutated-and-parse-clean");
    let total = ctx.evaluations.max(1);
    ctx.health(m * 100 / total >= 3, format!("mutated texts that still parse clean: {}%", m * 100 / total));
    ctx.excluded.insert("stray ')' / lone CR insertions in the clean campaign".into(), 0);
}

pub fn replay(ctx: &mut Ctx, case: &serde_json::Value) {
    if let Some(en) = case.get("two_files_entropy") {
        match serde_json::from_value::<Vec<u32>>(en.clone()) {
            Ok(en) => ctx.replay_one(&en, prop_two_files, case.clone()),
            Err(e) => ctx.health(false, format!("replay case does not deserialize: {}", e)),
        }
        return;
    }
    if let Some(t) = case.get("raw_text").and_then(|t| t.as_str()) {
        let t = t.to_string();
        ctx.replay_one(&t, |t, log| check_text(t, log), case.clone());
        return;
    }
    let c: Case = match serde_json::from_value(json!({"source": case["source"], "entropy": case["entropy"], "trivia": case["trivia"], "mutations": case["mutations"], "allow_stray": case["allow_stray"]})) {
        Ok(c) => c,
        Err(e) => {
            ctx.health(false, format!("replay case does not deserialize: {}", e));
            return;
        }
    };
    ctx.replay_one(&c, prop, case.clone());
}
