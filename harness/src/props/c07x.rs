//! C07, continued — two campaigns over programs that are built together with their hand expansion:
//!
//! * `imports`: a project of `main.asm` and `lib.asm` with one or two `.import`s (`*`, `* as ns`, selected names with and
//!   without `as`, with and without a parameter block, at the top level or inside a scope, before or after the uses)
//!   against the single file in which the imported text stands in a named scope at the import site;
//! * `macro-calls-under-label-conditions`: macro invocations of which some sit in an `.if` on a label (so that the
//!   number of invocations differs between the passes) against the bodies in braces.
//!
//! Both programs of a pair have to assemble to the same image, and the expanded one is checked against the reference
//! layout model as well.

use crate::engine::{CaseLog, Verdict};
use crate::gen::ast::*;
use crate::gen::build::Ent;
use crate::model::expand::{expand, Kinds};
use crate::model::isa::Form;
use crate::model::layout::{check_image_all, CheckErr};
use crate::sut::core::{assemble, guarded, AsmOptions, Assembled, PassVerdict};
use proptest::prelude::*;
use serde::{Deserialize, Serialize};
use serde_json::json;

#[derive(Clone, Debug, Hash, PartialEq, Eq, Serialize, Deserialize)]
pub struct Case {
    pub kind: u8,
    pub entropy: Vec<u32>,
}

pub struct Pair {
    pub original: Program,
    pub expanded: Program,
    pub labels: Vec<String>,
}

fn instr(mn: &str, form: Form, op: Option<Expr>) -> Stmt {
    Stmt::Instr { mn: mn.into(), form, operand: op }
}

fn idp(p: &[&str]) -> Expr {
    Expr::Id { path: p.iter().map(|s| s.to_string()).collect(), modifier: None }
}

// ------------------------------------------------------------------------------------------------ imports

struct LibDef {
    name: String,
    /// 0 constant, 1 label, 2 label with a block (inner label `in<name>`)
    kind: u8,
}

/// the statements of the imported file
fn lib_body(e: &mut Ent, defs: &mut Vec<LibDef>, has_params: bool, main_const: Option<&str>, labels: &mut Vec<String>) -> Vec<Stmt> {
    let mut body: Vec<Stmt> = vec![];
    let n = 2 + e.below(5);
    let mut consts: Vec<String> = vec![];
    let mut labs: Vec<String> = vec![];
    let mut has_macro = false;
    // names are known up front so that references can point forward
    let mut plan: Vec<(String, u8)> = vec![];
    for i in 0..n {
        let kind = *e.pick(&[0u8, 0, 1, 2, 2, 2]);
        let name = match kind {
            0 => format!("kq{}", i),
            _ => format!("lq{}", i),
        };
        plan.push((name, kind));
    }
    let all_labs: Vec<String> = plan.iter().filter(|(_, k)| *k != 0).map(|(n, _)| n.clone()).collect();
    if e.chance(1, 3) {
        has_macro = true;
        body.push(Stmt::MacroDef { name: "mqh".into(), params: vec!["pq".into()], body: vec![instr("ldy", Form::Imm, Some(Expr::bin(Expr::id("pq"), BinOp::Add, Expr::num(1))))] });
    }
    for (name, kind) in &plan {
        let value_ref = |e: &mut Ent, consts: &Vec<String>| -> Expr {
            let mut opts: Vec<Expr> = vec![Expr::num(e.range(0, 200))];
            for c in consts {
                opts.push(Expr::id(c));
            }
            if has_params {
                opts.push(Expr::id("PARAMV"));
            }
            if let Some(m) = main_const {
                opts.push(Expr::id(m));
            }
            opts[e.below(opts.len())].clone()
        };
        let code = |e: &mut Ent, consts: &Vec<String>, own: &str, inside_block: bool| -> Vec<Stmt> {
            let mut v = vec![];
            for _ in 0..1 + e.below(3) {
                v.push(match e.below(if inside_block { 9 } else { 7 }) {
                    0 => instr("lda", Form::Imm, Some(value_ref(e, consts))),
                    1 => instr("sta", Form::Plain, Some(if has_params { Expr::id("PARAMA") } else { Expr::hex(0xd020) })),
                    2 if !all_labs.is_empty() => instr("jmp", Form::Plain, Some(Expr::id(&all_labs[e.below(all_labs.len())]))),
                    3 => instr("jsr", Form::Plain, Some(Expr::id(own))),
                    4 if has_macro => Stmt::MacroCall { name: "mqh".into(), args: vec![value_ref(e, consts)] },
                    5 => Stmt::Data { size: DataSize::Word, vals: vec![Expr::id(own)] },
                    7 => instr("jmp", Form::Plain, Some(Expr::id("-"))),
                    8 => Stmt::Data { size: DataSize::Word, vals: vec![Expr::id("+")] },
                    _ => instr("rts", Form::None, None),
                });
            }
            v
        };
        match kind {
            0 => {
                let v = value_ref(e, &consts);
                body.push(Stmt::Const { name: name.clone(), e: v });
                consts.push(name.clone());
            }
            1 => {
                body.push(Stmt::Label { name: name.clone(), block: None });
                body.extend(code(e, &consts, name, false));
                labs.push(name.clone());
                labels.push(name.clone());
            }
            _ => {
                let mut blk = code(e, &consts, name, true);
                let inner = format!("in{}", name);
                let at = e.below(blk.len() + 1);
                blk.insert(at, Stmt::Label { name: inner.clone(), block: None });
                if e.chance(1, 2) {
                    blk.push(instr("jmp", Form::Plain, Some(Expr::id(&inner))));
                }
                body.push(Stmt::Label { name: name.clone(), block: Some(blk) });
                labs.push(name.clone());
                labels.push(name.clone());
            }
        }
        defs.push(LibDef { name: name.clone(), kind: *kind });
    }
    if has_params && e.chance(1, 3) {
        // conditional inclusion, as in the documentation
        body.push(Stmt::If { cond: Expr::Defined(vec!["PARAMF".into()]), then: vec![instr("inx", Form::None, None)], els: Some(vec![instr("iny", Form::None, None)]) });
    }
    body
}

pub fn import_pair(entropy: &[u32]) -> Pair {
    let mut e = Ent::new(entropy);
    let mut labels = vec![];
    let has_params = e.chance(1, 2);
    let main_const = if e.chance(1, 3) { Some("mainkq") } else { None };
    let mut defs: Vec<LibDef> = vec![];
    let lib = lib_body(&mut e, &mut defs, has_params, main_const, &mut labels);
    let first_style = e.below(4);
    // (`*` makes every name of the import's scope visible, the constants of the parameter block included: a second import
    // would see those, which the named scope of the hand expansion does not express. One import then.)
    let n_imports = if first_style != 0 && e.chance(1, 3) { 2 } else { 1 };
    let in_scope = e.chance(1, 3);

    let mut main_o: Vec<Stmt> = vec![];
    let mut main_x: Vec<Stmt> = vec![];
    let both = |o: &mut Vec<Stmt>, x: &mut Vec<Stmt>, s: Stmt| {
        o.push(s.clone());
        x.push(s);
    };
    if e.chance(1, 2) {
        // (with a segment of its own the very first pass emits code already)
        both(&mut main_o, &mut main_x, Stmt::DefineSegment { name: "codeq".into(), start: Some(Expr::hex(0x2000)), pc: None, write: None, bank: None });
    }
    if let Some(m) = main_const {
        both(&mut main_o, &mut main_x, Stmt::Const { name: m.into(), e: Expr::num(e.range(1, 99)) });
    }
    // names of the importing file that coincide with names that stay private to the imported file
    let mut imports: Vec<(ImportArgs, Option<Vec<Stmt>>, String)> = vec![];
    let mut visible: Vec<(Vec<String>, Vec<String>)> = vec![]; // (path in the original, path in the expansion)
    let mut taken: Vec<String> = vec![];
    for k in 0..n_imports {
        let scope_name = format!("zzimp{}", k);
        let params = if has_params {
            let mut p = vec![Stmt::Const { name: "PARAMV".into(), e: Expr::num(e.range(0, 99)) }, Stmt::Const { name: "PARAMA".into(), e: Expr::hex(0xd020 + k as i64) }];
            if e.chance(1, 2) {
                p.push(Stmt::Const { name: "PARAMF".into(), e: Expr::num(1) });
            }
            Some(p)
        } else {
            None
        };
        let style = if k == 0 { first_style } else { 2 + e.below(2) };
        let args = match style {
            0 => {
                for d in &defs {
                    visible.push((vec![d.name.clone()], vec![scope_name.clone(), d.name.clone()]));
                    taken.push(d.name.clone());
                    if d.kind == 2 {
                        visible.push((vec![d.name.clone(), format!("in{}", d.name)], vec![scope_name.clone(), d.name.clone(), format!("in{}", d.name)]));
                    }
                }
                ImportArgs::All { as_: None }
            }
            1 => {
                let ns = format!("nsq{}", k);
                for d in &defs {
                    visible.push((vec![ns.clone(), d.name.clone()], vec![ns.clone(), d.name.clone()]));
                }
                taken.push(ns.clone());
                ImportArgs::All { as_: Some(ns) }
            }
            _ => {
                let mut list = vec![];
                for d in &defs {
                    if e.chance(1, 2) || (list.is_empty() && d.name == defs.last().unwrap().name) {
                        let alias = if style == 3 || k > 0 || e.chance(1, 3) { Some(format!("{}as{}", d.name, k)) } else { None };
                        let shown = alias.clone().unwrap_or(d.name.clone());
                        if taken.contains(&shown) {
                            continue;
                        }
                        taken.push(shown.clone());
                        visible.push((vec![shown.clone()], vec![scope_name.clone(), d.name.clone()]));
                        if d.kind == 2 {
                            visible.push((vec![shown.clone(), format!("in{}", d.name)], vec![scope_name.clone(), d.name.clone(), format!("in{}", d.name)]));
                        }
                        list.push((d.name.clone(), alias));
                    }
                }
                if list.is_empty() {
                    let d = &defs[0];
                    let alias = format!("{}as{}", d.name, k);
                    visible.push((vec![alias.clone()], vec![scope_name.clone(), d.name.clone()]));
                    taken.push(alias.clone());
                    list.push((d.name.clone(), Some(alias)));
                }
                ImportArgs::Specific(list)
            }
        };
        let expanded_name = match &args {
            ImportArgs::All { as_: Some(ns) } => ns.clone(),
            _ => scope_name.clone(),
        };
        imports.push((args, params, expanded_name));
    }
    // the importing file's own definitions with the names of private symbols of the imported file
    let mut own_clashing: Vec<Stmt> = vec![];
    for d in &defs {
        if !taken.contains(&d.name) && e.chance(1, 2) {
            own_clashing.push(match d.kind {
                0 => Stmt::Const { name: d.name.clone(), e: Expr::num(e.range(201, 250)) },
                _ => Stmt::Label { name: d.name.clone(), block: None },
            });
            own_clashing.push(instr("nop", Form::None, None));
        }
    }
    let uses = |e: &mut Ent, visible: &Vec<(Vec<String>, Vec<String>)>, defs: &Vec<LibDef>, prefix: Option<&str>| -> (Vec<Stmt>, Vec<Stmt>) {
        let mut o = vec![];
        let mut x = vec![];
        if visible.is_empty() {
            return (o, x);
        }
        for _ in 0..1 + e.below(4) {
            let (po, px) = visible[e.below(visible.len())].clone();
            let base = po.iter().rev().find_map(|c| defs.iter().find(|d| &d.name == c || c.starts_with(&format!("{}as", d.name)))).map(|d| d.kind);
            let is_const = base == Some(0) && !po.last().unwrap().starts_with("in");
            let with = |p: &Vec<String>| -> Vec<String> {
                match prefix {
                    Some(pre) => std::iter::once(pre.to_string()).chain(p.iter().cloned()).collect(),
                    None => p.clone(),
                }
            };
            let (eo, ex) = (Expr::Id { path: with(&po), modifier: None }, Expr::Id { path: with(&px), modifier: None });
            let mk = |ex: Expr, which: usize| -> Stmt {
                if is_const {
                    match which % 2 {
                        0 => instr("lda", Form::Imm, Some(ex)),
                        _ => Stmt::Data { size: DataSize::Byte, vals: vec![ex] },
                    }
                } else {
                    match which % 3 {
                        0 => instr("jsr", Form::Plain, Some(ex)),
                        1 => Stmt::Data { size: DataSize::Word, vals: vec![ex] },
                        _ => instr("jmp", Form::Plain, Some(ex)),
                    }
                }
            };
            let which = e.below(6);
            o.push(mk(eo, which));
            x.push(mk(ex, which));
        }
        (o, x)
    };
    // layout of the importing file
    let (before_o, before_x) = if e.chance(2, 3) { uses(&mut e, &visible, &defs, None) } else { (vec![], vec![]) };
    let (after_o, after_x) = uses(&mut e, &visible, &defs, None);
    let mut inner_o: Vec<Stmt> = vec![];
    let mut inner_x: Vec<Stmt> = vec![];
    inner_o.extend(before_o);
    inner_x.extend(before_x);
    for (args, params, xname) in &imports {
        inner_o.push(Stmt::Import { args: args.clone(), file: "lib.asm".into(), block: params.clone() });
        let mut blk = params.clone().unwrap_or_default();
        blk.extend(lib.clone());
        inner_x.push(Stmt::Label { name: xname.clone(), block: Some(blk) });
    }
    inner_o.extend(after_o);
    inner_x.extend(after_x);
    let clash_first = e.chance(1, 2);
    if clash_first {
        for s in &own_clashing {
            both(&mut main_o, &mut main_x, s.clone());
        }
    }
    if in_scope {
        // the import sits in a scope of its own: the imported names are visible in there and, from outside, through it.
        // A symbol of the enclosing scope with the name under which something is imported is hidden in there.
        for (po, _) in visible.clone() {
            if po.len() == 1 && e.chance(1, 3) {
                both(&mut main_o, &mut main_x, Stmt::Label { name: po[0].clone(), block: None });
                both(&mut main_o, &mut main_x, instr("nop", Form::None, None));
            }
        }
        let (out_o, out_x) = if e.chance(1, 2) { uses(&mut e, &visible, &defs, Some("outerq")) } else { (vec![], vec![]) };
        main_o.extend(out_o.clone());
        main_x.extend(out_x.clone());
        main_o.push(Stmt::Label { name: "outerq".into(), block: Some(inner_o) });
        main_x.push(Stmt::Label { name: "outerq".into(), block: Some(inner_x) });
        labels.push("outerq".into());
    } else {
        main_o.extend(inner_o);
        main_x.extend(inner_x);
    }
    if !clash_first {
        for s in &own_clashing {
            both(&mut main_o, &mut main_x, s.clone());
        }
    }
    both(&mut main_o, &mut main_x, instr("rts", Form::None, None));
    let mut original = Program::single(main_o);
    original.files.insert("lib.asm".into(), lib);
    Pair { original, expanded: Program::single(main_x), labels }
}

// ------------------------------------------------------------------------------------------------ macro calls under label conditions

pub fn macro_pair(entropy: &[u32]) -> Option<Pair> {
    let mut e = Ent::new(entropy);
    let globals = ["gq1", "gq2", "gq3"];
    let mut main: Vec<Stmt> = vec![];
    for (i, g) in globals.iter().enumerate() {
        main.push(Stmt::Const { name: g.to_string(), e: Expr::num(10 + i as i64) });
    }
    let nm = 2 + e.below(2);
    let mut macros: Vec<(String, usize)> = vec![];
    for m in 0..nm {
        let name = format!("mq{}", m);
        let np = e.below(2);
        let params: Vec<String> = (0..np).map(|i| if e.chance(1, 3) { "cq".to_string() } else { format!("pq{}{}", m, i) }).collect();
        let mut body = vec![];
        let mut local: Vec<String> = params.clone();
        if e.chance(1, 2) {
            // a constant of its own, with the name of a global or with a name that another macro uses for a parameter
            let n = if e.chance(1, 3) && !params.contains(&"cq".to_string()) { "cq".to_string() } else { globals[e.below(3)].to_string() };
            if !local.contains(&n) {
                body.push(Stmt::Const { name: n.clone(), e: Expr::num(100 + 10 * m as i64 + e.below(9) as i64) });
                local.push(n);
            }
        }
        for _ in 0..1 + e.below(3) {
            let mut names: Vec<String> = globals.iter().map(|s| s.to_string()).collect();
            names.extend(local.clone());
            let n = names[e.below(names.len())].clone();
            body.push(match e.below(4) {
                0 => instr("lda", Form::Imm, Some(Expr::id(&n))),
                1 => instr("ldx", Form::Imm, Some(Expr::id(&n))),
                2 => Stmt::Data { size: DataSize::Byte, vals: vec![Expr::id(&n)] },
                _ => instr("bne", Form::Plain, Some(Expr::id(if e.chance(1, 2) { "-" } else { "+" }))),
            });
        }
        if e.chance(1, 3) {
            let l = format!("lq{}", m);
            body.push(Stmt::Label { name: l.clone(), block: None });
            body.push(instr("jmp", Form::Plain, Some(Expr::id(&l))));
        }
        main.push(Stmt::MacroDef { name: name.clone(), params, body });
        macros.push((name, np));
    }
    main.push(Stmt::Label { name: "startq".into(), block: None });
    main.push(instr("nop", Form::None, None));
    let mut with_ifs = main.clone();
    let mut without_ifs = main;
    let calls = |e: &mut Ent| -> Vec<Stmt> {
        (0..1 + e.below(2))
            .map(|_| {
                let (n, np) = macros[e.below(macros.len())].clone();
                Stmt::MacroCall { name: n, args: (0..np).map(|_| Expr::num(e.range(1, 9))).collect() }
            })
            .collect()
    };
    let mut conditional = 0;
    for _ in 0..2 + e.below(4) {
        match e.below(4) {
            0 | 1 => {
                // the label is not known in the first pass: the branch is only taken from the second pass on
                let taken = calls(&mut e);
                let (cond, live_then) = match e.below(3) {
                    0 => (Expr::bin(Expr::id("startq"), BinOp::GtEq, Expr::num(0)), true),
                    1 => (Expr::bin(Expr::id("endq"), BinOp::Gt, Expr::num(0)), true),
                    _ => (Expr::bin(Expr::id("startq"), BinOp::Lt, Expr::num(0)), false),
                };
                let other = if e.chance(1, 2) { Some(calls(&mut e)) } else { None };
                let (then, els) = if live_then { (taken.clone(), other.clone()) } else { (other.clone().unwrap_or_default(), Some(taken.clone())) };
                let live = taken;
                let then = if then.is_empty() { vec![instr("nop", Form::None, None)] } else { then };
                with_ifs.push(Stmt::If { cond, then: then.clone(), els });
                if live_then {
                    without_ifs.extend(then);
                } else {
                    without_ifs.extend(live);
                }
                conditional += 1;
            }
            2 => {
                let c = calls(&mut e);
                let n = 1 + e.below(3) as i64;
                with_ifs.push(Stmt::Loop { count: Expr::num(n), body: c.clone() });
                without_ifs.push(Stmt::Loop { count: Expr::num(n), body: c });
            }
            _ => {
                let c = calls(&mut e);
                with_ifs.extend(c.clone());
                without_ifs.extend(c);
            }
        }
    }
    for p in [&mut with_ifs, &mut without_ifs] {
        p.push(Stmt::Label { name: "endq".into(), block: None });
        p.push(instr("rts", Form::None, None));
    }
    if conditional == 0 {
        return None;
    }
    let original = Program::single(with_ifs);
    let (expanded, _, _) = expand(&Program::single(without_ifs), Kinds { loops: true, ifs: false, macros: true, consts: false })?;
    Some(Pair { original, expanded, labels: vec![] })
}

// ------------------------------------------------------------------------------------------------ programs with type errors

/// A small program in which some expressions have the wrong type: the diagnostics quote the expression, and must read
/// the same however the source is laid out (used by the layout and formatter checks).
pub fn type_error_program(entropy: &[u32]) -> Program {
    let mut e = Ent::new(entropy);
    let mut main = vec![Stmt::Const { name: "sq".into(), e: Expr::str("ab") }, Stmt::Const { name: "nq".into(), e: Expr::num(3) }, Stmt::Label { name: "startq".into(), block: None }];
    let int_expr = |e: &mut Ent| -> Expr {
        let leaf = |e: &mut Ent| match e.below(4) {
            0 => Expr::num(e.range(0, 300)),
            1 => Expr::hex(e.range(0, 0xffff)),
            2 => Expr::id("nq"),
            _ => Expr::Paren(Box::new(Expr::bin(Expr::id("startq"), BinOp::Add, Expr::num(1)))),
        };
        let op = *e.pick(&[BinOp::Add, BinOp::Sub, BinOp::Mul, BinOp::Eq, BinOp::Lt]);
        Expr::bin(leaf(e), op, leaf(e))
    };
    let str_expr = |e: &mut Ent| -> Expr {
        let leaf = |e: &mut Ent| match e.below(3) {
            0 => Expr::str("x"),
            1 => Expr::id("sq"),
            _ => Expr::Str(vec![StrPart::Lit("q".into()), StrPart::Interp(vec!["sq".into()])]),
        };
        Expr::bin(leaf(e), BinOp::Add, leaf(e))
    };
    for _ in 0..1 + e.below(4) {
        main.push(match e.below(8) {
            0 => Stmt::Text { enc: Encoding::Ascii, e: int_expr(&mut e) },
            1 => Stmt::Data { size: DataSize::Byte, vals: vec![Expr::num(1), str_expr(&mut e)] },
            2 => instr("lda", Form::Imm, Some(str_expr(&mut e))),
            3 => Stmt::Loop { count: str_expr(&mut e), body: vec![instr("nop", Form::None, None)] },
            4 => Stmt::Text { enc: Encoding::Ascii, e: Expr::Str(vec![StrPart::Lit("v".into()), StrPart::Interp(vec!["nq".into()])]) },
            5 => Stmt::Align(str_expr(&mut e)),
            6 => instr("sta", Form::Plain, Some(Expr::hex(0xd020))),
            _ => Stmt::Data { size: DataSize::Word, vals: vec![int_expr(&mut e)] },
        });
    }
    main.push(instr("rts", Form::None, None));
    Program::single(main)
}

// ------------------------------------------------------------------------------------------------ the property

fn asm(p: &Program) -> Option<Assembled> {
    let (proj, _) = p.render();
    guarded(|| assemble(&proj, AsmOptions::default())).ok()
}

fn image_of(a: &Assembled) -> Vec<(String, usize, Vec<u8>)> {
    a.segments().into_iter().map(|s| (s.name, s.start, s.data)).collect()
}

pub fn pair_of(c: &Case) -> Option<Pair> {
    match c.kind {
        0 => Some(import_pair(&c.entropy)),
        _ => macro_pair(&c.entropy),
    }
}

fn text_of(p: &Program) -> String {
    let (proj, _) = p.render();
    proj.files.iter().map(|(n, t)| format!("--- {} ---\n{}", n, t)).collect::<Vec<_>>().join("\n")
}

pub fn prop(c: &Case, log: &mut CaseLog) -> Verdict {
    let what = if c.kind == 0 { "import" } else { "macro-calls" };
    let pair = match pair_of(c) {
        Some(p) => p,
        None => return Verdict::Discard("nothing conditional".into()),
    };
    let (a, x) = match (asm(&pair.original), asm(&pair.expanded)) {
        (Some(a), Some(x)) => (a, x),
        _ => {
            log.label("sut-panic");
            return Verdict::Pass;
        }
    };
    if a.pass_verdict != PassVerdict::Ended || x.pass_verdict != PassVerdict::Ended {
        log.label("pass-loop-not-ended");
        return Verdict::Pass;
    }
    let detail = || {
        format!(
            "program P:\n{}\nhand expansion X:\n{}\nP: diagnostics {:?} image {:02x?}\nX: diagnostics {:?} image {:02x?}",
            text_of(&pair.original),
            text_of(&pair.expanded),
            a.all_diags().iter().map(|d| d.short()).collect::<Vec<_>>(),
            image_of(&a),
            x.all_diags().iter().map(|d| d.short()).collect::<Vec<_>>(),
            image_of(&x)
        )
    };
    if !x.ok() {
        // the generator builds valid programs: an expansion that is rejected is a defect of the generator
        log.label("expansion-rejected");
        return Verdict::fail(format!("generator-produced-invalid-expansion|{}", what), detail());
    }
    log.label("expansion-assembled");
    if !a.ok() {
        return Verdict::fail(format!("construct-rejected-but-expansion-assembles|{}", what), detail());
    }
    if image_of(&a) != image_of(&x) {
        return Verdict::fail(format!("bytes-differ-from-expansion|{}", what), detail());
    }
    match check_image_all(&pair.expanded, &x.segments(), 0x2000) {
        Ok(_) => log.label("expanded-image-checked"),
        Err(CheckErr::Unsupported(w)) => {
            log.label("model-unsupported");
            log.label(format!("unsupported:{}", w.chars().take(40).collect::<String>()));
        }
        Err(CheckErr::Mismatch { kind, detail: d }) => {
            return Verdict::fail(format!("expanded-image-wrong|{}|{}", what, kind), format!("{}\n{}", detail(), d));
        }
    }
    if c.kind == 0 {
        // the reference model reads the import itself as well
        match check_image_all(&pair.original, &a.segments(), 0x2000) {
            Ok(_) => log.label("import-image-checked"),
            Err(CheckErr::Unsupported(_)) => log.label("model-unsupported-import"),
            Err(CheckErr::Mismatch { kind, detail: d }) => {
                return Verdict::fail(format!("image-wrong|{}|{}", what, kind), format!("{}\n{}", detail(), d));
            }
        }
    }
    log.label(format!("kind:{}", what));
    log.nontrivial = image_of(&a).iter().map(|s| s.2.len()).sum::<usize>() >= 6;
    Verdict::Pass
}

pub fn to_json(c: &Case) -> serde_json::Value {
    let p = pair_of(c);
    json!({"x_kind": c.kind, "entropy": c.entropy, "program": p.as_ref().map(|p| text_of(&p.original)), "expanded": p.as_ref().map(|p| text_of(&p.expanded))})
}

pub fn strategy(kind: u8) -> impl Strategy<Value = Case> {
    proptest::collection::vec(any::<u32>(), 8..120).prop_map(move |entropy| Case { kind, entropy })
}
