//! C09 — output files lay out banks and segments exactly as configured.

use crate::engine::{CaseLog, Ctx, Verdict};
use crate::gen::build::Ent;
use crate::sut::cli::{have_mos, run_mos, Scratch};
use crate::sut::core::Project;
use proptest::prelude::*;
use serde::{Deserialize, Serialize};
use serde_json::json;
use std::collections::BTreeMap;

#[derive(Clone, Debug, Hash, PartialEq, Eq, Serialize, Deserialize)]
pub struct BankCfg {
    pub name: String,
    pub size: Option<i64>,
    pub fill: Option<u8>,
    pub filename: Option<String>,
    pub create_segment: bool,
}

#[derive(Clone, Debug, Hash, PartialEq, Eq, Serialize, Deserialize)]
pub enum Start {
    Abs(i64),
    /// segments.<name>.end + k
    AfterEnd(String, i64),
    /// segments.<name>.start + k
    AtStart(String, i64),
}

#[derive(Clone, Debug, Hash, PartialEq, Eq, Serialize, Deserialize)]
pub struct SegCfg {
    pub name: String,
    pub start: Start,
    pub pc: Option<i64>,
    pub write: Option<bool>,
    pub bank: Option<String>,
    pub data: Vec<u8>,
}

#[derive(Clone, Debug, Hash, PartialEq, Eq, Serialize, Deserialize)]
pub struct Config {
    pub banks: Vec<BankCfg>,
    pub segs: Vec<SegCfg>,
    /// None = unset, Some(true) = prg, Some(false) = bin
    pub format: Option<bool>,
    pub out_name: Option<String>,
    /// 0: `.segment "x" { .. }` blocks behind the definitions; 1: the blocks in front of the definitions; 2: `.segment "x"`
    /// without a block, one after the other; 3: as 2, and the bytes of the first segment without any `.segment` at all
    #[serde(default)]
    pub style: u8,
}

#[derive(Clone, Debug, Hash, PartialEq, Eq, Serialize, Deserialize)]
pub struct Case {
    pub entropy: Vec<u32>,
    /// finding feature: a single segment explicitly assigned to a bank that is not the first one
    pub single_segment_bank: bool,
}

pub fn config_of(c: &Case) -> Config {
    let mut e = Ent::new(&c.entropy);
    let nb = e.below(5); // 0 = no bank definitions
    let mut banks = vec![];
    let fnames = ["one.bin", "two.bin", "rom.bin"];
    for i in 0..nb {
        let sized = e.chance(1, 3);
        banks.push(BankCfg {
            name: format!("bk{}", i),
            size: if sized { Some(*e.pick(&[4i64, 16, 64, 100, 256, 1000])) } else { None },
            fill: if e.chance(1, 2) { Some(*e.pick(&[0u8, 0xff, 0xaa, 1])) } else { None },
            filename: if e.chance(1, 3) { Some((*e.pick(&fnames[..])).to_string()) } else { None },
            create_segment: e.chance(1, 6),
        });
    }
    let mut ns = 1 + e.below(6);
    if c.single_segment_bank {
        ns = 1;
    }
    let mut segs: Vec<SegCfg> = vec![];
    for i in 0..ns {
        let name = format!("sg{}", i);
        let maxlen = if e.chance(1, 4) { 120 } else { 12 };
        // (one in eight holds nothing at all, e.g. a segment that is only there for its labels)
        let len = if e.chance(1, 8) { 0 } else { 1 + e.below(maxlen) };
        let data: Vec<u8> = (0..len).map(|k| (0x10 * (i as u8 + 1)).wrapping_add(k as u8)).collect();
        let start = if i > 0 && e.chance(1, 3) {
            let prev = segs[e.below(i)].name.clone();
            let k = *e.pick(&[0i64, 0, 1, 4, -2]);
            if e.chance(2, 3) {
                Start::AfterEnd(prev, k.max(0))
            } else {
                Start::AtStart(prev, k)
            }
        } else {
            let base = match e.below(8) {
                0 => e.range(0, 0x40),
                1 => 0xfff0 + e.range(0, 20), // may run past $FFFF
                2 => 0x1000 + e.range(0, 24),
                3 => 0x1000 + e.range(0, 24),
                4 => 0x2000,
                _ => *e.pick(&[0x0200i64, 0x0800, 0x1000, 0x100a, 0x4000, 0x8000, 0xc000, 0xff00]),
            };
            Start::Abs(base)
        };
        let bank = if banks.is_empty() {
            if e.chance(1, 12) { Some("nobank".to_string()) } else { None }
        } else {
            match e.below(12) {
                0 => None,
                1 => Some("nobank".to_string()),
                _ => Some(banks[e.below(banks.len())].name.clone()),
            }
        };
        segs.push(SegCfg {
            name,
            start,
            pc: if e.chance(1, 5) { Some(*e.pick(&[0x8000i64, 0x0400, 0xe000, 0xfff8])) } else { None },
            write: if e.chance(1, 5) { Some(e.chance(1, 2)) } else { None },
            bank,
            data,
        });
    }
    if c.single_segment_bank && banks.len() >= 2 {
        segs[0].bank = Some(banks[banks.len() - 1].name.clone());
        for b in banks.iter_mut() {
            b.create_segment = false;
        }
    }
    let format = match e.below(3) {
        0 => None,
        1 => Some(true),
        _ => Some(false),
    };
    let out_name = if e.chance(1, 3) { Some("out.dat".to_string()) } else { None };
    let mut style = if e.chance(1, 2) { 0 } else { 1 + e.below(3) as u8 };
    if style == 3 && banks.iter().any(|b| b.create_segment) {
        // (the segment a bank creates is defined first: what is not sent anywhere would go there)
        style = 2;
    }
    Config { banks, segs, format, out_name, style }
}

pub fn project_of(cfg: &Config) -> (Project, String) {
    let mut t = String::new();
    for b in &cfg.banks {
        t.push_str(&format!(".define bank {{\n    name = \"{}\"\n", b.name));
        if let Some(s) = b.size {
            t.push_str(&format!("    size = {}\n", s));
        }
        if let Some(f) = b.fill {
            t.push_str(&format!("    fill = ${:02x}\n", f));
        }
        if let Some(f) = &b.filename {
            t.push_str(&format!("    filename = \"{}\"\n", f));
        }
        if b.create_segment {
            t.push_str("    create-segment = true\n");
        }
        t.push_str("}\n");
    }
    for s in &cfg.segs {
        t.push_str(&format!(".define segment {{\n    name = \"{}\"\n", s.name));
        match &s.start {
            Start::Abs(a) => t.push_str(&format!("    start = ${:x}\n", a)),
            Start::AfterEnd(n, k) => t.push_str(&format!("    start = segments.{}.end + {}\n", n, k)),
            Start::AtStart(n, k) => {
                if *k < 0 {
                    t.push_str(&format!("    start = segments.{}.start - {}\n", n, -k))
                } else {
                    t.push_str(&format!("    start = segments.{}.start + {}\n", n, k))
                }
            }
        }
        if let Some(p) = s.pc {
            t.push_str(&format!("    pc = ${:x}\n", p));
        }
        if let Some(w) = s.write {
            t.push_str(&format!("    write = {}\n", w));
        }
        if let Some(b) = &s.bank {
            t.push_str(&format!("    bank = \"{}\"\n", b));
        }
        t.push_str("}\n");
    }
    let mut body = String::new();
    for (i, s) in cfg.segs.iter().enumerate() {
        let bytes: Vec<String> = s.data.iter().map(|b| format!("${:02x}", b)).collect();
        let block = cfg.style <= 1;
        if block {
            body.push_str(&format!(".segment \"{}\" {{\n", s.name));
        } else if !(cfg.style == 3 && i == 0) {
            body.push_str(&format!(".segment \"{}\"\n", s.name));
        }
        for ch in bytes.chunks(16) {
            body.push_str(&format!("    .byte {}\n", ch.join(", ")));
        }
        if block {
            body.push_str("}\n");
        }
    }
    if cfg.style == 1 {
        t = format!("{}{}", body, t);
    } else {
        t.push_str(&body);
    }
    let mut toml = String::from("[build]\nentry = \"main.asm\"\n");
    match cfg.format {
        Some(true) => toml.push_str("output-format = \"prg\"\n"),
        Some(false) => toml.push_str("output-format = \"bin\"\n"),
        None => {}
    }
    if let Some(n) = &cfg.out_name {
        toml.push_str(&format!("output-filename = \"{}\"\n", n));
    }
    (Project::single(&t), toml)
}

#[derive(Clone, Debug, PartialEq, Eq)]
pub enum Expected {
    Files(BTreeMap<String, Vec<u8>>),
    Rejected(String),
    /// the property names no outcome for this configuration
    Unspecified(String),
}

/// Bank layout model, written from the property statement.
pub fn expected(cfg: &Config) -> Expected {
    // segment emission ranges
    let mut ranges: BTreeMap<String, (i64, i64)> = BTreeMap::new();
    for _round in 0..cfg.segs.len() + 1 {
        for s in &cfg.segs {
            let start = match &s.start {
                Start::Abs(a) => Some(*a),
                Start::AfterEnd(n, k) => ranges.get(n).map(|r| r.1 + k),
                Start::AtStart(n, k) => ranges.get(n).map(|r| r.0 + k),
            };
            if let Some(st) = start {
                ranges.insert(s.name.clone(), (st, st + s.data.len() as i64));
            }
        }
    }
    for s in &cfg.segs {
        match ranges.get(&s.name) {
            None => return Expected::Unspecified("unresolvable start".into()),
            Some((a, b)) => {
                if s.data.is_empty() && (*a < 0 || *a > 0xffff) {
                    // no data, but no address either
                    return Expected::Unspecified("empty segment outside of the address space".into());
                }
                if *a < 0 || *b > 0x10000 {
                    return Expected::Rejected(format!("segment {} outside $0000-$FFFF", s.name));
                }
                if let Some(pc) = s.pc {
                    if pc + (*b - *a) > 0x10000 {
                        return Expected::Rejected(format!("the code of segment {} is placed beyond $FFFF", s.name));
                    }
                }
            }
        }
    }
    // banks
    let default_only = cfg.banks.is_empty();
    let banks: Vec<BankCfg> = if default_only { vec![BankCfg { name: "default".into(), size: None, fill: None, filename: None, create_segment: false }] } else { cfg.banks.clone() };
    for s in &cfg.segs {
        match &s.bank {
            None => {
                if !default_only {
                    if cfg.segs.len() == 1 && !cfg.banks.iter().any(|b| b.create_segment) {
                        // a lone segment is put into the first bank by explicit design (and the documentation sends
                        // bank-less segments to the default bank): no outcome is asserted
                        return Expected::Unspecified("lone segment without a bank".into());
                    }
                    return Expected::Rejected(format!("segment {} is assigned to no bank", s.name));
                }
            }
            Some(b) => {
                if !banks.iter().any(|x| &x.name == b) {
                    return Expected::Rejected(format!("segment {} is assigned to unknown bank {}", s.name, b));
                }
            }
        }
    }
    if cfg.banks.iter().any(|b| b.create_segment) {
        // a bank-created segment emits nothing here; it only exists
    }
    let mut images: Vec<(BankCfg, Option<i64>, Vec<u8>)> = vec![];
    for b in &banks {
        let members: Vec<&SegCfg> = cfg
            .segs
            .iter()
            .filter(|s| s.write.unwrap_or(true))
            // (a segment nothing is emitted to writes no address)
            .filter(|s| !s.data.is_empty())
            .filter(|s| match &s.bank {
                Some(n) => n == &b.name,
                None => default_only,
            })
            .collect();
        let fill = b.fill.unwrap_or(0);
        let mut img: Vec<u8> = vec![];
        let mut lo: Option<i64> = None;
        if !members.is_empty() {
            let l = members.iter().map(|s| ranges[&s.name].0).min().unwrap();
            let h = members.iter().map(|s| ranges[&s.name].1).max().unwrap();
            img = vec![fill; (h - l) as usize];
            for s in &members {
                let off = (ranges[&s.name].0 - l) as usize;
                img[off..off + s.data.len()].copy_from_slice(&s.data);
            }
            lo = Some(l);
        }
        if let Some(size) = b.size {
            let size = size as usize;
            if img.len() > size {
                return Expected::Rejected(format!("bank {} is larger than its size", b.name));
            }
            if img.len() < size {
                match b.fill {
                    Some(f) => img.extend(std::iter::repeat(f).take(size - img.len())),
                    None => return Expected::Rejected(format!("bank {} is short and has no fill", b.name)),
                }
            }
        }
        images.push((b.clone(), lo, img));
    }
    let prg = match cfg.format {
        Some(p) => p,
        None => banks.len() == 1,
    };
    if cfg.format == Some(true) && banks.len() != 1 {
        return Expected::Rejected("prg output needs a single bank".into());
    }
    let default_name = cfg.out_name.clone().unwrap_or_else(|| format!("main.{}", if prg { "prg" } else { "bin" }));
    if prg {
        if images[0].1.is_none() {
            return Expected::Unspecified("prg output of an empty first bank".into());
        }
    }
    let mut files: BTreeMap<String, Vec<u8>> = BTreeMap::new();
    if prg {
        let st = images[0].1.unwrap();
        // (the header is the prefix of the first bank's image: it goes to the file that bank goes to)
        let header_file = images[0].0.filename.clone().unwrap_or(default_name.clone());
        files.entry(header_file).or_default().extend([(st & 0xff) as u8, ((st >> 8) & 0xff) as u8]);
    }
    for (b, _, img) in &images {
        let name = b.filename.clone().unwrap_or(default_name.clone());
        files.entry(name).or_default().extend(img.iter());
    }
    Expected::Files(files)
}

pub fn prop(c: &Case, log: &mut CaseLog) -> Verdict {
    let cfg = config_of(c);
    let (proj, toml) = project_of(&cfg);
    let exp = expected(&cfg);
    log.label(format!("banks:{}", cfg.banks.len()));
    log.label(format!("segments:{}", cfg.segs.len()));
    let overlaps = {
        let mut v = false;
        if let Expected::Files(_) = &exp {
            v = cfg.segs.len() >= 2;
        }
        v
    };
    log.label(match &exp {
        Expected::Files(_) => "expect:files",
        Expected::Rejected(_) => "expect:rejected",
        Expected::Unspecified(_) => "expect:unspecified",
    });
    log.label_if(cfg.banks.iter().any(|b| b.size.is_some()), "sized-bank");
    log.label_if(cfg.banks.iter().filter(|b| b.filename.is_some()).count() >= 2, "bank-filenames");
    log.label_if(cfg.segs.iter().any(|s| !matches!(s.start, Start::Abs(_))), "dependent-start");
    log.nontrivial = overlaps || cfg.banks.len() >= 2;
    if let Expected::Unspecified(w) = &exp {
        log.label(format!("unspecified:{}", w));
        return Verdict::Pass;
    }
    let single_feature = cfg.segs.len() == 1 && cfg.banks.len() >= 2 && cfg.segs[0].bank.as_ref() != Some(&cfg.banks[0].name) && cfg.segs[0].bank.is_some() && !cfg.banks.iter().any(|b| b.create_segment);
    let feat = if single_feature { "|feature=single_segment_assigned_to_later_bank" } else { "" };
    let sc = Scratch::new("c09");
    sc.write_project(&proj, &toml);
    let run = run_mos(&sc.dir, &["--no-color", "-e", "Short", "build"]);
    if run.timed_out {
        return Verdict::Discard("mos killed by the watchdog".into());
    }
    let out = sc.snapshot("target");
    let files: BTreeMap<String, Vec<u8>> = out.into_iter().map(|(k, v)| (k, v.0)).collect();
    let detail = |what: &str| {
        format!(
            "{}\nmos.toml:\n{}\nmain.asm:\n{}\nexpected: {}\nexit {:?}\nstdout: {}\nfiles: {:02x?}",
            what,
            toml,
            proj.main_text(),
            match &exp {
                Expected::Files(f) => format!("{:02x?}", f),
                Expected::Rejected(w) => format!("rejected ({})", w),
                Expected::Unspecified(w) => w.clone(),
            },
            run.code,
            run.stdout,
            files
        )
    };
    if run.code.is_none() || run.code.map(|c| c > 1).unwrap_or(false) {
        return Verdict::fail(format!("abnormal-exit|{:?}|{:?}{}", run.code, run.signal, feat), detail("process crashed"));
    }
    match &exp {
        Expected::Rejected(_) => {
            if run.ok() {
                return Verdict::fail(format!("invalid-configuration-built{}", feat), detail("the configuration must be rejected"));
            }
            if !files.is_empty() {
                return Verdict::fail(format!("files-written-for-rejected-configuration{}", feat), detail("output written although the build failed"));
            }
            Verdict::Pass
        }
        Expected::Files(want) => {
            if !run.ok() {
                return Verdict::fail(format!("valid-configuration-rejected{}", feat), detail("the configuration is valid"));
            }
            if &files != want {
                let kind = if files.keys().collect::<Vec<_>>() != want.keys().collect::<Vec<_>>() { "output-file-set-differs" } else { "output-bytes-differ" };
                return Verdict::fail(format!("{}{}", kind, feat), detail("files differ from the bank model"));
            }
            Verdict::Pass
        }
        Expected::Unspecified(_) => Verdict::Pass,
    }
}

pub fn to_json(c: &Case) -> serde_json::Value {
    let cfg = config_of(c);
    let (p, toml) = project_of(&cfg);
    json!({"entropy": c.entropy, "single_segment_bank": c.single_segment_bank, "config": cfg, "main.asm": p.main_text(), "mos.toml": toml})
}

pub fn strategy(single: bool) -> impl Strategy<Value = Case> {
    proptest::collection::vec(any::<u32>(), 8..120).prop_map(move |entropy| Case { entropy, single_segment_bank: single })
}

pub fn run_check(ctx: &mut Ctx) {
    ctx.rule = "configurations of 0-4 banks (size, fill, filename, create-segment) x 1-6 non-empty segments (absolute or segments.x.start/end-relative starts incl. overlapping, adjacent, zero-page and past-$FFFF placements; pc; write; bank incl. unknown/none) x output-format prg/bin/unset x output-filename; `mos build` in a scratch project; oracle: bank layout model written from the property (expected bytes of every file in the target directory, or rejection with exit status 1 and no file). non-trivial = >= 2 segments in a building configuration or >= 2 banks; distinct by entropy hash".into();
    if !have_mos() {
        ctx.health(false, "mos binary not built (MOS_BIN)");
        return;
    }
    let n = ctx.tier.pick(8000, 150_000);
    ctx.campaign_parallel("clean-domain", n, 16, || strategy(false), prop, to_json);
    let n2 = ctx.tier.pick(600, 5_000);
    ctx.campaign_parallel("feature:single_segment_assigned_to_later_bank", n2, 8, || strategy(true), prop, to_json);
    let total = ctx.evaluations.max(1);
    for l in ["expect:files", "expect:rejected", "sized-bank", "dependent-start"] {
        let k = ctx.label_count(l);
        ctx.health(k * 100 / total >= 5, format!("{} in {}%", l, k * 100 / total));
    }
}

pub fn replay(ctx: &mut Ctx, case: &serde_json::Value) {
    let c: Case = match serde_json::from_value(json!({"entropy": case["entropy"], "single_segment_bank": case["single_segment_bank"]})) {
        Ok(c) => c,
        Err(e) => {
            ctx.health(false, format!("replay case does not deserialize: {}", e));
            return;
        }
    };
    ctx.replay_one(&c, prop, case.clone());
}
