//! C17 — format-document edits reproduce the formatter.

use crate::engine::{CaseLog, Ctx, Verdict};
use crate::props::c12;
use crate::sut::cli::{have_mos, run_mos, Scratch};
use crate::sut::lsp::{apply_edits, file_uri, LspClient, LspErr};
use proptest::prelude::*;
use serde::{Deserialize, Serialize};
use serde_json::json;
use std::cell::RefCell;
use std::time::Duration;

#[derive(Clone, Debug, Hash, PartialEq, Eq, Serialize, Deserialize)]
pub struct Case {
    pub entropy: Vec<u32>,
    pub trivia: Vec<u32>,
    /// feature: non-ASCII text in comments (columns are counted in bytes by the server)
    pub non_ascii: bool,
    /// feature: CRLF line ends in the buffer
    #[serde(default)]
    pub crlf: bool,
    /// start from already formatted text
    pub preformatted: bool,
    pub on_type: bool,
}

pub struct Server {
    pub scratch: Scratch,
    pub client: LspClient,
    pub version: i64,
    pub opened: bool,
}

thread_local! {
    static SERVER: RefCell<Option<Server>> = RefCell::new(None);
}

pub fn with_server<T>(f: impl FnOnce(&mut Server) -> T) -> Result<T, LspErr> {
    SERVER.with(|s| {
        let mut s = s.borrow_mut();
        if s.is_none() {
            let scratch = Scratch::new("lsp");
            scratch.write("mos.toml", b"[build]\nentry = \"main.asm\"\n");
            scratch.write("main.asm", b"nop\n");
            let client = LspClient::start(&scratch.dir)?;
            *s = Some(Server { scratch, client, version: 1, opened: false });
        }
        Ok(f(s.as_mut().unwrap()))
    })
}

pub fn drop_server() {
    SERVER.with(|s| {
        *s.borrow_mut() = None;
    });
}

pub fn buffer_of(c: &Case) -> String {
    let cc = c12::Case { entropy: c.entropy.clone(), trivia: c.trivia.clone(), opts: c12::Opts::default_opts(), features: vec!["multiline_block_comment".into(), "comment_before_statement_same_line".into()] };
    let mut cfg = c12::trivia_cfg(&cc.features);
    cfg.non_ascii = c.non_ascii;
    cfg.crlf = c.crlf;
    cfg.serial_comments = false;
    cfg.no_comment_slots = vec![];
    let mut g = crate::gen::build::GenCfg::full();
    g.max_stmts = 30;
    let b = crate::gen::build::build(&c.entropy, &g);
    let mut f = crate::gen::trivia::RandFiller::new(&c.trivia, cfg);
    let (proj, _) = b.prog.render_with(&mut f);
    let text = proj.main_text().to_string();
    if !c.non_ascii || c.trivia.first().map(|t| t % 2 == 0).unwrap_or(true) {
        return text;
    }
    // A column-aligned source: long runs of blanks between the mnemonic and its operand and in front of the comments, which
    // hold runs of characters of one script (the formatter removes most of those blanks: the edits have to cut them out
    // from between multi-byte characters).
    let words = ["ループスプライトを変えるループ", "амб во юед и егхы", "été écran tête zéro chaîne", "«»µ· ¶¡® ©¿±", "の色"];
    let mut out = String::new();
    let mut in_block = false;
    for (i, line) in text.split('\n').enumerate() {
        let was_in_block = in_block;
        let opens = line.matches("/*").count();
        let closes = line.matches("*/").count();
        if opens > closes {
            in_block = true;
        } else if closes > opens {
            in_block = false;
        }
        let plain = !was_in_block && !in_block && !line.contains('"') && !line.contains("/*") && !line.contains("//") && !line.trim().is_empty();
        if plain {
            let indent = line.len() - line.trim_start().len();
            let body = line.trim();
            let widened = match body.split_once(' ') {
                Some((a, b)) if !a.ends_with(':') => format!("{}{}{}", a, " ".repeat(20 + (i * 7) % 13), b.trim_start()),
                _ => body.to_string(),
            };
            let w = words[(i + c.trivia.len()) % words.len()];
            out.push_str(&format!("{}{}{}// {}", " ".repeat(indent + 8), widened, " ".repeat(15 + (i * 5) % 11), w));
        } else {
            out.push_str(line);
        }
        out.push('\n');
    }
    out.pop();
    out
}

pub fn prop(c: &Case, log: &mut CaseLog) -> Verdict {
    let text = buffer_of(c);
    prop_text(text, c.preformatted, c.on_type, log)
}

pub fn prop_text(text: String, preformatted: bool, on_type: bool, log: &mut CaseLog) -> Verdict {
    let mut text = text;
    // expected: what `mos format` writes (default options)
    let fmt = |t: &str| -> Option<String> {
        let sc = Scratch::new("c17");
        sc.write("mos.toml", b"[build]\nentry = \"main.asm\"\n");
        sc.write("main.asm", t.as_bytes());
        let run = run_mos(&sc.dir, &["--no-color", "-e", "Short", "format"]);
        if !run.ok() {
            return None;
        }
        sc.read("main.asm").and_then(|b| String::from_utf8(b).ok())
    };
    let mut expected = match fmt(&text) {
        Some(e) => e,
        None => {
            log.label("buffer-has-errors");
            return Verdict::Discard("buffer does not format".into());
        }
    };
    if preformatted {
        text = expected.clone();
        expected = match fmt(&text) {
            Some(e) => e,
            None => return Verdict::Discard("formatted text does not format".into()),
        };
        log.label("preformatted");
    }
    let non_ascii = !text.is_ascii();
    log.label_if(non_ascii, "non-ascii");
    log.label_if(text.contains("\r\n"), "crlf");
    log.label_if(text == expected, "already-formatted");
    log.nontrivial = text != expected;
    let feat = if non_ascii {
        if text.chars().any(|ch| ch.len_utf16() > 1) {
            "|feature=non_ascii_astral"
        } else {
            "|feature=non_ascii"
        }
    } else if text.contains('\r') {
        "|feature=crlf_buffer"
    } else {
        ""
    };
    let r = with_server(|s| {
        let uri = file_uri(&s.scratch.dir, "main.asm");
        s.version += 1;
        if !s.opened {
            s.client.did_open(&uri, &text);
            s.opened = true;
        } else {
            s.client.did_change(&uri, &text, s.version);
        }
        if on_type {
            s.client.request("textDocument/onTypeFormatting", json!({"textDocument": {"uri": uri}, "position": {"line": 0, "character": 0}, "ch": "}", "options": {"tabSize": 4, "insertSpaces": true}}), Duration::from_secs(20))
        } else {
            s.client.request("textDocument/formatting", json!({"textDocument": {"uri": uri}, "options": {"tabSize": 4, "insertSpaces": true}}), Duration::from_secs(20))
        }
    });
    let resp = match r {
        Ok(Ok(v)) => v,
        Ok(Err(LspErr::Timeout)) => {
            drop_server();
            log.label("inconclusive");
            return Verdict::Pass;
        }
        Ok(Err(LspErr::Died(st, tail))) | Err(LspErr::Died(st, tail)) => {
            drop_server();
            // a dying server is C14's finding; here the case is unusable
            log.label("server-died");
            let _ = (st, tail);
            return Verdict::Pass;
        }
        Ok(Err(LspErr::Error(e))) => return Verdict::fail(format!("error-response{}", feat), format!("{:?}\n{}", e, text)),
        Err(_) => {
            drop_server();
            return Verdict::Pass;
        }
    };
    if resp.is_null() {
        log.label("no-edits-answer");
        // the server declines (it sees errors, e.g. from the analysis pass): nothing to judge
        return Verdict::Pass;
    }
    let edits = match resp.as_array() {
        Some(a) => a.clone(),
        None => return Verdict::fail(format!("malformed-response{}", feat), format!("{}", resp)),
    };
    log.label("edits-answer");
    // ordered
    let pos = |e: &serde_json::Value, k: &str| (e["range"][k]["line"].as_u64().unwrap_or(0), e["range"][k]["character"].as_u64().unwrap_or(0));
    for w in edits.windows(2) {
        if pos(&w[1], "start") < pos(&w[0], "end") {
            return Verdict::fail(format!("edits-not-ordered-or-overlapping{}", feat), format!("buffer {:?}\nedits {}", text, serde_json::to_string(&edits).unwrap()));
        }
    }
    match apply_edits(&text, &edits) {
        None => Verdict::fail(format!("edit-out-of-range{}", feat), format!("buffer {:?}\nedits {}", text, serde_json::to_string(&edits).unwrap())),
        Some(result) => {
            if result != expected {
                let line = result.lines().zip(expected.lines()).position(|(a, b)| a != b).unwrap_or(0);
                return Verdict::fail(
                    format!("edits-do-not-reproduce-the-formatter{}", feat),
                    format!("buffer:\n{}\napplying the {} edits gives (first differing line {}):\n{}\n`mos format` writes:\n{}", text, edits.len(), line + 1, result, expected),
                );
            }
            if text == expected && !edits.is_empty() {
                // harmless but noted: edits for an already formatted buffer must at least be no-ops (they are: result == expected)
                log.label("noop-edits-for-formatted-buffer");
            }
            Verdict::Pass
        }
    }
}

pub fn to_json(c: &Case) -> serde_json::Value {
    json!({"entropy": c.entropy, "trivia": c.trivia, "non_ascii": c.non_ascii, "crlf": c.crlf, "preformatted": c.preformatted, "on_type": c.on_type, "buffer": buffer_of(c)})
}

pub fn strategy(non_ascii: bool, crlf: bool) -> impl Strategy<Value = Case> {
    (proptest::collection::vec(any::<u32>(), 8..200), proptest::collection::vec(any::<u32>(), 0..160), any::<bool>(), 0u8..8).prop_map(move |(entropy, trivia, on_type, p)| Case { entropy, trivia, non_ascii, crlf, preformatted: p == 0, on_type })
}

pub fn run_check(ctx: &mut Ctx) {
    ctx.rule = "error-free buffers = generator programs rendered with arbitrary spacing, block/line/multi-line comments, CRLF, case flips (ASCII in the clean campaign; non-ASCII BMP and astral text in comments in the feature campaign, half of it laid out in columns with long runs of blanks next to runs of Cyrillic, CJK or accented text), 1 in 8 already formatted; sent to a long-lived `mos lsp` server as didOpen/didChange followed by textDocument/formatting or onTypeFormatting; oracle: edits ordered, non-overlapping, in range (UTF-16 columns) and, applied in the standard manner, equal to the file `mos format` writes for the same text. non-trivial = buffer differs from its formatted form".into();
    if !have_mos() {
        ctx.health(false, "mos binary not built (MOS_BIN)");
        return;
    }
    let n = ctx.tier.pick(1600, 40_000);
    ctx.campaign_parallel("ascii-lf", n, 16, || strategy(false, false), prop, to_json);
    let n2 = ctx.tier.pick(480, 8_000);
    ctx.campaign_parallel("feature:non_ascii", n2, 8, || strategy(true, false), prop, to_json);
    ctx.campaign_parallel("feature:crlf_buffer", n2, 8, || strategy(false, true), prop, to_json);
    let total = ctx.evaluations.max(1);
    let e = ctx.label_count("edits-answer");
    ctx.health(e * 100 / total >= 50, format!("formatting answered with edits in {}%", e * 100 / total));
}

pub fn replay(ctx: &mut Ctx, case: &serde_json::Value) {
    if let Some(t) = case.get("raw_buffer").and_then(|t| t.as_str()) {
        let t = t.to_string();
        ctx.replay_one(&t, |t, log| prop_text(t.clone(), false, false, log), case.clone());
        return;
    }
    let c: Case = match serde_json::from_value(json!({"entropy": case["entropy"], "trivia": case["trivia"], "non_ascii": case["non_ascii"], "crlf": case["crlf"], "preformatted": case["preformatted"], "on_type": case["on_type"]})) {
        Ok(c) => c,
        Err(e) => {
            ctx.health(false, format!("replay case does not deserialize: {}", e));
            return;
        }
    };
    ctx.replay_one(&c, prop, case.clone());
}
