//! C01 — instruction encoding: exhaustive form table, branch distances, exhaustive pair space.

use crate::engine::{CaseLog, Ctx, Tier, Verdict};
use crate::model::isa::{self, Expect, Form, ALL_FORMS};
use crate::sut::core::{assemble, guarded, AsmOptions, Assembled, Project};
use proptest::prelude::*;
use serde::{Deserialize, Serialize};
use serde_json::json;

#[derive(Clone, Debug, Hash, PartialEq, Eq, Serialize, Deserialize)]
pub enum OperandKind {
    Literal,
    Constant,
    ForwardLabel,
}

#[derive(Clone, Debug, Hash, PartialEq, Eq, Serialize, Deserialize)]
pub struct Cell {
    pub mn: String,
    pub form: Form,
    pub value: i64,
    pub kind: OperandKind,
    pub radix: u8,
}

fn lit(v: i64, radix: u8) -> String {
    match radix {
        16 => format!("${:x}", v),
        2 => format!("%{:b}", v),
        _ => format!("{}", v),
    }
}

impl Cell {
    pub fn program(&self) -> (String, usize) {
        // returns program and 1-based line of the instruction
        let operand = match self.kind {
            OperandKind::Literal => lit(self.value, self.radix),
            OperandKind::Constant => "kq".to_string(),
            OperandKind::ForwardLabel => "gz".to_string(),
        };
        let ins = if self.form == Form::None {
            self.mn.clone()
        } else {
            format!("{} {}", self.mn, self.form.render(&operand))
        };
        match self.kind {
            OperandKind::Literal => (format!("{}\n", ins), 1),
            OperandKind::Constant => (
                format!(".const kq = {}\n{}\n", lit(self.value, self.radix), ins),
                2,
            ),
            OperandKind::ForwardLabel => (format!("{}\n* = {}\ngz:\n", ins, lit(self.value, 16)), 1),
        }
    }
}

fn run(text: &str) -> Result<Assembled, crate::sut::core::PanicInfo> {
    let p = Project::single(text);
    guarded(|| assemble(&p, AsmOptions::default()))
}

/// bytes of the default segment that start at target address `addr`
fn bytes_at(a: &Assembled, addr: usize, len: usize) -> Option<Vec<u8>> {
    let segs = a.segments();
    let s = segs.first()?;
    if addr < s.start || addr + len > s.end {
        return None;
    }
    Some(s.data[addr - s.start..addr - s.start + len].to_vec())
}

pub fn check_cell(c: &Cell, log: &mut CaseLog) -> Verdict {
    let (text, line) = c.program();
    let pc = 0x2000i64;
    let expect = isa::encode(&c.mn, c.form, c.value, pc);
    log.label(format!("expect:{}", match &expect { Expect::Bytes(_) => "bytes", Expect::Reject => "reject", Expect::RejectOr(_) => "reject-or" }));
    log.label(format!("kind:{:?}", c.kind));
    log.nontrivial = matches!(c.value, 255 | 256 | 65535 | 65536 | 0 | 127 | 128 | 257);
    let a = match run(&text) {
        Ok(a) => a,
        Err(p) => return Verdict::fail(p.signature(), format!("{}\n{:?}", text, p)),
    };
    let diags = a.all_diags();
    let seg_total: usize = a.segments().iter().map(|s| s.data.len()).sum();
    match expect {
        Expect::Bytes(b) => {
            if !diags.is_empty() {
                return Verdict::fail(
                    "legal-cell-rejected",
                    format!("{}\nexpected {:02x?}\ndiagnostics: {:?}", text, b, diags),
                );
            }
            let got = bytes_at(&a, 0x2000, b.len());
            if got.as_ref() != Some(&b) || seg_total != b.len() {
                return Verdict::fail(
                    "wrong-bytes",
                    format!("{}\nexpected {:02x?}\ngot {:02x?} (segments {:?})", text, b, got, a.segments()),
                );
            }
            Verdict::Pass
        }
        Expect::Reject => {
            if diags.is_empty() {
                return Verdict::fail(
                    "illegal-cell-accepted",
                    format!("{}\nassembled to {:02x?}", text, a.segments()),
                );
            }
            // C01 only demands rejection; where the diagnostic points is C04's business
            let _ = line;
            Verdict::Pass
        }
        Expect::RejectOr(b) => {
            if diags.is_empty() {
                let got = bytes_at(&a, 0x2000, b.len());
                if got.as_ref() != Some(&b) || seg_total != b.len() {
                    return Verdict::fail(
                        "wrong-bytes-wide-operand",
                        format!("{}\nexpected error or {:02x?}\ngot {:02x?}", text, b, got),
                    );
                }
            }
            Verdict::Pass
        }
    }
}

pub fn all_cells(extra_values: &[i64]) -> Vec<Cell> {
    let mut base: Vec<i64> = vec![0, 1, 127, 128, 255, 256, 257, 0x1234, 0xffff, 0x10000, 0x12345];
    base.extend_from_slice(extra_values);
    let mut cells = vec![];
    for mn in isa::mnemonics() {
        if isa::is_branch(mn) {
            // branches: form table only for the non-plain forms (plain handled by the branch sweep)
            for form in ALL_FORMS {
                if form == Form::Plain {
                    continue;
                }
                cells.push(Cell { mn: mn.into(), form, value: 0x2002, kind: OperandKind::Literal, radix: 16 });
            }
            continue;
        }
        for form in ALL_FORMS {
            if form == Form::None {
                cells.push(Cell { mn: mn.into(), form, value: 0, kind: OperandKind::Literal, radix: 10 });
                continue;
            }
            for (i, v) in base.iter().enumerate() {
                let radix = [16u8, 10, 2][i % 3];
                cells.push(Cell { mn: mn.into(), form, value: *v, kind: OperandKind::Literal, radix });
                cells.push(Cell { mn: mn.into(), form, value: *v, kind: OperandKind::Constant, radix });
                // a forward label can carry any address a label may take that does not collide with
                // the instruction itself ($2000..$2003)
                if *v <= 0xffff && !(0x1ffd..=0x2003).contains(v) {
                    cells.push(Cell { mn: mn.into(), form, value: *v, kind: OperandKind::ForwardLabel, radix: 16 });
                }
            }
        }
    }
    cells
}

#[derive(Clone, Debug, Hash, PartialEq, Eq, Serialize, Deserialize)]
pub enum BranchShape {
    /// `* = origin` / `bxx <literal target>`
    Literal,
    /// `* = origin` / `lbl:` / padding / `bxx lbl`
    BackLabel,
    /// `* = origin` / `bxx lbl` / padding / `lbl:`
    FwdLabel,
}

#[derive(Clone, Debug, Hash, PartialEq, Eq, Serialize, Deserialize)]
pub struct Branch {
    pub mn: String,
    pub origin: i64,
    pub dist: i64,
    pub shape: BranchShape,
}

impl Branch {
    /// (program, address of the branch instruction, line of the branch) or None if not constructible
    pub fn program(&self) -> Option<(String, i64, usize)> {
        let pad = |n: i64| -> String {
            if n == 0 {
                String::new()
            } else {
                format!(".byte {}\n", vec!["0"; n as usize].join(","))
            }
        };
        match self.shape {
            BranchShape::Literal => {
                let target = self.origin + 2 + self.dist;
                if !(0..=0xffff).contains(&target) {
                    return None;
                }
                Some((format!("* = {}\n{} ${:x}\n", self.origin, self.mn, target), self.origin, 2))
            }
            BranchShape::BackLabel => {
                // label at origin, n bytes, branch at origin+n: dist = -(n+2)
                let n = -self.dist - 2;
                if n < 0 {
                    return None;
                }
                let p = pad(n);
                let line = if n == 0 { 3 } else { 4 };
                Some((format!("* = {}\ngz:\n{}{} gz\n", self.origin, p, self.mn), self.origin + n, line))
            }
            BranchShape::FwdLabel => {
                let n = self.dist;
                if n < 0 {
                    return None;
                }
                Some((format!("* = {}\n{} gz\n{}gz:\n", self.origin, self.mn, pad(n)), self.origin, 2))
            }
        }
    }
}

pub fn check_branch(b: &Branch, log: &mut CaseLog) -> Verdict {
    let (text, addr, line) = match b.program() {
        Some(x) => x,
        None => return Verdict::Discard("not constructible".into()),
    };
    let target = addr + 2 + b.dist;
    let in_range = (-128..=127).contains(&b.dist);
    log.label(if in_range { "branch:in-range" } else { "branch:out-of-range" });
    log.label(format!("shape:{:?}", b.shape));
    log.nontrivial = (126..=130).contains(&b.dist.abs());
    let a = match run(&text) {
        Ok(a) => a,
        Err(p) => return Verdict::fail(p.signature(), format!("{}\n{:?}", text, p)),
    };
    let diags = a.all_diags();
    let op = isa::opcode(&b.mn, isa::Mode::Rel).unwrap();
    if in_range {
        if !diags.is_empty() {
            return Verdict::fail("branch-in-range-rejected", format!("{}\n{:?}", text, diags));
        }
        let got = bytes_at(&a, addr as usize, 2);
        let want = vec![op, (b.dist & 0xff) as u8];
        if got.as_ref() != Some(&want) {
            return Verdict::fail("branch-wrong-bytes", format!("{}\nwant {:02x?} got {:02x?}", text, want, got));
        }
        Verdict::Pass
    } else {
        if diags.is_empty() {
            let kind = if target == 0 {
                "branch-out-of-range-accepted|target=0"
            } else {
                "branch-out-of-range-accepted"
            };
            return Verdict::fail(kind, format!("{}\ndist {} assembled to {:02x?}", text, b.dist, bytes_at(&a, addr as usize, 2)));
        }
        let _ = line;
        Verdict::Pass
    }
}

pub fn all_branches(origins: &[i64]) -> Vec<Branch> {
    let mut v = vec![];
    for mn in isa::mnemonics().into_iter().filter(|m| isa::is_branch(m)) {
        for &origin in origins {
            for dist in -140..=140 {
                for shape in [BranchShape::Literal, BranchShape::BackLabel, BranchShape::FwdLabel] {
                    v.push(Branch { mn: mn.into(), origin, dist, shape });
                }
            }
        }
    }
    v
}

// ---------------------------------------------------------------- pair space

pub const PRELUDE: &str = ".const kq = 5\n.const wq = $1234\n.macro m0() { nop }\n.macro m1(a) { .byte a }\n.macro m2(a, b) { .byte a, b }\n";

pub fn pair_forms() -> Vec<(&'static str, String)> {
    let mut v: Vec<(&'static str, String)> = vec![
        ("nop", "nop".into()),
        ("asl-acc", "asl".into()),
        ("lsr-acc", "lsr".into()),
        ("rol-acc", "rol".into()),
        ("ror-acc", "ror".into()),
        ("imm", "lda #$10".into()),
        ("zp", "lda $10".into()),
        ("abs", "lda $1234".into()),
        ("zpx", "lda $10,x".into()),
        ("aby", "lda $1234,y".into()),
        ("izx", "lda ($10,x)".into()),
        ("izy", "lda ($10),y".into()),
        ("ind", "jmp ($1234)".into()),
        ("jsr", "jsr $1234".into()),
        ("branch-rel", "bne *".into()),
        ("const-operand", "lda kq".into()),
        ("lowbyte", "lda #<wq".into()),
        ("byte", ".byte 1, 2".into()),
        ("word", ".word $1234".into()),
        ("dword", ".dword 1".into()),
        ("text", ".text \"ab\"".into()),
        ("text-petscii", ".text petscii \"ab\"".into()),
        ("label", "g1@:".into()),
        ("label-instr", "g2@: nop".into()),
        ("label-block", "g3@: { nop }".into()),
        ("braces", "{ nop }".into()),
        ("const", ".const q1@ = 1".into()),
        ("var", ".var u1@ = 1".into()),
        ("macro0", "m0()".into()),
        ("macro1", "m1(7)".into()),
        ("macro2", "m2(7, 8)".into()),
        ("loop", ".loop 2 { nop }".into()),
        ("if", ".if 1 { nop }".into()),
        ("if-else", ".if 0 { nop } else { asl }".into()),
        ("assert", ".assert 1".into()),
        ("trace", ".trace".into()),
        ("trace-args", ".trace (1)".into()),
        ("segment-block", ".segment \"default\" { nop }".into()),
        ("import", ".import * from \"inc.asm\"".into()),
        ("align1", ".align 1".into()),
        ("test", ".test \"t1@\" { brk }".into()),
    ];
    // fresh names per occurrence: '@' is replaced by a/b
    for f in v.iter_mut() {
        f.1 = f.1.clone();
    }
    v
}

pub const SEPARATORS: [(&str, &str); 4] = [
    ("nl", "\n"),
    ("blank", "\n\n"),
    ("cpp-comment-line", "\n// c\n"),
    ("c-comment-line", "\n/* c */\n"),
];

#[derive(Clone, Debug, Hash, PartialEq, Eq, Serialize, Deserialize)]
pub struct Pair {
    pub a: usize,
    pub b: usize,
    pub sep: usize,
}

fn pair_project(body: &str) -> Project {
    // the default segment must exist before the prelude's `.segment "default"` form is used:
    // define it explicitly so that `.segment "default" { }` is valid in the first pass as well
    let text = format!("{}{}\n", PRELUDE, body);
    Project::single(&text).with("inc.asm", ".byte $ee\n")
}

fn diag_msgs(a: &Assembled) -> Vec<String> {
    let mut v: Vec<String> = a.all_diags().iter().map(|d| d.msg.clone()).collect();
    v.sort();
    v
}

pub fn check_pair(p: &Pair, log: &mut CaseLog) -> Verdict {
    let forms = pair_forms();
    let (na, fa) = &forms[p.a];
    let (nb, fb) = &forms[p.b];
    if *na == "import" && *nb == "import" {
        return Verdict::Discard("import at most once".into());
    }
    if *na == "import" && fb.trim_start().starts_with('{') {
        // `.import ... from "f"` followed by `{` on a later line is the documented "import with
        // scope" syntax (a block may start on the next line everywhere in the grammar, and the
        // formatter's new-line brace style writes it that way): not two independent statements.
        return Verdict::Discard("import followed by a block is one statement".into());
    }
    let ta = fa.replace('@', "a");
    let tb = fb.replace('@', "b");
    let sep = SEPARATORS[p.sep].1;
    let both = format!("{}{}{}", ta, sep, tb);
    log.label(format!("sep:{}", SEPARATORS[p.sep].0));
    log.nontrivial = tb.chars().next().map(|c| c.is_alphabetic()).unwrap_or(false) && tb.contains('(');
    let opts = AsmOptions::default();
    let r = guarded(|| {
        (
            assemble(&pair_project(&ta), opts.clone()),
            assemble(&pair_project(&tb), opts.clone()),
            assemble(&pair_project(&both), opts),
        )
    });
    let (ra, rb, rab) = match r {
        Ok(x) => x,
        Err(pn) => return Verdict::fail(pn.signature(), format!("{}\n{:?}", both, pn)),
    };
    if !ra.ok() || !rb.ok() {
        return Verdict::fail(
            "pair-form-alone-rejected",
            format!("A={:?} {:?}\nB={:?} {:?}", ta, ra.all_diags(), tb, rb.all_diags()),
        );
    }
    let mut want = ra.default_bytes();
    want.extend(rb.default_bytes());
    let got = rab.default_bytes();
    if !rab.ok() || got != want {
        // feature classification for the signature
        let a_acc = matches!(*na, "asl-acc" | "lsr-acc" | "rol-acc" | "ror-acc");
        let b_paren = log.nontrivial;
        let b_block = tb.trim_start().starts_with('{');
        let kind = if a_acc && b_paren {
            "pair-differs|accumulator-mnemonic-before-ident-paren".to_string()
        } else if *na == "import" && b_block {
            "pair-differs|import-before-braces".to_string()
        } else {
            format!("pair-differs|A={}|B={}", na, nb)
        };
        return Verdict::fail(
            kind,
            format!(
                "A = {:?}\nB = {:?}\nseparator = {:?}\nA alone: {:02x?}\nB alone: {:02x?}\nA sep B: {:02x?} diagnostics {:?}",
                ta, tb, sep, ra.default_bytes(), rb.default_bytes(), got, diag_msgs(&rab)
            ),
        );
    }
    Verdict::Pass
}

pub fn run_check(ctx: &mut Ctx) {
    ctx.rule = "exhaustive: 56 mnemonics x 11 syntactic operand forms x operand boundary classes {0,1,127,128,255,256,257,$1234,$ffff,$10000,$12345} as literal (3 radixes), constant and forward label; 8 branches x distances -140..140 x {literal target, backward label, forward label} x origins; ordered pairs of position-independent statement forms x 4 separators. random: extra operand values per cell. non-trivial = operand on a width boundary, |branch distance| in 126..130, or pair whose second statement starts with identifier+'('; distinct by structural hash of the case".into();
    ctx.assumptions.push("reference opcode table model/isa.rs (self-tested against ISA literals)".into());
    if let Err(e) = isa::self_test() {
        ctx.health(false, format!("isa self test: {}", e));
        return;
    }

    // (a) exhaustive cells
    let cells = all_cells(&[]);
    for c in &cells {
        let mut log = CaseLog::default();
        let v = check_cell(c, &mut log);
        ctx.record_case(c, &log);
        if let Verdict::Fail { kind, detail } = v {
            let sig = format!("C01|{}", kind);
            ctx.report_failure(&sig, &detail, json!({"cell": c}));
        }
    }
    ctx.sample(json!({"cell": cells[cells.len() / 3], "program": cells[cells.len() / 3].program().0}));
    ctx.exhaustive.push(format!("form table: {} cells", cells.len()));

    // (b) branches
    let origins: Vec<i64> = match ctx.tier {
        Tier::Quick => vec![0x2000, 0x20f0, 0, 200],
        Tier::Thorough => vec![0x2000, 0x20f0, 0, 100, 127, 128, 129, 130, 200, 0xff00, 0xff70],
    };
    let branches = all_branches(&origins);
    let mut nb = 0;
    for b in &branches {
        let mut log = CaseLog::default();
        let v = check_branch(b, &mut log);
        match v {
            Verdict::Discard(_) => {
                ctx.discarded += 1;
                continue;
            }
            Verdict::Fail { kind, detail } => {
                ctx.record_case(b, &log);
                let sig = format!("C01|{}", kind);
                ctx.report_failure(&sig, &detail, json!({"branch": b}));
            }
            Verdict::Pass => ctx.record_case(b, &log),
        }
        nb += 1;
    }
    ctx.sample(json!({"branch": branches[1000], "program": branches[1000].program().map(|p| p.0)}));
    ctx.exhaustive.push(format!("branch sweep: {} programs", nb));

    // (c) pair space
    let forms = pair_forms();
    let mut np = 0;
    for a in 0..forms.len() {
        for b in 0..forms.len() {
            for sep in 0..SEPARATORS.len() {
                let p = Pair { a, b, sep };
                let mut log = CaseLog::default();
                let v = check_pair(&p, &mut log);
                match v {
                    Verdict::Discard(_) => {
                        ctx.discarded += 1;
                        continue;
                    }
                    Verdict::Fail { kind, detail } => {
                        ctx.record_case(&p, &log);
                        let sig = format!("C01|{}", kind);
                        ctx.report_failure(&sig, &detail, json!({"pair": p, "a": forms[a].1, "b": forms[b].1}));
                    }
                    Verdict::Pass => ctx.record_case(&p, &log),
                }
                np += 1;
            }
        }
    }
    ctx.sample(json!({"pair": {"a": forms[1].1, "sep": "\n", "b": forms[10].1}}));
    ctx.exhaustive.push(format!("pair space: {} forms, {} programs", forms.len(), np));

    // (d) random operands per cell
    let mns: Vec<&'static str> = isa::mnemonics().into_iter().filter(|m| !isa::is_branch(m)).collect();
    let n = mns.len();
    let strat = (
        0..n,
        0usize..ALL_FORMS.len(),
        prop_oneof![0i64..=300, 0i64..=0x10010, 0xff00i64..=0x20000],
        0u8..3,
        0u8..3,
    )
        .prop_map(move |(m, f, value, k, r)| Cell {
            mn: mns[m].to_string(),
            form: ALL_FORMS[f],
            value,
            kind: match k {
                0 => OperandKind::Literal,
                1 => OperandKind::Constant,
                _ => {
                    if value <= 0xffff && !(0x1ffd..=0x2003).contains(&value) {
                        OperandKind::ForwardLabel
                    } else {
                        OperandKind::Literal
                    }
                }
            },
            radix: [16u8, 10, 2][r as usize],
        });
    let cases = ctx.tier.pick(6000, 150_000);
    ctx.campaign("random-operands", cases, strat, check_cell, |c| json!({"cell": c, "program": c.program().0}));
}

pub fn replay(ctx: &mut Ctx, case: &serde_json::Value) {
    if let Some(c) = case.get("cell") {
        let c: Cell = serde_json::from_value(c.clone()).unwrap();
        ctx.replay_one(&c, check_cell, case.clone());
    } else if let Some(b) = case.get("branch") {
        let b: Branch = serde_json::from_value(b.clone()).unwrap();
        ctx.replay_one(&b, check_branch, case.clone());
    } else if let Some(p) = case.get("pair") {
        let p: Pair = serde_json::from_value(p.clone()).unwrap();
        ctx.replay_one(&p, check_pair, case.clone());
    }
}
