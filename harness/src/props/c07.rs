//! C07 — loops, conditionals, macros, constants mean their expansion.

use crate::engine::{CaseLog, Ctx, Verdict};
use crate::gen::ast::*;
use crate::gen::build::{build, GenCfg};
use crate::model::expand::{expand, Kinds};
use crate::model::layout::{check_image_all, CheckErr};
use crate::sut::core::{assemble, guarded, AsmOptions, Assembled, PassVerdict};
use proptest::prelude::*;
use serde::{Deserialize, Serialize};
use serde_json::json;

#[derive(Clone, Debug, Hash, PartialEq, Eq, Serialize, Deserialize)]
pub struct Case {
    pub entropy: Vec<u32>,
    pub defs_in_loop: bool,
}

fn cfg(c: &Case) -> GenCfg {
    let mut g = GenCfg::full();
    g.max_stmts = 36;
    g.max_depth = 4;
    g.constructs_boost = true;
    g.defs_in_loop = c.defs_in_loop;
    g
}

fn asm(p: &Program) -> Option<Assembled> {
    let (proj, _) = p.render();
    guarded(|| assemble(&proj, AsmOptions::default())).ok()
}

fn image_of(a: &Assembled) -> Vec<(String, usize, Vec<u8>)> {
    a.segments().into_iter().map(|s| (s.name, s.start, s.data)).collect()
}

/// is there a macro call (or a definition) inside a loop body?
fn has_call_in_loop(body: &[Stmt], in_loop: bool) -> bool {
    body.iter().any(|s| match s {
        Stmt::MacroCall { .. } => in_loop,
        Stmt::Loop { body, .. } => has_call_in_loop(body, true),
        Stmt::MacroDef { .. } => false,
        other => other.children().iter().any(|c| has_call_in_loop(c, in_loop)),
    })
}

fn has_def_in_loop(body: &[Stmt], in_loop: bool) -> bool {
    body.iter().any(|s| match s {
        Stmt::Label { block, .. } => in_loop || block.as_ref().map(|b| has_def_in_loop(b, in_loop)).unwrap_or(false),
        Stmt::Const { .. } | Stmt::Var { .. } => in_loop,
        Stmt::Loop { body, .. } => has_def_in_loop(body, true),
        Stmt::MacroDef { .. } => false,
        other => other.children().iter().any(|c| has_def_in_loop(c, in_loop)),
    })
}

pub fn prop(c: &Case, log: &mut CaseLog) -> Verdict {
    let b = build(&c.entropy, &cfg(c));
    let prog = &b.prog;
    let text = prog.text();
    let a = match asm(prog) {
        Some(a) => a,
        None => {
            log.label("sut-panic");
            return Verdict::Pass;
        }
    };
    if a.pass_verdict != PassVerdict::Ended {
        log.label("pass-loop-not-ended");
        return Verdict::Pass;
    }
    let def_in_loop = has_def_in_loop(prog.main(), false);
    let feature = if def_in_loop { "|feature=definition_inside_loop_body" } else { "" };
    log.label_if(def_in_loop, "feature:definition_inside_loop_body");
    log.label(if a.ok() { "assembled" } else { "assembly-failed" });
    log.label_if(b.stats.loops > 0, "has-loop");
    log.label_if(b.stats.macro_calls > 0, "has-macro-call");
    log.label_if(b.stats.ifs > 0, "has-if");
    let call_in_loop = has_call_in_loop(prog.main(), false);
    let mut kinds_list = vec![
        Kinds { loops: true, ifs: false, macros: false, consts: false },
        Kinds { loops: false, ifs: true, macros: false, consts: false },
        Kinds { loops: false, ifs: false, macros: false, consts: true },
        Kinds::ALL,
    ];
    let _ = call_in_loop;
    kinds_list.push(Kinds { loops: false, ifs: false, macros: true, consts: false });
    let mut max_nesting = 0;
    let mut total_expanded = 0;
    for kinds in kinds_list {
        let (ep, expanded, nesting) = match expand(prog, kinds) {
            Some(x) => x,
            None => {
                log.label("not-expandable");
                continue;
            }
        };
        if expanded == 0 {
            continue;
        }
        total_expanded += expanded;
        max_nesting = max_nesting.max(nesting);
        let e = match asm(&ep) {
            Some(e) => e,
            None => continue,
        };
        if e.pass_verdict != PassVerdict::Ended {
            continue;
        }
        let detail = || {
            format!(
                "expansion of {}\nprogram P:\n{}\nexpand(P):\n{}\nP: diagnostics {:?} image {:02x?}\nexpand(P): diagnostics {:?} image {:02x?}",
                kinds.name(),
                text,
                ep.text(),
                a.all_diags().iter().map(|d| d.short()).collect::<Vec<_>>(),
                image_of(&a),
                e.all_diags().iter().map(|d| d.short()).collect::<Vec<_>>(),
                image_of(&e)
            )
        };
        if a.ok() != e.ok() {
            let k = if !a.ok() { "construct-rejected-but-expansion-assembles" } else { "construct-assembles-but-expansion-rejected" };
            return Verdict::fail(format!("{}{}", k, feature), detail());
        }
        if a.ok() && image_of(&a) != image_of(&e) {
            return Verdict::fail(format!("bytes-differ-from-expansion|{}{}", kinds.name(), feature), detail());
        }
        if a.ok() && kinds == Kinds::ALL {
            // tie the relation to an absolute meaning: the reference model accepts the expanded program's image
            match check_image_all(&ep, &e.segments(), 0x2000) {
                Ok(_) => log.label("expanded-image-checked"),
                Err(CheckErr::Unsupported(w)) => {
                    log.label("model-unsupported");
                    log.label(format!("unsupported:{}", w.chars().take(40).collect::<String>()));
                }
                Err(CheckErr::Mismatch { kind, detail: d }) => {
                    return Verdict::fail(format!("expanded-image-wrong|{}{}", kind, feature), format!("{}\n{}", detail(), d));
                }
            }
        }
    }
    log.label_if(total_expanded > 0, "expanded-something");
    log.label_if(max_nesting >= 2, "nesting>=2");
    log.nontrivial = a.ok() && total_expanded > 0 && (max_nesting >= 2 || b.stats.forward_refs > 0);
    // the unexpanded program against the reference model as well (loops/macros walked by the model)
    if a.ok() {
        match check_image_all(prog, &a.segments(), 0x2000) {
            Ok(_) => {}
            Err(CheckErr::Unsupported(_)) => log.label("model-unsupported-unexpanded"),
            Err(CheckErr::Mismatch { kind, detail }) => {
                return Verdict::fail(format!("image-wrong|{}{}", kind, feature), format!("{}\n{}", text, detail));
            }
        }
    }
    Verdict::Pass
}

pub fn to_json(c: &Case) -> serde_json::Value {
    let b = build(&c.entropy, &cfg(c));
    json!({"entropy": c.entropy, "defs_in_loop": c.defs_in_loop, "program": b.prog.text(), "expanded": expand(&b.prog, Kinds::ALL).map(|x| x.0.text())})
}

pub fn strategy(defs_in_loop: bool) -> impl Strategy<Value = Case> {
    proptest::collection::vec(any::<u32>(), 8..300).prop_map(move |entropy| Case { entropy, defs_in_loop })
}

pub fn run_check(ctx: &mut Ctx) {
    ctx.rule = "generator programs with .loop (count 0-4, `index` uses), .if/else on constant conditions, macros (0-2 parameters, invoked from anywhere incl. loops), pure constants, nested to depth 3, with outer and forward references in bodies; each program P is compared with expand_k(P) for k in {loops, ifs, macros, constants, all}: both assemble or both are rejected, and segment images are identical; expand_all(P) and P are additionally checked against the reference layout model. Two further campaigns build a program together with its hand expansion: projects of main.asm + lib.asm with one or two imports (`*`, `* as ns`, selected names with/without `as`, parameter blocks, at the top level or in a scope, uses before and after, private names of the imported file that coincide with names of the importing file, labelled blocks that refer to themselves, to private constants, macros and the parameters) against the imported text in a named scope at the import site; and macro invocations of which some sit in an `.if` on a label (the number of invocations differs between passes; macros with constants/parameters named like globals or like another macro's, `-`/`+` in bodies) against the bodies in braces. non-trivial = assembled, something expanded and (nesting >= 2 or a forward reference)".into();
    ctx.assumptions.push("model/expand.rs implements the documented meaning: loop body repeated in its own braces with index replaced, the selected branch inline, macro body in braces with parameters as constants, constants replaced by parenthesised values".into());
    let n = ctx.tier.pick(15_000, 400_000);
    ctx.campaign_parallel("no-definitions-in-loop-bodies", n, 16, || strategy(false), prop, to_json);
    let n2 = ctx.tier.pick(15_000, 400_000);
    ctx.campaign_parallel("with-definitions-in-loop-bodies", n2, 16, || strategy(true), prop, to_json);
    let total = ctx.evaluations.max(1);
    // programs that are built together with their hand expansion (imports; macro invocations that come and go between passes)
    let n3 = ctx.tier.pick(12_000, 300_000);
    ctx.campaign_parallel("imports", n3, 16, || crate::props::c07x::strategy(0), crate::props::c07x::prop, crate::props::c07x::to_json);
    let n4 = ctx.tier.pick(8_000, 200_000);
    ctx.campaign_parallel("macro-calls-under-label-conditions", n4, 16, || crate::props::c07x::strategy(1), crate::props::c07x::prop, crate::props::c07x::to_json);
    let xa = ctx.label_count("expansion-assembled");
    ctx.health(xa * 100 / ((n3 + n4) as u64).max(1) >= 80, format!("hand expansions that assemble: {} of {}", xa, n3 + n4));
    let k = ctx.label_count("nesting>=2");
    ctx.health(k * 100 / total >= 10, format!("nesting >= 2 in {}%", k * 100 / total));
    let e = ctx.label_count("expanded-something");
    ctx.health(e * 100 / total >= 50, format!("something expanded in {}%", e * 100 / total));
}

pub fn replay(ctx: &mut Ctx, case: &serde_json::Value) {
    if let Some(k) = case.get("x_kind").and_then(|k| k.as_u64()) {
        match serde_json::from_value::<Vec<u32>>(case["entropy"].clone()) {
            Ok(entropy) => {
                let c = crate::props::c07x::Case { kind: k as u8, entropy };
                ctx.replay_one(&c, crate::props::c07x::prop, case.clone());
            }
            Err(e) => ctx.health(false, format!("replay case does not deserialize: {}", e)),
        }
        return;
    }
    let c: Case = match serde_json::from_value(json!({"entropy": case["entropy"], "defs_in_loop": case["defs_in_loop"]})) {
        Ok(c) => c,
        Err(e) => {
            ctx.health(false, format!("replay case does not deserialize: {}", e));
            return;
        }
    };
    ctx.replay_one(&c, prop, case.clone());
}
