//! C11 — source map and listings are exact.

use crate::engine::{CaseLog, Ctx, Verdict};
use crate::gen::ast::*;
use crate::gen::build::{build, GenCfg};
use crate::model::layout::{check_image_all, CheckErr, ModelOut, Site, SiteKind};
use crate::sut::core::{assemble, guarded, AsmOptions, Assembled, PassVerdict};
use proptest::prelude::*;
use serde::{Deserialize, Serialize};
use serde_json::json;
use std::collections::BTreeMap;

#[derive(Clone, Debug, Hash, PartialEq, Eq, Serialize, Deserialize)]
pub struct Case {
    pub entropy: Vec<u32>,
    pub bytes_per_line: usize,
    /// macro attribution: false = definition site (debugging), true = invocation site (listing)
    pub move_macro: bool,
    /// finding features switched on
    pub features: Vec<String>,
    /// layout of the source text (empty: one statement per line, canonical spacing); with it, comments - also ones
    /// of several lines inside a statement -, blank lines and CRLF line ends
    #[serde(default)]
    pub trivia: Vec<u32>,
}

fn cfg(c: &Case) -> GenCfg {
    let has = |f: &str| c.features.iter().any(|x| x == f);
    let mut g = GenCfg::full();
    g.max_stmts = 36;
    g.constructs_boost = true;
    g.relocated = has("relocated_segment");
    g
}

/// The generated program; one case in four ends in a segment whose last byte lies at $FFFF (interrupt vectors: the
/// exclusive end of what it emits is $10000, one more than an address can be).
fn built(c: &Case) -> crate::gen::build::Built {
    use crate::gen::ast::{DataSize, Expr, Stmt};
    let mut b = build(&c.entropy, &cfg(c));
    let h = c.entropy.iter().fold(0u32, |a, s| a.rotate_left(7) ^ s);
    // (only where the program spells its segments out: without definitions it relies on the implicit default segment)
    let defines = b.prog.main().iter().any(|s| matches!(s, Stmt::DefineSegment { .. }));
    if h % 3 == 0 && defines {
        let n = 1 + ((h >> 8) % 6) as i64;
        let mut body = vec![];
        let mut left = n;
        while left > 0 {
            if left >= 2 && (h >> (left as u32)) & 1 == 0 {
                body.push(Stmt::Data { size: DataSize::Word, vals: vec![Expr::hex(0xc000 + left)] });
                left -= 2;
            } else {
                body.push(Stmt::Data { size: DataSize::Byte, vals: vec![Expr::num(left)] });
                left -= 1;
            }
        }
        let entry = b.prog.entry.clone();
        let main = b.prog.files.get_mut(&entry).unwrap();
        main.push(Stmt::DefineSegment { name: "zvec".into(), start: Some(Expr::hex(0x10000 - n)), pc: None, write: None, bank: None });
        main.push(Stmt::Segment { name: "zvec".into(), block: Some(body) });
    }
    b
}

#[derive(Clone, Debug)]
struct Entry {
    file: String,
    lo: usize,
    hi: usize,
    line: usize,
    pc_lo: usize,
    pc_hi: usize,
    segment: String,
}

fn entries(a: &Assembled) -> Vec<Entry> {
    let ctx = a.ctx.as_ref().unwrap();
    let tree = a.tree.as_ref().unwrap();
    ctx.source_map()
        .offsets()
        .iter()
        .map(|o| {
            let sl = tree.code_map.look_up_span(o.span);
            let base = sl.file.span.low().as_usize();
            Entry {
                file: sl.file.name().to_string(),
                lo: o.span.low().as_usize() - base,
                hi: o.span.high().as_usize() - base,
                line: sl.begin.line + 1,
                pc_lo: o.pc.start,
                pc_hi: o.pc.end,
                segment: o.segment.to_string(),
            }
        })
        .collect()
}

/// expected source range (file, lo, hi) of a site under the given attribution mode
fn expected_range(site: &Site, rs: &BTreeMap<String, Rendered>, move_macro: bool) -> Option<(String, usize, usize)> {
    let (file, stmt, vi) = if move_macro && !site.via.is_empty() {
        // the outermost... the innermost invocation that is not itself inside a macro body: entries are moved to the
        // invocation site of every enclosing call, ending at the outermost one
        let (f, s) = site.via.first().unwrap().clone();
        (f, s, usize::MAX)
    } else {
        (site.file.clone(), site.stmt, site.value_idx)
    };
    let r = rs.get(&file)?;
    if vi != usize::MAX {
        match &site.kind {
            SiteKind::Data { .. } | SiteKind::Text { .. } => {
                if let Some(m) = r.marks.iter().find(|m| m.kind == MarkKind::Value(stmt, vi)) {
                    return Some((file, m.start, m.end));
                }
            }
            _ => {}
        }
    }
    r.stmt_span(stmt).map(|(a, b)| (file, a, b))
}

fn overlapping_targets(m: &ModelOut) -> bool {
    let mut v: Vec<(i64, i64)> = m.sites.iter().filter(|s| s.len > 0).map(|s| (s.pc, s.pc + s.len as i64)).collect();
    v.sort();
    v.windows(2).any(|w| w[1].0 < w[0].1)
}

#[derive(Debug)]
struct Row {
    line: usize,
    addr: Option<usize>,
    bytes: Vec<u8>,
    source: Option<String>,
}

fn parse_listing(text: &str, n: usize) -> Result<Vec<Row>, String> {
    let mut rows = vec![];
    for l in text.lines() {
        if l.len() < 5 {
            return Err(format!("short row {:?}", l));
        }
        let line: usize = l[..5].trim().parse().map_err(|_| format!("no line number in {:?}", l))?;
        let rest = if l.len() > 6 { &l[6..] } else { "" };
        // address column: 5 chars ("XXXX:" or blanks)
        let (addr, rest2) = if rest.len() >= 5 && rest.as_bytes()[4] == b':' && rest[..4].chars().all(|c| c.is_ascii_hexdigit()) {
            (Some(usize::from_str_radix(&rest[..4], 16).unwrap()), if rest.len() > 6 { &rest[6..] } else { "" })
        } else if rest.len() >= 5 && rest[..5].trim().is_empty() {
            (None, if rest.len() > 6 { &rest[6..] } else { "" })
        } else if rest.trim().is_empty() {
            (None, "")
        } else {
            return Err(format!("bad address column in {:?}", l));
        };
        let width = n * 3;
        let (bytes_col, source) = if rest2.len() > width { (&rest2[..width], Some(rest2[(width + 1).min(rest2.len())..].to_string())) } else { (rest2, None) };
        let mut bytes = vec![];
        for t in bytes_col.split_whitespace() {
            bytes.push(u8::from_str_radix(t, 16).map_err(|_| format!("bad byte {:?} in {:?}", t, l))?);
        }
        if addr.is_none() && !bytes.is_empty() {
            return Err(format!("bytes without address in {:?}", l));
        }
        rows.push(Row { line, addr, bytes, source });
    }
    Ok(rows)
}

pub fn prop(c: &Case, log: &mut CaseLog) -> Verdict {
    let b = built(c);
    let (proj, rs) = if c.trivia.is_empty() {
        b.prog.render()
    } else {
        let mut f = crate::gen::trivia::RandFiller::new(&c.trivia, crate::gen::trivia::TriviaCfg { multiline_block_comment: true, case_flips: false, ..crate::gen::trivia::TriviaCfg::clean() });
        b.prog.render_with(&mut f)
    };
    log.label_if(!c.trivia.is_empty(), "free-layout");
    log.label_if(b.prog.main().iter().any(|s| matches!(s, crate::gen::ast::Stmt::DefineSegment { name, .. } if name == "zvec")), "ends-at-top-of-memory");
    let text = proj.main_text().to_string();
    let opts = AsmOptions { move_macro: c.move_macro, ..AsmOptions::default() };
    let a = match guarded(|| assemble(&proj, opts)) {
        Ok(a) => a,
        Err(_) => {
            log.label("sut-panic");
            return Verdict::Pass;
        }
    };
    if a.pass_verdict != PassVerdict::Ended || !a.ok() {
        log.label("not-assembled");
        return Verdict::Discard("does not assemble".into());
    }
    let m = match check_image_all(&b.prog, &a.segments(), 0x2000) {
        Ok(m) => m,
        Err(CheckErr::Unsupported(_)) => {
            log.label("model-unsupported");
            return Verdict::Pass;
        }
        Err(CheckErr::Mismatch { .. }) => {
            // a wrong image is C02's finding
            log.label("image-mismatch");
            return Verdict::Pass;
        }
    };
    log.label_if(b.stats.relocated > 0, "relocated");
    log.label_if(b.stats.loops > 0, "loop");
    log.label_if(b.stats.macro_calls > 1, "macro-invoked>1");
    log.label_if(b.stats.segments > 0, "multi-segment");
    log.label(format!("bytes-per-line:{}", c.bytes_per_line));
    log.label(if c.move_macro { "attribution:invocation" } else { "attribution:definition" });
    log.nontrivial = b.stats.loops > 0 || b.stats.macro_calls > 0 || b.stats.segments > 0;
    let feat = |k: &str| {
        let mut s = k.to_string();
        if b.stats.relocated > 0 {
            s.push_str("|feature=relocated_segment");
        }
        s
    };

    // ---- (i)+(ii) source map entries vs model sites
    let es = entries(&a);
    let sites: Vec<&Site> = m.sites.iter().filter(|s| s.len > 0).collect();
    let mut want: Vec<(String, usize, usize)> = sites.iter().map(|s| (m.segs[s.seg].name.clone(), s.pc as usize, s.pc as usize + s.len)).collect();
    let mut got: Vec<(String, usize, usize)> = es.iter().filter(|e| e.pc_hi > e.pc_lo).map(|e| (e.segment.clone(), e.pc_lo, e.pc_hi)).collect();
    want.sort();
    got.sort();
    if want != got {
        let missing: Vec<_> = want.iter().filter(|w| !got.contains(w)).take(5).collect();
        let extra: Vec<_> = got.iter().filter(|g| !want.contains(g)).take(5).collect();
        return Verdict::fail(
            feat("source-map-address-ranges-differ"),
            format!("{}\nmodel emits {} ranges, source map has {}\nmissing (first 5): {:x?}\nunexpected (first 5): {:x?}", text, want.len(), got.len(), missing, extra),
        );
    }
    for s in &sites {
        let (file, lo, hi) = match expected_range(s, &rs, c.move_macro) {
            Some(x) => x,
            None => continue,
        };
        let mut ok = es.iter().any(|e| e.pc_lo == s.pc as usize && e.pc_hi == s.pc as usize + s.len && e.segment == m.segs[s.seg].name && e.file == file && e.lo >= lo && e.hi <= hi);
        if !ok && c.move_macro && !s.via.is_empty() {
            // bytes emitted in a nested scope of a macro body (a loop or braces inside the macro) stay attributed to the
            // statement that emitted them; an enclosing invocation is accepted as well: all are "the statement that
            // emitted it" in some reading of the listing mode
            let mut cands: Vec<(String, usize, usize)> = vec![];
            if let Some(r) = rs.get(&s.file) {
                if let Some((a, b)) = r.stmt_span(s.stmt) {
                    cands.push((s.file.clone(), a, b));
                }
            }
            for (f, st) in &s.via {
                if let Some(r) = rs.get(f) {
                    if let Some((a, b)) = r.stmt_span(*st) {
                        cands.push((f.clone(), a, b));
                    }
                }
            }
            ok = es.iter().any(|e| e.pc_lo == s.pc as usize && e.pc_hi == s.pc as usize + s.len && e.segment == m.segs[s.seg].name && cands.iter().any(|(f, a, b)| &e.file == f && e.lo >= *a && e.hi <= *b));
        }
        if !ok {
            let near: Vec<&Entry> = es.iter().filter(|e| e.pc_lo == s.pc as usize).collect();
            return Verdict::fail(
                feat(if c.move_macro && !s.via.is_empty() { "source-map-span-outside-invocation" } else { "source-map-span-outside-statement" }),
                format!(
                    "{}\nbytes at ${:04x}..${:04x} were emitted by statement {} of {} (source bytes {}..{}: {:?}), source map says {:?}",
                    text,
                    s.pc,
                    s.pc + s.len as i64,
                    s.stmt,
                    file,
                    lo,
                    hi,
                    rs.get(&file).map(|r| &r.text[lo..hi]),
                    near
                ),
            );
        }
    }
    // ---- (iii) address lookup
    let overlap = overlapping_targets(&m);
    log.label_if(overlap, "overlapping-target-ranges");
    if !overlap {
        let ctx = a.ctx.as_ref().unwrap();
        let tree = a.tree.as_ref().unwrap();
        for s in &sites {
            for addr in [s.pc as usize, s.pc as usize + s.len - 1] {
                match ctx.source_map().address_to_offset(addr) {
                    Some(o) => {
                        if o.pc.start != s.pc as usize || o.pc.end != s.pc as usize + s.len {
                            return Verdict::fail(feat("address-lookup-wrong-entry"), format!("{}\naddress ${:04x}: entry {:x?}, expected ${:04x}+{}", text, addr, o.pc, s.pc, s.len));
                        }
                        let _ = tree;
                    }
                    None => return Verdict::fail(feat("address-lookup-missing"), format!("{}\naddress ${:04x} has no source map entry", text, addr)),
                }
            }
        }
    }
    // ---- (iv) listing
    let n = c.bytes_per_line;
    let listing = match guarded(|| crate::sut::core::listing(a.ctx.as_ref().unwrap(), n)) {
        Ok(l) => l,
        Err(pn) => return Verdict::fail(feat(&format!("listing-{}", pn.signature())), text),
    };
    // bytes by target address (only meaningful without overlap)
    // several segments may run at the same addresses: a row's byte must be one of the bytes stored for that address
    let mut by_addr: BTreeMap<usize, Vec<u8>> = BTreeMap::new();
    for s in &sites {
        for (i, bt) in s.bytes.iter().enumerate() {
            by_addr.entry(s.pc as usize + i).or_default().push(*bt);
        }
    }
    let mut listed_total = 0usize;
    for (file, ltext) in &listing {
        let src = match proj.files.get(file) {
            Some(s) => s,
            None => return Verdict::fail(feat("listing-for-unknown-file"), format!("{}\nlisting file {:?}", text, file)),
        };
        let rows = match parse_listing(ltext, n) {
            Ok(r) => r,
            Err(e) => return Verdict::fail(feat("listing-row-malformed"), format!("{}\n{}\nlisting:\n{}", text, e, ltext)),
        };
        // every source line exactly once, in order (trailing empty lines may be trimmed)
        let src_lines: Vec<&str> = src.lines().collect();
        let mut seen_line = 0usize;
        let mut per_line: BTreeMap<usize, Vec<u8>> = BTreeMap::new();
        for r in &rows {
            if r.line != seen_line && r.line != seen_line + 1 {
                return Verdict::fail(feat("listing-lines-out-of-order"), format!("{}\nrow for line {} after line {}\nlisting:\n{}", text, r.line, seen_line, ltext));
            }
            let first_row_of_line = r.line == seen_line + 1;
            seen_line = r.line;
            if first_row_of_line {
                let want_src = src_lines.get(r.line - 1).copied().unwrap_or("");
                let got_src = r.source.clone().unwrap_or_default();
                if got_src.trim_end() != want_src.trim_end() {
                    return Verdict::fail(feat("listing-source-text-differs"), format!("{}\nline {}: listing shows {:?}, source is {:?}\nlisting:\n{}", text, r.line, got_src, want_src, ltext));
                }
            } else if r.source.as_deref().map(|s| !s.trim().is_empty()).unwrap_or(false) {
                return Verdict::fail(feat("listing-source-line-repeated"), format!("{}\nline {} shown twice\nlisting:\n{}", text, r.line, ltext));
            }
            if let Some(addr) = r.addr {
                if r.bytes.is_empty() || r.bytes.len() > n {
                    return Verdict::fail(feat("listing-row-byte-count"), format!("{}\nrow {:?}", text, r));
                }
                {
                    for (i, bt) in r.bytes.iter().enumerate() {
                        if !by_addr.get(&(addr + i)).map(|v| v.contains(bt)).unwrap_or(false) {
                            return Verdict::fail(
                                feat("listing-row-bytes-not-at-row-address"),
                                format!("{}\nfile {} line {}: row address ${:04x} shows byte {} = ${:02x}, image has {:02x?} at ${:04x}\nlisting:\n{}", text, file, r.line, addr, i, bt, by_addr.get(&(addr + i)), addr + i, ltext),
                            );
                        }
                    }
                }
                per_line.entry(r.line).or_default().extend(r.bytes.iter());
                listed_total += r.bytes.len();
            }
        }
        let last_nonempty = src_lines.iter().rposition(|l| !l.trim().is_empty()).map(|i| i + 1).unwrap_or(0);
        if seen_line < last_nonempty {
            return Verdict::fail(feat("listing-lines-missing"), format!("{}\nfile {}: listing ends at line {}, source has {} lines\nlisting:\n{}", text, file, seen_line, last_nonempty, ltext));
        }
        // bytes per line in emission order
        let r = &rs[file];
        let mut want_per_line: BTreeMap<usize, Vec<u8>> = BTreeMap::new();
        let _ = r;
        for s in &sites {
            // which line the bytes are attributed to is taken from the (already validated) source map entry
            let e = es.iter().find(|e| e.pc_lo == s.pc as usize && e.pc_hi == s.pc as usize + s.len && e.segment == m.segs[s.seg].name);
            if let Some(e) = e {
                if &e.file == file {
                    want_per_line.entry(e.line).or_default().extend(s.bytes.iter());
                }
            }
        }
        if per_line != want_per_line {
            let bad = want_per_line.iter().find(|(l, b)| per_line.get(l) != Some(b)).map(|(l, b)| (*l, b.clone(), per_line.get(l).cloned()));
            let extra = per_line.iter().find(|(l, _)| !want_per_line.contains_key(l)).map(|(l, b)| (*l, b.clone()));
            return Verdict::fail(
                feat("listing-line-bytes-differ"),
                format!("{}\nfile {}: (line, emitted, listed) = {:02x?}; listed for a line that emits nothing: {:02x?}\nlisting:\n{}", text, file, bad, extra, ltext),
            );
        }
    }
    let emitted_total: usize = sites.iter().map(|s| s.len).sum();
    if listed_total != emitted_total {
        return Verdict::fail(feat("listing-byte-total-differs"), format!("{}\n{} bytes emitted, {} listed", text, emitted_total, listed_total));
    }
    Verdict::Pass
}

pub fn to_json(c: &Case) -> serde_json::Value {
    let b = built(c);
    json!({"entropy": c.entropy, "bytes_per_line": c.bytes_per_line, "move_macro": c.move_macro, "features": c.features, "trivia": c.trivia, "program": b.prog.text()})
}

pub fn strategy(features: Vec<String>) -> impl Strategy<Value = Case> {
    (proptest::collection::vec(any::<u32>(), 8..300), 1usize..=16, any::<bool>(), proptest::option::weighted(0.4, proptest::collection::vec(any::<u32>(), 4..60)))
        .prop_map(move |(entropy, bytes_per_line, move_macro, trivia)| Case { entropy, bytes_per_line, move_macro, features: features.clone(), trivia: trivia.unwrap_or_default() })
}

pub fn run_check(ctx: &mut Ctx) {
    ctx.rule = "generator programs that assemble (multi-segment, loops, macros invoked several times, nested scopes, data/text/align) x listing bytes-per-line 1..16 x macro attribution mode x layout (40%: comments - also of several lines inside a statement -, blank lines, CRLF); oracle: reference layout walk gives (statement, value) -> target address range; source-map ranges must equal the model's, every entry's span must lie inside the emitting statement (or the outermost invocation in listing mode), address lookup must return that entry, and the listing text parsed back must show every line once in order with rows whose bytes are the image bytes at the row address, per-line bytes in emission order and every emitted byte exactly once. non-trivial = program with a loop, macro call or several segments".into();
    let n = ctx.tier.pick(30_000, 600_000);
    ctx.campaign_parallel("without-relocated-segments", n, 16, || strategy(vec![]), prop, to_json);
    let n2 = ctx.tier.pick(30_000, 600_000);
    ctx.campaign_parallel("with-relocated-segments", n2, 16, || strategy(vec!["relocated_segment".to_string()]), prop, to_json);
    let total = ctx.evaluations.max(1);
    let k = ctx.label_count("ends-at-top-of-memory");
    ctx.health(total < 1000 || k * 100 / total >= 3, format!("programs that emit up to $FFFF: {}%", k * 100 / total));
}

pub fn replay(ctx: &mut Ctx, case: &serde_json::Value) {
    let c: Case = match serde_json::from_value(json!({"entropy": case["entropy"], "bytes_per_line": case["bytes_per_line"], "move_macro": case["move_macro"], "features": case["features"], "trivia": case.get("trivia").cloned().unwrap_or(json!([]))})) {
        Ok(c) => c,
        Err(e) => {
            ctx.health(false, format!("replay case does not deserialize: {}", e));
            return;
        }
    };
    ctx.replay_one(&c, prop, case.clone());
}
