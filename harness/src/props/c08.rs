//! C08 — layout of the source text does not change its meaning.

use crate::engine::{CaseLog, Ctx, Verdict};
use crate::gen::build::{build, GenCfg};
use crate::gen::trivia::{RandFiller, TriviaCfg};
use crate::sut::core::{assemble, guarded, AsmOptions, PassVerdict, Project};
use proptest::prelude::*;
use serde::{Deserialize, Serialize};
use serde_json::json;
use std::collections::BTreeSet;

#[derive(Clone, Debug, Hash, PartialEq, Eq, Serialize, Deserialize)]
pub struct Case {
    pub entropy: Vec<u32>,
    pub trivia: Vec<u32>,
    pub features: Vec<String>,
}

fn cfg(features: &[String]) -> TriviaCfg {
    let has = |f: &str| features.iter().any(|x| x == f);
    TriviaCfg {
        vary: 45,
        multiline_block_comment: true,
        non_ascii: true,
        uppercase_true: true,
        empty_line_comment: has("empty_line_comment"),
        ..TriviaCfg::clean()
    }
}

pub struct Variant {
    pub original: Project,
    pub variant: Project,
    pub slots_changed: usize,
    pub comments: usize,
    pub case_flips: usize,
    pub crlf: bool,
    pub features: BTreeSet<String>,
}

pub fn variants(c: &Case) -> Variant {
    let mut g = GenCfg::full();
    g.max_stmts = 40;
    // (feature "source:imports": a project of two files with imports of every form, see c07x)
    let prog = if c.features.iter().any(|f| f == "source:imports") { crate::props::c07x::import_pair(&c.entropy).original } else if c.features.iter().any(|f| f == "source:type-errors") { crate::props::c07x::type_error_program(&c.entropy) } else { build(&c.entropy, &g).prog };
    let (original, _) = prog.render();
    let mut f = RandFiller::new(&c.trivia, cfg(&c.features));
    let (variant, _) = prog.render_with(&mut f);
    Variant { original, variant, slots_changed: f.slots_changed, comments: f.comments, case_flips: f.case_flips, crlf: f.used_crlf, features: f.features.clone() }
}

type Summary = (Vec<(String, usize, Vec<u8>)>, Vec<(String, String)>, Vec<String>, bool);

fn summary(p: &Project) -> Result<Summary, crate::sut::core::PanicInfo> {
    guarded(|| {
        let a = assemble(p, AsmOptions::default());
        let segs = a.segments().into_iter().map(|s| (s.name, s.start, s.data)).collect();
        let syms = a.symbols().into_iter().map(|(k, v)| (k, format!("{:?}", v))).collect();
        let mut msgs: Vec<String> = a.all_diags().into_iter().map(|d| d.msg).collect();
        msgs.sort();
        (segs, syms, msgs, a.pass_verdict == PassVerdict::Ended)
    })
}

pub fn prop(c: &Case, log: &mut CaseLog) -> Verdict {
    let v = variants(c);
    log.label_if(v.slots_changed >= 3, "slots>=3");
    log.label_if(v.comments > 0, "has-comment");
    log.label_if(v.case_flips > 0, "case-flip");
    log.label_if(v.crlf, "crlf");
    log.label_if(v.features.contains("uppercase_true"), "bool-case-flip");
    let vt: String = v.variant.files.values().cloned().collect::<Vec<_>>().join("\n");
    log.label_if(["TrUe", "FaLsE"].iter().any(|w| vt.contains(w)), "bool-mixed-case");
    log.nontrivial = v.slots_changed >= 3 && (v.comments > 0 || v.case_flips > 0);
    let relevant: BTreeSet<String> = v.features.iter().filter(|f| matches!(f.as_str(), "empty_line_comment")).cloned().collect();
    let mut sig = |k: &str| {
        let mut s = k.to_string();
        for f in &relevant {
            s = format!("{}|feature={}", s, f);
        }
        s
    };
    let a = match summary(&v.original) {
        Ok(a) => a,
        Err(_) => {
            log.label("sut-panic-original");
            return Verdict::Pass;
        }
    };
    let b = match summary(&v.variant) {
        Ok(b) => b,
        Err(pn) => return Verdict::fail(sig(&format!("variant-{}", pn.signature())), format!("original:\n{}\nvariant:\n{}\n{:?}", v.original.main_text(), v.variant.main_text(), pn)),
    };
    if !a.3 || !b.3 {
        log.label("pass-loop-not-ended");
        return Verdict::Pass;
    }
    log.label(if a.2.is_empty() { "original-assembles" } else { "original-has-diagnostics" });
    let what = if a.2 != b.2 {
        Some("diagnostics-differ")
    } else if a.0 != b.0 {
        Some("bytes-differ")
    } else if a.1 != b.1 {
        Some("symbols-differ")
    } else {
        None
    };
    match what {
        None => Verdict::Pass,
        Some(k) => Verdict::fail(
            sig(k),
            format!(
                "original:\n{}\nvariant:\n{:?}\n\noriginal diagnostics {:?}\nvariant  diagnostics {:?}\noriginal bytes {:02x?}\nvariant  bytes {:02x?}",
                v.original.main_text(),
                v.variant.main_text(),
                a.2,
                b.2,
                a.0,
                b.0
            ),
        ),
    }
}

pub fn to_json(c: &Case) -> serde_json::Value {
    let v = variants(c);
    json!({"entropy": c.entropy, "trivia": c.trivia, "features": c.features, "original": v.original.main_text(), "variant": v.variant.main_text()})
}

pub fn strategy(features: Vec<String>) -> impl Strategy<Value = Case> {
    (proptest::collection::vec(any::<u32>(), 8..260), proptest::collection::vec(any::<u32>(), 4..300)).prop_map(move |(entropy, trivia)| Case { entropy, trivia, features: features.clone() })
}

pub fn run_check(ctx: &mut Ctx) {
    ctx.rule = "generator programs (whole statement grammar; and two-file projects with imports of every form) rendered canonically and with random trivia in every slot the grammar allows (spaces, tabs, block/line/nested/multi-line/non-ASCII comments with code-like text, blank lines), CRLF line ends and case flips of mnemonics, directives, registers, hex digits, as/from/else, encodings, true/false. oracle: segment bytes, symbol table (path, value, type) and sorted diagnostic messages of variant == original. non-trivial = >= 3 slots changed incl. a comment or a case flip".into();
    let n = ctx.tier.pick(40_000, 1_000_000);
    ctx.campaign_parallel("clean-domain", n, 16, || strategy(vec![]), prop, to_json);
    let n3 = ctx.tier.pick(8000, 150_000);
    ctx.campaign_parallel("imports", n3, 16, || strategy(vec!["source:imports".to_string()]), prop, to_json);
    // programs whose diagnostics quote an expression: the quotation must not depend on the layout either
    let n4 = ctx.tier.pick(4000, 60_000);
    ctx.campaign_parallel("type-errors", n4, 16, || strategy(vec!["source:type-errors".to_string()]), prop, to_json);
    let n2 = ctx.tier.pick(1500, 20_000);
    ctx.campaign_parallel("feature:empty_line_comment", n2, 8, || strategy(vec!["empty_line_comment".to_string()]), prop, to_json);
    let total = ctx.evaluations.max(1);
    let k = ctx.label_count("slots>=3");
    ctx.health(k * 100 / total >= 50, format!(">=3 slots changed in {}%", k * 100 / total));
    let b = ctx.label_count("bool-mixed-case");
    ctx.health(total < 5000 || b * 1000 / total >= 1, format!("mixed-case true/false in {} of {} cases", b, total));
}

pub fn replay(ctx: &mut Ctx, case: &serde_json::Value) {
    let c: Case = match serde_json::from_value(json!({"entropy": case["entropy"], "trivia": case["trivia"], "features": case["features"]})) {
        Ok(c) => c,
        Err(e) => {
            ctx.health(false, format!("replay case does not deserialize: {}", e));
            return;
        }
    };
    ctx.replay_one(&c, prop, case.clone());
}
