//! C15 — rename is behaviour-preserving and complete.

use crate::engine::{CaseLog, Ctx, Verdict};
use crate::gen::binding::DefKind;
use crate::props::c16::{prepare, Prepared};
use crate::props::c17::{drop_server, with_server};
use crate::sut::cli::have_mos;
use crate::sut::core::{assemble, guarded, AsmOptions, Project};
use crate::sut::lsp::{apply_edits, file_uri, LspErr};
use proptest::prelude::*;
use serde::{Deserialize, Serialize};
use serde_json::{json, Value};
use std::collections::BTreeSet;
use std::time::Duration;

#[derive(Clone, Debug, Hash, PartialEq, Eq, Serialize, Deserialize)]
pub struct Case {
    pub entropy: Vec<u32>,
    /// which occurrence to rename at (selector)
    pub sel: u32,
}

type Rng = ((u64, u64), (u64, u64));

fn summary(text: &str) -> Option<(Vec<(String, usize, Vec<u8>)>, Vec<String>)> {
    let p = Project::single(text);
    guarded(|| {
        let a = assemble(&p, AsmOptions::default());
        let segs = a.segments().into_iter().map(|s| (s.name, s.start, s.data)).collect();
        let mut msgs: Vec<String> = a.all_diags().into_iter().map(|d| d.msg).collect();
        msgs.sort();
        (segs, msgs)
    })
    .ok()
}

fn is_dead(p: &Prepared, off: usize) -> bool {
    p.dead.iter().any(|(a, b)| off >= *a && off < *b)
}

pub fn prop(c: &Case, log: &mut CaseLog) -> Verdict {
    let p = match prepare(&c.entropy) {
        Some(p) => p,
        None => return Verdict::Discard("program does not assemble / not modelled".into()),
    };
    let r = &p.rendered;
    let text = p.text.clone();
    // candidate occurrences: (byte range, def id)
    let mut occ: Vec<((usize, usize), usize)> = vec![];
    for d in &p.bindings.defs {
        if let Some(rg) = d.range {
            if !is_dead(&p, rg.0) {
                occ.push((rg, d.id));
            }
        }
    }
    for u in &p.bindings.uses {
        for (rg, def) in &u.comps {
            if let Some(d) = def {
                if !is_dead(&p, rg.0) && p.bindings.defs[*d].range.is_some() {
                    occ.push((*rg, *d));
                }
            }
        }
    }
    if occ.is_empty() {
        return Verdict::Discard("no identifier occurrence".into());
    }
    let ((oa, ob), did) = occ[((c.sel as u64 * occ.len() as u64) >> 32) as usize];
    let d = &p.bindings.defs[did];
    let drange = d.range.unwrap();
    log.label(format!("kind:{:?}", d.kind));
    log.label(if (oa, ob) == drange { "at:definition" } else { "at:use" });
    let to_rng = |a: usize, b: usize| -> Rng {
        let (l1, c1) = r.line_col16(a);
        let (l2, c2) = r.line_col16(b);
        ((l1 as u64 - 1, c1 as u64 - 1), (l2 as u64 - 1, c2 as u64 - 1))
    };
    // expected edit set: the definition and every use component bound to it; uses in dead code are optional
    let mut must: BTreeSet<Rng> = BTreeSet::new();
    let mut may: BTreeSet<Rng> = BTreeSet::new();
    if is_dead(&p, drange.0) {
        may.insert(to_rng(drange.0, drange.1));
    } else {
        must.insert(to_rng(drange.0, drange.1));
    }
    for u in &p.bindings.uses {
        for ((a, b), def) in &u.comps {
            if *def == Some(did) {
                if is_dead(&p, *a) {
                    may.insert(to_rng(*a, *b));
                } else {
                    must.insert(to_rng(*a, *b));
                }
            }
        }
    }
    log.nontrivial = must.len() >= 2;
    log.label_if(must.len() >= 3, "occurrences>=3");
    log.label_if(p.features.contains("shadowing_definition_at_the_zero_page_boundary"), "shadowing-definition-at-zp-boundary");
    log.label_if(p.features.contains("forward_ref_to_shadowing_definition"), "forward-ref-to-shadowing-definition");
    log.label_if(p.features.contains("comments_between_tokens"), "comments-between-tokens");
    log.label_if(p.features.contains("characters_of_two_utf16_units"), "characters-of-two-utf16-units");
    {
        // an occurrence of the renamed symbol inside a test
        let tests: Vec<(usize, usize)> = text.match_indices(".test ").map(|(i, _)| (i, text[i..].find("\n}").map(|e| i + e).unwrap_or(text.len()))).collect();
        let in_test = p.bindings.uses.iter().any(|u| u.comps.iter().any(|((a, _), def)| *def == Some(did) && tests.iter().any(|(x, y)| a > x && a < y)));
        log.label_if(in_test, "occurrence-in-test");
    }
    let new_name = "zzrenamed9";
    let old_name = d.name.clone();
    let t = Duration::from_secs(20);
    let before = summary(&text);
    let res = with_server(|s| -> Result<Verdict, LspErr> {
        let uri = file_uri(&s.scratch.dir, "main.asm");
        s.version += 1;
        if !s.opened {
            s.client.did_open(&uri, &text);
            s.opened = true;
        } else {
            s.client.did_change(&uri, &text, s.version);
        }
        let (l, col) = r.line_col16(oa + (ob - oa) / 2);
        let pos = json!({"line": l - 1, "character": col - 1});
        let prep = s.client.request("textDocument/prepareRename", json!({"textDocument": {"uri": uri}, "position": pos}), t)?;
        if prep.is_null() {
            return Ok(Verdict::Discard("server offers no rename here".into()));
        }
        let resp = s.client.request("textDocument/rename", json!({"textDocument": {"uri": uri}, "position": pos, "newName": new_name}), t)?;
        // the rename request must not leave traces in the server: re-send the buffer so later cases start clean
        s.version += 1;
        s.client.did_change(&uri, &text, s.version);
        let changes = &resp["changes"];
        let edits: Vec<Value> = changes.as_object().map(|m| m.values().flat_map(|v| v.as_array().cloned().unwrap_or_default()).collect()).unwrap_or_default();
        if resp.is_null() || edits.is_empty() {
            return Ok(Verdict::fail("rename-offered-but-no-edit", format!("{}\nrename of `{}` at {}:{}: {}", text, old_name, l, col, resp)));
        }
        if changes.as_object().map(|m| m.keys().any(|k| k != &uri)).unwrap_or(false) {
            return Ok(Verdict::fail("edit-for-unknown-document", format!("{}\n{}", text, resp)));
        }
        let got: BTreeSet<Rng> = edits
            .iter()
            .filter_map(|e| {
                let rg = &e["range"];
                Some(((rg["start"]["line"].as_u64()?, rg["start"]["character"].as_u64()?), (rg["end"]["line"].as_u64()?, rg["end"]["character"].as_u64()?)))
            })
            .collect();
        let missing: Vec<&Rng> = must.difference(&got).collect();
        // (edits inside code that is never emitted - an uninvoked macro is analysed once, without a second look at forward
        // references - are not judged)
        let dead_occ: BTreeSet<Rng> = p
            .bindings
            .uses
            .iter()
            .flat_map(|u| u.comps.iter().map(|((x, y), _)| (*x, *y)).collect::<Vec<_>>())
            .chain(p.bindings.defs.iter().filter_map(|d| d.range))
            .filter(|(x, _)| is_dead(&p, *x))
            .map(|(x, y)| to_rng(x, y))
            .collect();
        let extra: Vec<&Rng> = got.iter().filter(|g| !must.contains(g) && !may.contains(g) && !dead_occ.contains(g)).collect();
        let kind_tag = match d.kind {
            DefKind::Param => "|macro-parameter",
            DefKind::Macro => "|macro-name",
            _ => "",
        };
        let describe = |what: &str| format!("{}\n{}\nrename of `{}` ({:?}) requested at {}:{} -> `{}`\nedits: {}\nexpected ranges {:?} (optional {:?})", what, text, old_name, d.kind, l, col, new_name, serde_json::to_string(&edits).unwrap(), must, may);
        if !extra.is_empty() {
            // what text do the extra edits cover?
            let covers_super = extra.iter().any(|g| {
                let line = text.lines().nth(g.0 .0 as usize).unwrap_or("");
                line.get(g.0 .1 as usize..g.1 .1 as usize) == Some("super")
            });
            let k = if covers_super { "edit-renames-super-keyword" } else { "edit-outside-the-symbol's-occurrences" };
            return Ok(Verdict::fail(format!("{}{}", k, kind_tag), describe(&format!("unexpected edit ranges {:?}", extra))));
        }
        if !missing.is_empty() {
            return Ok(Verdict::fail(format!("occurrence-not-renamed{}", kind_tag), describe(&format!("missing edit ranges {:?}", missing))));
        }
        let renamed = match apply_edits(&text, &edits) {
            Some(t) => t,
            None => return Ok(Verdict::fail(format!("edits-overlap-or-out-of-range{}", kind_tag), describe("edits cannot be applied"))),
        };
        let after = summary(&renamed);
        if before != after {
            // The edit is exactly the set of occurrences that the binding model expects (checked above), so the renamed
            // text is an alpha-conversion of the original one. When the name is also defined in another scope and one of
            // the equally named definitions is referred to before it is defined, the first pass of the assembler binds
            // that reference by name to whatever is defined so far, which the rename changes: where an instruction
            // straddles the zero page boundary the passes then settle on another (equally consistent) layout.
            let same_name: Vec<usize> = p.bindings.defs.iter().filter(|x| x.name == old_name && x.range.is_some()).map(|x| x.id).collect();
            let forward_to_shadow = same_name.len() >= 2
                && p.bindings.uses.iter().any(|u| {
                    u.comps.iter().any(|((a, _), def)| match def {
                        Some(x) if same_name.contains(x) => p.bindings.defs[*x].range.map(|(da, _)| *a < da).unwrap_or(false),
                        _ => false,
                    })
                });
            let layout_tag = if forward_to_shadow { "|forward-reference-to-a-shadowing-definition" } else { "" };
            return Ok(Verdict::fail(
                format!("renamed-project-builds-differently{}{}", kind_tag, layout_tag),
                describe(&format!("renamed text:\n{}\nbefore: {:?}\nafter: {:?}", renamed, before.as_ref().map(|b| &b.1), after.as_ref().map(|b| &b.1))),
            ));
        }
        // rename back
        s.version += 1;
        s.client.did_change(&uri, &renamed, s.version);
        // position of the definition in the renamed text: same line; column shifted by earlier edits on that line
        let def_rng = to_rng(drange.0, drange.1);
        let shift: i64 = edits
            .iter()
            .filter_map(|e| {
                let rg = &e["range"];
                let el = rg["start"]["line"].as_u64()?;
                let ec = rg["start"]["character"].as_u64()?;
                let ee = rg["end"]["character"].as_u64()?;
                if el == def_rng.0 .0 && ec < def_rng.0 .1 {
                    Some(e["newText"].as_str()?.len() as i64 - (ee - ec) as i64)
                } else {
                    None
                }
            })
            .sum();
        let back_pos = json!({"line": def_rng.0 .0, "character": (def_rng.0 .1 as i64 + shift + 1) as u64});
        let resp2 = s.client.request("textDocument/rename", json!({"textDocument": {"uri": uri}, "position": back_pos, "newName": old_name}), t)?;
        s.version += 1;
        s.client.did_change(&uri, &text, s.version);
        let edits2: Vec<Value> = resp2["changes"].as_object().map(|m| m.values().flat_map(|v| v.as_array().cloned().unwrap_or_default()).collect()).unwrap_or_default();
        match apply_edits(&renamed, &edits2) {
            Some(t2) if t2 == text => Ok(Verdict::Pass),
            other => Ok(Verdict::fail(
                format!("rename-back-does-not-restore{}", kind_tag),
                describe(&format!("renamed text:\n{}\nrename back at {} gives:\n{:?}", renamed, back_pos, other)),
            )),
        }
    });
    match res {
        Ok(Ok(v)) => v,
        Ok(Err(LspErr::Timeout)) | Err(LspErr::Timeout) => {
            drop_server();
            log.label("inconclusive");
            Verdict::Pass
        }
        Ok(Err(LspErr::Died(st, tail))) | Err(LspErr::Died(st, tail)) => {
            drop_server();
            Verdict::fail(format!("server-died|{}", st), format!("{}\n{}", text, tail))
        }
        Ok(Err(LspErr::Error(e))) | Err(LspErr::Error(e)) => Verdict::fail("error-response", format!("{}\n{}", text, e)),
    }
}

// ------------------------------------------------------------------------------------------------ across files

/// A two-file project: `main.asm` imports `lib.asm` in one of several ways; both files use the library's symbols.
#[derive(Clone, Debug, Hash, PartialEq, Eq, Serialize, Deserialize)]
pub struct MultiCase {
    /// 0: `.import *`, 1: `.import * as lns`, 2: `.import libk1, libl0`, 3: the same with `as`, 4: imported twice (once in a scope)
    pub import_kind: u8,
    pub pad_main: u8,
    pub pad_lib: u8,
    pub indent_main: u8,
    pub indent_lib: u8,
    /// which symbol (0: constant, 1: label) and which of its occurrences the rename is requested at
    pub symbol: u8,
    pub sel: u32,
}

pub fn multi_project(c: &MultiCase) -> Project {
    let ind = |n: u8| " ".repeat([2usize, 4, 4, 8][n as usize % 4]);
    let (im, il) = (ind(c.indent_main), ind(c.indent_lib));
    let mut lib = String::new();
    lib.push_str(".const libk1 = 3\n");
    lib.push_str(&"\n".repeat(c.pad_lib as usize % 3));
    lib.push_str(&format!("{}lda #libk1\n", il));
    lib.push_str("libl0: rts\n");
    lib.push_str(&format!("{}jsr libl0\n{}.byte libk1, <libl0\n", il, il));
    if c.pad_lib % 3 == 2 {
        // (no newline at the end of the file)
        lib.pop();
    }
    let mut main = String::new();
    let q = if c.import_kind % 5 == 1 { "lns." } else { "" };
    // (kind 3: the library's symbols are imported under other names)
    let (k, l) = if c.import_kind % 5 == 3 { ("mk1", "ml0") } else { ("libk1", "libl0") };
    match c.import_kind % 5 {
        0 => main.push_str(".import * from \"lib.asm\"\n"),
        1 => main.push_str(".import * as lns from \"lib.asm\"\n"),
        2 => main.push_str(".import libk1, libl0 from \"lib.asm\"\n"),
        3 => main.push_str(".import libk1 as mk1, libl0 as ml0 from \"lib.asm\"\n"),
        // (the library is imported twice: what it defines exists twice, at one place in the source)
        _ => main.push_str(".import libk1, libl0 from \"lib.asm\"\nsecondq: {\n    .import libk1, libl0 from \"lib.asm\"\n}\n"),
    }
    main.push_str(&"\n".repeat(c.pad_main as usize % 3));
    main.push_str(&format!("{}lda #{}{}\n", im, q, k));
    main.push_str(&format!("mainl: {{\n{}    jsr {}{}\n{}    .word {}{} + {}{}\n}}\n", im, q, l, im, q, l, q, k));
    main.push_str(&format!("{}jsr {}{}\n", im, q, l));
    let mut files = std::collections::BTreeMap::new();
    files.insert("main.asm".to_string(), main);
    files.insert("lib.asm".to_string(), lib);
    Project { files, entry: "main.asm".into() }
}

fn summary_project(p: &Project) -> Option<(Vec<(String, usize, Vec<u8>)>, Vec<String>)> {
    guarded(|| {
        let a = assemble(p, AsmOptions::default());
        let segs = a.segments().into_iter().map(|s| (s.name, s.start, s.data)).collect();
        let mut msgs: Vec<String> = a.all_diags().into_iter().map(|d| d.msg).collect();
        msgs.sort();
        (segs, msgs)
    })
    .ok()
}

/// whole-word occurrences of `name` in `text`: (line, col, col_end), 0-based
pub fn word_occurrences(text: &str, name: &str) -> Vec<(u64, u64, u64)> {
    let mut out = vec![];
    for (li, line) in text.split('\n').enumerate() {
        let mut from = 0;
        while let Some(i) = line[from..].find(name) {
            let a = from + i;
            let b = a + name.len();
            let before = line[..a].chars().last();
            let after = line[b..].chars().next();
            let word = |c: Option<char>| c.map(|c| c.is_alphanumeric() || c == '_').unwrap_or(false);
            if !word(before) && !word(after) {
                out.push((li as u64, a as u64, b as u64));
            }
            from = b;
        }
    }
    out
}

pub fn prop_multi(c: &MultiCase, log: &mut CaseLog) -> Verdict {
    let proj = multi_project(c);
    let before = summary_project(&proj);
    match &before {
        Some((_, msgs)) if msgs.is_empty() => {}
        _ => return Verdict::fail("harness-project-does-not-build", format!("{:?}\n{:?}", proj.files, before)),
    }
    let old_name = match (c.symbol % 4, c.import_kind % 5) {
        (2, 3) => "mk1",
        (3, 3) => "ml0",
        (s, _) if s % 2 == 0 => "libk1",
        _ => "libl0",
    };
    let new_name = "zzrenamed9";
    // every occurrence, per file
    let mut occ: Vec<(String, (u64, u64, u64))> = vec![];
    for (f, t) in &proj.files {
        for o in word_occurrences(t, old_name) {
            occ.push((f.clone(), o));
        }
    }
    let (at_file, at) = occ[((c.sel as u64 * occ.len() as u64) >> 32) as usize].clone();
    log.label(format!("import-kind:{}", c.import_kind % 5));
    log.label(format!("requested-in:{}", at_file));
    let coincide = occ.iter().any(|(f, o)| occ.iter().any(|(g, q)| f != g && o == q));
    log.label_if(coincide, "same-range-in-both-files");
    log.nontrivial = true;
    let sc = crate::sut::cli::Scratch::new("c15m");
    sc.write("mos.toml", b"[build]\nentry = \"main.asm\"\n");
    for (f, t) in &proj.files {
        sc.write(f, t.as_bytes());
    }
    let mut client = match crate::sut::lsp::LspClient::start(&sc.dir) {
        Ok(c) => c,
        Err(_) => {
            log.label("inconclusive");
            return Verdict::Pass;
        }
    };
    let t = Duration::from_secs(20);
    let uri_of = |f: &str| file_uri(&sc.dir, f);
    client.did_open(&uri_of("main.asm"), &proj.files["main.asm"]);
    client.did_open(&uri_of("lib.asm"), &proj.files["lib.asm"]);
    let pos = json!({"line": at.0, "character": at.1 + 1});
    let describe = |what: &str, extra: &str| format!("{}\n--- main.asm ---\n{}\n--- lib.asm ---\n{}\nrename of `{}` requested at {}:{}:{}\n{}", what, proj.files["main.asm"], proj.files["lib.asm"], old_name, at_file, at.0, at.1 + 1, extra);
    let run = (|| -> Result<Verdict, LspErr> {
        let prep = client.request("textDocument/prepareRename", json!({"textDocument": {"uri": uri_of(&at_file)}, "position": pos}), t)?;
        if prep.is_null() {
            return Ok(Verdict::Discard("server offers no rename here".into()));
        }
        let resp = client.request("textDocument/rename", json!({"textDocument": {"uri": uri_of(&at_file)}, "position": pos, "newName": new_name}), t)?;
        let changes = resp["changes"].as_object().cloned().unwrap_or_default();
        if changes.is_empty() {
            return Ok(Verdict::fail("rename-offered-but-no-edit|multi-file", describe("no edits", &resp.to_string())));
        }
        // exactly the occurrences of the (unique) name, in both files
        let mut got: BTreeSet<(String, (u64, u64, u64))> = BTreeSet::new();
        for (u, es) in &changes {
            let f = proj.files.keys().find(|f| u.ends_with(&format!("/{}", f)));
            let f = match f {
                Some(f) => f.clone(),
                None => return Ok(Verdict::fail("edit-for-unknown-document|multi-file", describe("", &resp.to_string()))),
            };
            for e in es.as_array().cloned().unwrap_or_default() {
                let r = &e["range"];
                got.insert((f.clone(), (r["start"]["line"].as_u64().unwrap_or(9999), r["start"]["character"].as_u64().unwrap_or(9999), r["end"]["character"].as_u64().unwrap_or(9999))));
            }
        }
        let want: BTreeSet<(String, (u64, u64, u64))> = occ.iter().cloned().collect();
        // (a rename requested at an alias is only held to the build comparison below: whether the alias or the symbol
        // behind it is renamed is not specified)
        let at_alias = matches!(old_name, "mk1" | "ml0");
        if got != want && !at_alias {
            let missing: Vec<_> = want.difference(&got).collect();
            let extra: Vec<_> = got.difference(&want).collect();
            let k = if !missing.is_empty() { "occurrence-not-renamed|multi-file" } else { "edit-outside-the-symbol's-occurrences|multi-file" };
            return Ok(Verdict::fail(k, describe(&format!("missing {:?} unexpected {:?}", missing, extra), &resp.to_string())));
        }
        let mut renamed = proj.clone();
        for (u, es) in &changes {
            let f = proj.files.keys().find(|f| u.ends_with(&format!("/{}", f))).unwrap().clone();
            match apply_edits(&proj.files[&f], es.as_array().map(|a| a.as_slice()).unwrap_or(&[])) {
                Some(t2) => {
                    renamed.files.insert(f, t2);
                }
                None => return Ok(Verdict::fail("edits-overlap-or-out-of-range|multi-file", describe("edits cannot be applied", &resp.to_string()))),
            }
        }
        let after = summary_project(&renamed);
        if before != after {
            return Ok(Verdict::fail("renamed-project-builds-differently|multi-file", describe(&format!("renamed: {:?}\nafter: {:?}", renamed.files, after.as_ref().map(|a| &a.1)), &resp.to_string())));
        }
        Ok(Verdict::Pass)
    })();
    match run {
        Ok(v) => v,
        Err(LspErr::Timeout) => {
            log.label("inconclusive");
            Verdict::Pass
        }
        Err(LspErr::Died(st, tail)) => Verdict::fail(format!("server-died|{}", st), describe("", &tail)),
        Err(LspErr::Error(e)) => Verdict::fail("error-response|multi-file", describe("", &e.to_string())),
    }
}

pub fn multi_strategy() -> impl Strategy<Value = MultiCase> {
    (0u8..5, 0u8..3, 0u8..3, 0u8..4, 0u8..4, 0u8..4, any::<u32>()).prop_map(|(import_kind, pad_main, pad_lib, indent_main, indent_lib, symbol, sel)| MultiCase { import_kind, pad_main, pad_lib, indent_main, indent_lib, symbol, sel })
}

pub fn multi_to_json(c: &MultiCase) -> Value {
    json!({"multi": c, "files": multi_project(c).files})
}

pub fn to_json(c: &Case) -> Value {
    json!({"entropy": c.entropy, "sel": c.sel, "program": prepare(&c.entropy).map(|p| p.text)})
}

pub fn strategy() -> impl Strategy<Value = Case> {
    (proptest::collection::vec(any::<u32>(), 8..260), any::<u32>()).prop_map(|(entropy, sel)| Case { entropy, sel })
}

pub fn run_check(ctx: &mut Ctx) {
    ctx.rule = "error-free generator programs as for C16 (shadowed names, dotted and `super` paths, macros and parameters, loops, untaken branches, string interpolation, tests that refer to the program's symbols, comments with non-BMP characters between the tokens, a forward reference to a shadowing label right in front of the zero page boundary) x one identifier occurrence (definition site or any path component of a use) x a fresh new name; oracle: where prepareRename offers a rename, the WorkspaceEdit must edit exactly the occurrences the documented scoping binds to that symbol (uses in never-emitted code optional; nothing else - not `super`, not equally named symbols), the edited program must assemble to identical bytes and diagnostics, and renaming back at the definition must restore the original text. non-trivial = symbol with >= 2 occurrences. second campaign: two-file projects (main imports lib with `*`, `* as ns` or a specific list; constant and label of lib used in both files at varying, sometimes identical, positions): the edits must be exactly the whole-word occurrences of the name in both files and the renamed project must build identically".into();
    if !have_mos() {
        ctx.health(false, "mos binary not built (MOS_BIN)");
        return;
    }
    let n = ctx.tier.pick(8000, 160_000);
    ctx.campaign_parallel("rename", n, 16, strategy, prop, to_json);
    // two-file projects: the symbol is defined in an imported file and used in both (enumerable: 3*3*3*4*4*2 shapes x
    // occurrences; sampled)
    let n = ctx.tier.pick(1000, 10_000);
    ctx.campaign_parallel("rename-across-files", n, 16, multi_strategy, prop_multi, multi_to_json);
    let k = ctx.label_count("same-range-in-both-files");
    ctx.health(k > 0, "no case with an occurrence at the same range in both files");
}

pub fn replay(ctx: &mut Ctx, case: &Value) {
    if let Some(m) = case.get("multi") {
        match serde_json::from_value::<MultiCase>(m.clone()) {
            Ok(c) => ctx.replay_one(&c, prop_multi, case.clone()),
            Err(e) => ctx.health(false, format!("replay case does not deserialize: {}", e)),
        }
        return;
    }
    let c: Case = match serde_json::from_value(json!({"entropy": case["entropy"], "sel": case["sel"]})) {
        Ok(c) => c,
        Err(e) => {
            ctx.health(false, format!("replay case does not deserialize: {}", e));
            return;
        }
    };
    ctx.replay_one(&c, prop, case.clone());
}
