//! C15 — rename is behaviour-preserving and complete.

use crate::engine::{CaseLog, Ctx, Verdict};
use crate::gen::binding::DefKind;
use crate::props::c16::{prepare, Prepared};
use crate::props::c17::{drop_server, with_server};
use crate::sut::cli::have_mos;
use crate::sut::core::{assemble, guarded, AsmOptions, Project};
use crate::sut::lsp::{apply_edits, file_uri, LspErr};
use proptest::prelude::*;
use serde::{Deserialize, Serialize};
use serde_json::{json, Value};
use std::collections::BTreeSet;
use std::time::Duration;

#[derive(Clone, Debug, Hash, PartialEq, Eq, Serialize, Deserialize)]
pub struct Case {
    pub entropy: Vec<u32>,
    /// which occurrence to rename at (selector)
    pub sel: u32,
}

type Rng = ((u64, u64), (u64, u64));

fn summary(text: &str) -> Option<(Vec<(String, usize, Vec<u8>)>, Vec<String>)> {
    let p = Project::single(text);
    guarded(|| {
        let a = assemble(&p, AsmOptions::default());
        let segs = a.segments().into_iter().map(|s| (s.name, s.start, s.data)).collect();
        let mut msgs: Vec<String> = a.all_diags().into_iter().map(|d| d.msg).collect();
        msgs.sort();
        (segs, msgs)
    })
    .ok()
}

fn is_dead(p: &Prepared, off: usize) -> bool {
    p.dead.iter().any(|(a, b)| off >= *a && off < *b)
}

pub fn prop(c: &Case, log: &mut CaseLog) -> Verdict {
    let p = match prepare(&c.entropy) {
        Some(p) => p,
        None => return Verdict::Discard("program does not assemble / not modelled".into()),
    };
    let r = &p.rendered;
    let text = p.text.clone();
    // candidate occurrences: (byte range, def id)
    let mut occ: Vec<((usize, usize), usize)> = vec![];
    for d in &p.bindings.defs {
        if let Some(rg) = d.range {
            if !is_dead(&p, rg.0) {
                occ.push((rg, d.id));
            }
        }
    }
    for u in &p.bindings.uses {
        for (rg, def) in &u.comps {
            if let Some(d) = def {
                if !is_dead(&p, rg.0) && p.bindings.defs[*d].range.is_some() {
                    occ.push((*rg, *d));
                }
            }
        }
    }
    if occ.is_empty() {
        return Verdict::Discard("no identifier occurrence".into());
    }
    let ((oa, ob), did) = occ[((c.sel as u64 * occ.len() as u64) >> 32) as usize];
    let d = &p.bindings.defs[did];
    let drange = d.range.unwrap();
    log.label(format!("kind:{:?}", d.kind));
    log.label(if (oa, ob) == drange { "at:definition" } else { "at:use" });
    let to_rng = |a: usize, b: usize| -> Rng {
        let (l1, c1) = r.line_col(a);
        let (l2, c2) = r.line_col(b);
        ((l1 as u64 - 1, c1 as u64 - 1), (l2 as u64 - 1, c2 as u64 - 1))
    };
    // expected edit set: the definition and every use component bound to it; uses in dead code are optional
    let mut must: BTreeSet<Rng> = BTreeSet::new();
    let mut may: BTreeSet<Rng> = BTreeSet::new();
    if is_dead(&p, drange.0) {
        may.insert(to_rng(drange.0, drange.1));
    } else {
        must.insert(to_rng(drange.0, drange.1));
    }
    for u in &p.bindings.uses {
        for ((a, b), def) in &u.comps {
            if *def == Some(did) {
                if is_dead(&p, *a) {
                    may.insert(to_rng(*a, *b));
                } else {
                    must.insert(to_rng(*a, *b));
                }
            }
        }
    }
    log.nontrivial = must.len() >= 2;
    log.label_if(must.len() >= 3, "occurrences>=3");
    let new_name = "zzrenamed9";
    let old_name = d.name.clone();
    let t = Duration::from_secs(20);
    let before = summary(&text);
    let res = with_server(|s| -> Result<Verdict, LspErr> {
        let uri = file_uri(&s.scratch.dir, "main.asm");
        s.version += 1;
        if !s.opened {
            s.client.did_open(&uri, &text);
            s.opened = true;
        } else {
            s.client.did_change(&uri, &text, s.version);
        }
        let (l, col) = r.line_col(oa + (ob - oa) / 2);
        let pos = json!({"line": l - 1, "character": col - 1});
        let prep = s.client.request("textDocument/prepareRename", json!({"textDocument": {"uri": uri}, "position": pos}), t)?;
        if prep.is_null() {
            return Ok(Verdict::Discard("server offers no rename here".into()));
        }
        let resp = s.client.request("textDocument/rename", json!({"textDocument": {"uri": uri}, "position": pos, "newName": new_name}), t)?;
        // the rename request must not leave traces in the server: re-send the buffer so later cases start clean
        s.version += 1;
        s.client.did_change(&uri, &text, s.version);
        let changes = &resp["changes"];
        let edits: Vec<Value> = changes.as_object().map(|m| m.values().flat_map(|v| v.as_array().cloned().unwrap_or_default()).collect()).unwrap_or_default();
        if resp.is_null() || edits.is_empty() {
            return Ok(Verdict::fail("rename-offered-but-no-edit", format!("{}\nrename of `{}` at {}:{}: {}", text, old_name, l, col, resp)));
        }
        if changes.as_object().map(|m| m.keys().any(|k| k != &uri)).unwrap_or(false) {
            return Ok(Verdict::fail("edit-for-unknown-document", format!("{}\n{}", text, resp)));
        }
        let got: BTreeSet<Rng> = edits
            .iter()
            .filter_map(|e| {
                let rg = &e["range"];
                Some(((rg["start"]["line"].as_u64()?, rg["start"]["character"].as_u64()?), (rg["end"]["line"].as_u64()?, rg["end"]["character"].as_u64()?)))
            })
            .collect();
        let missing: Vec<&Rng> = must.difference(&got).collect();
        let extra: Vec<&Rng> = got.iter().filter(|g| !must.contains(g) && !may.contains(g)).collect();
        let kind_tag = match d.kind {
            DefKind::Param => "|macro-parameter",
            DefKind::Macro => "|macro-name",
            _ => "",
        };
        let describe = |what: &str| format!("{}\n{}\nrename of `{}` ({:?}) requested at {}:{} -> `{}`\nedits: {}\nexpected ranges {:?} (optional {:?})", what, text, old_name, d.kind, l, col, new_name, serde_json::to_string(&edits).unwrap(), must, may);
        if !extra.is_empty() {
            // what text do the extra edits cover?
            let covers_super = extra.iter().any(|g| {
                let line = text.lines().nth(g.0 .0 as usize).unwrap_or("");
                line.get(g.0 .1 as usize..g.1 .1 as usize) == Some("super")
            });
            let k = if covers_super { "edit-renames-super-keyword" } else { "edit-outside-the-symbol's-occurrences" };
            return Ok(Verdict::fail(format!("{}{}", k, kind_tag), describe(&format!("unexpected edit ranges {:?}", extra))));
        }
        if !missing.is_empty() {
            return Ok(Verdict::fail(format!("occurrence-not-renamed{}", kind_tag), describe(&format!("missing edit ranges {:?}", missing))));
        }
        let renamed = match apply_edits(&text, &edits) {
            Some(t) => t,
            None => return Ok(Verdict::fail(format!("edits-overlap-or-out-of-range{}", kind_tag), describe("edits cannot be applied"))),
        };
        let after = summary(&renamed);
        if before != after {
            return Ok(Verdict::fail(
                format!("renamed-project-builds-differently{}", kind_tag),
                describe(&format!("renamed text:\n{}\nbefore: {:?}\nafter: {:?}", renamed, before.as_ref().map(|b| &b.1), after.as_ref().map(|b| &b.1))),
            ));
        }
        // rename back
        s.version += 1;
        s.client.did_change(&uri, &renamed, s.version);
        // position of the definition in the renamed text: same line; column shifted by earlier edits on that line
        let def_rng = to_rng(drange.0, drange.1);
        let shift: i64 = edits
            .iter()
            .filter_map(|e| {
                let rg = &e["range"];
                let el = rg["start"]["line"].as_u64()?;
                let ec = rg["start"]["character"].as_u64()?;
                let ee = rg["end"]["character"].as_u64()?;
                if el == def_rng.0 .0 && ec < def_rng.0 .1 {
                    Some(e["newText"].as_str()?.len() as i64 - (ee - ec) as i64)
                } else {
                    None
                }
            })
            .sum();
        let back_pos = json!({"line": def_rng.0 .0, "character": (def_rng.0 .1 as i64 + shift + 1) as u64});
        let resp2 = s.client.request("textDocument/rename", json!({"textDocument": {"uri": uri}, "position": back_pos, "newName": old_name}), t)?;
        s.version += 1;
        s.client.did_change(&uri, &text, s.version);
        let edits2: Vec<Value> = resp2["changes"].as_object().map(|m| m.values().flat_map(|v| v.as_array().cloned().unwrap_or_default()).collect()).unwrap_or_default();
        match apply_edits(&renamed, &edits2) {
            Some(t2) if t2 == text => Ok(Verdict::Pass),
            other => Ok(Verdict::fail(
                format!("rename-back-does-not-restore{}", kind_tag),
                describe(&format!("renamed text:\n{}\nrename back at {} gives:\n{:?}", renamed, back_pos, other)),
            )),
        }
    });
    match res {
        Ok(Ok(v)) => v,
        Ok(Err(LspErr::Timeout)) | Err(LspErr::Timeout) => {
            drop_server();
            log.label("inconclusive");
            Verdict::Pass
        }
        Ok(Err(LspErr::Died(st, tail))) | Err(LspErr::Died(st, tail)) => {
            drop_server();
            Verdict::fail(format!("server-died|{}", st), format!("{}\n{}", text, tail))
        }
        Ok(Err(LspErr::Error(e))) | Err(LspErr::Error(e)) => Verdict::fail("error-response", format!("{}\n{}", text, e)),
    }
}

pub fn to_json(c: &Case) -> Value {
    json!({"entropy": c.entropy, "sel": c.sel, "program": prepare(&c.entropy).map(|p| p.text)})
}

pub fn strategy() -> impl Strategy<Value = Case> {
    (proptest::collection::vec(any::<u32>(), 8..260), any::<u32>()).prop_map(|(entropy, sel)| Case { entropy, sel })
}

pub fn run_check(ctx: &mut Ctx) {
    ctx.rule = "error-free generator programs as for C16 (shadowed names, dotted and `super` paths, macros and parameters, loops, untaken branches, string interpolation) x one identifier occurrence (definition site or any path component of a use) x a fresh new name; oracle: where prepareRename offers a rename, the WorkspaceEdit must edit exactly the occurrences the documented scoping binds to that symbol (uses in never-emitted code optional; nothing else - not `super`, not equally named symbols), the edited program must assemble to identical bytes and diagnostics, and renaming back at the definition must restore the original text. non-trivial = symbol with >= 2 occurrences".into();
    if !have_mos() {
        ctx.health(false, "mos binary not built (MOS_BIN)");
        return;
    }
    let n = ctx.tier.pick(4800, 120_000);
    ctx.campaign_parallel("rename", n, 16, strategy, prop, to_json);
}

pub fn replay(ctx: &mut Ctx, case: &Value) {
    let c: Case = match serde_json::from_value(json!({"entropy": case["entropy"], "sel": case["sel"]})) {
        Ok(c) => c,
        Err(e) => {
            ctx.health(false, format!("replay case does not deserialize: {}", e));
            return;
        }
    };
    ctx.replay_one(&c, prop, case.clone());
}
