use crate::engine::Ctx;

pub mod c01;
pub mod c02;
pub mod c03;
pub mod c04;
pub mod c05;
pub mod c06;
pub mod c07;
pub mod c07x;
pub mod c08;
pub mod c09;
pub mod c10;
pub mod c11;
pub mod c12;
pub mod c14;
pub mod c15;
pub mod c16;
pub mod c17;
pub mod c18;
pub mod c19;
pub mod c20;

pub fn run(ctx: &mut Ctx) {
    // corpus replay tier first
    replay_corpus(ctx);
    match ctx.id.as_str() {
        "C01" => c01::run_check(ctx),
        "C02" => c02::run_check(ctx),
        "C03" => c03::run_check(ctx),
        "C04" => c04::run_check(ctx),
        "C05" => c05::run_check(ctx),
        "C06" => c06::run_check(ctx),
        "C07" => c07::run_check(ctx),
        "C08" => c08::run_check(ctx),
        "C09" => c09::run_check(ctx),
        "C10" => c10::run_check(ctx),
        "C11" => c11::run_check(ctx),
        "C12" => c12::run_check12(ctx),
        "C14" => c14::run_check(ctx),
        "C15" => c15::run_check(ctx),
        "C16" => c16::run_check(ctx),
        "C17" => c17::run_check(ctx),
        "C18" => c18::run_check(ctx),
        "C19" => c19::run_check(ctx),
        "C20" => c20::run_check(ctx),
        "C13" => c12::run_check13(ctx),
        other => {
            eprintln!("unknown property {}", other);
            std::process::exit(2);
        }
    }
}

pub fn replay(ctx: &mut Ctx, case: &serde_json::Value) {
    match ctx.id.as_str() {
        "C01" => c01::replay(ctx, case),
        "C02" => c02::replay(ctx, case),
        "C03" => c03::replay(ctx, case),
        "C04" => c04::replay(ctx, case),
        "C05" => c05::replay(ctx, case),
        "C06" => c06::replay(ctx, case),
        "C07" => c07::replay(ctx, case),
        "C08" => c08::replay(ctx, case),
        "C09" => c09::replay(ctx, case),
        "C10" => c10::replay(ctx, case),
        "C11" => c11::replay(ctx, case),
        "C12" | "C13" => c12::replay(ctx, case),
        "C14" => c14::replay(ctx, case),
        "C15" => c15::replay(ctx, case),
        "C16" => c16::replay(ctx, case),
        "C17" => c17::replay(ctx, case),
        "C18" => c18::replay(ctx, case),
        "C19" => c19::replay(ctx, case),
        "C20" => c20::replay(ctx, case),
        other => {
            eprintln!("unknown property {}", other);
            std::process::exit(2);
        }
    }
}

/// replay every stored case under corpus/<id>/*.json
pub fn replay_corpus(ctx: &mut Ctx) {
    let dir = crate::engine::verif_dir().join("corpus").join(&ctx.id);
    let mut files: Vec<_> = match std::fs::read_dir(&dir) {
        Ok(rd) => rd.filter_map(|e| e.ok()).map(|e| e.path()).collect(),
        Err(_) => return,
    };
    files.sort();
    let mut n = 0;
    for f in files {
        if f.extension().map(|e| e == "json").unwrap_or(false) {
            if let Ok(text) = std::fs::read_to_string(&f) {
                if let Ok(v) = serde_json::from_str::<serde_json::Value>(&text) {
                    let case = v.get("case").cloned().unwrap_or(v.clone());
                    replay(ctx, &case);
                    n += 1;
                }
            }
        }
    }
    ctx.extra.insert("corpus_replayed".into(), serde_json::json!(n));
}
