//! C14 — the language server depends only on the current buffers and survives any request.

use crate::engine::{CaseLog, Ctx, Verdict};
use crate::gen::build::{build, GenCfg};
use crate::sut::cli::{have_mos, Scratch};
use crate::sut::lsp::{file_uri, LspClient, LspErr};
use proptest::prelude::*;
use serde::{Deserialize, Serialize};
use serde_json::{json, Value};
use std::collections::BTreeMap;
use std::time::Duration;

pub const FILES: [&str; 5] = ["main.asm", "lib.asm", "other.asm", "ghost.asm", "untitled:Untitled-1"];

pub const REQUESTS: [&str; 13] = [
    "textDocument/definition",
    "textDocument/references",
    "textDocument/documentHighlight",
    "textDocument/prepareRename",
    "textDocument/rename",
    "textDocument/completion",
    "textDocument/hover",
    "textDocument/documentSymbol",
    "workspace/symbol",
    "textDocument/codeLens",
    "textDocument/semanticTokens/full",
    "textDocument/formatting",
    "textDocument/onTypeFormatting",
];

#[derive(Clone, Copy, Debug, Hash, PartialEq, Eq, Serialize, Deserialize)]
pub enum PosKind {
    InsideIdentifier,
    TokenBoundary,
    EndOfLine,
    BeyondEndOfLine,
    BeyondEndOfFile,
    InsideMultiByte,
    LineStart,
}

#[derive(Clone, Debug, Hash, PartialEq, Eq, Serialize, Deserialize)]
pub enum Op {
    Open { file: usize },
    /// insert (`del` false) or delete one character at a relative position
    Type { file: usize, pos: u32, ch: u32, del: bool },
    /// replace a whole line by another line of the base text / a broken line
    LineEdit { file: usize, line: u32, variant: u32 },
    /// back to the text on disk
    Restore { file: usize },
    /// whole-text replacement by another generated program
    Replace { file: usize, seed: u32 },
    Close { file: usize },
    ChangeNothing { file: usize },
    Request { kind: usize, file: usize, pos: PosKind, sel: u32 },
    /// one change notification with two full-text changes: the last one is the buffer
    ChangeTwice { file: usize, seed: u32 },
    /// a request a client may send that is not one of the usual ones: a method the server does not implement, parameters
    /// that are not what the method takes, a document whose name is not valid UTF-8
    OddRequest { sel: u32 },
}

#[derive(Clone, Debug, Hash, PartialEq, Eq, Serialize, Deserialize)]
pub struct Case {
    pub entropy: Vec<u32>,
    pub ops: Vec<Op>,
    /// finding features allowed in this case
    pub features: Vec<String>,
}

pub const TYPED: &[&str] = &["a", "x", "1", " ", "\n", "{", "}", "(", ")", "\"", ":", ".", "#", "$", ",", "/", "*", "é", "😀", "=", "l", "d"];

pub fn disk_files(c: &Case) -> BTreeMap<String, String> {
    let mut g = GenCfg::full();
    g.max_stmts = 16;
    let b = build(&c.entropy, &g);
    let (proj, _) = b.prog.render();
    let mut m = BTreeMap::new();
    // sometimes: segment blocks inside segment blocks (what is on disk has no errors: a file that is closed again is compared
    // with a server that never saw it)
    let h = crate::engine::hash_of(&c.entropy);
    let extra = match if proj.main_text().contains(".define segment") { 9 } else { h % 5 } {
        0 => ".segment \"default\" {\n    .segment \"default\" {\n        nop\n    }\n    rts\n}\n",
        // a branch that is not taken, in which `super` and a name that only exists when it is taken occur (no error:
        // `mos build` builds this)
        1 => ".const zzsel9 = 1\n.if zzsel9 == 2 {\n    {\n        .byte super.zzsel9\n    }\n    lda zzonlythen\n}\n",
        _ => "",
    };
    let main = format!("{}.import * as lib from \"lib.asm\"\n    lda lib.libval\n/// documented\ndoc1: nop\n    jmp doc1\n.test \"t1\" {{ brk }}\n{}", proj.main_text(), extra);
    m.insert("main.asm".to_string(), main);
    // (the library has a test of its own, far down: its code lens belongs to the library, not to the files that import it)
    let lib_tail = if (h >> 8) % 3 == 0 { format!("{}.test \"libt\" {{\n    jsr liblab\n    brk\n}}\n", "// filler\n".repeat(60)) } else { String::new() };
    m.insert("lib.asm".to_string(), format!("liblab: rts\n.const libval = 7\n    lda #libval\n{}", lib_tail));
    // a file that is not part of the project
    m.insert("other.asm".to_string(), "stray: nop\n    jmp stray\n".to_string());
    m
}

/// the URI of a document of the scratch project; names with a scheme are URIs already (an editor's unsaved document)
fn uri_for(dir: &std::path::Path, file: &str) -> String {
    if file.contains(':') {
        file.to_string()
    } else {
        file_uri(dir, file)
    }
}

fn utf16_col(line: &str, byte: usize) -> usize {
    let mut byte = byte.min(line.len());
    while !line.is_char_boundary(byte) {
        byte -= 1;
    }
    line[..byte].chars().map(|c| c.len_utf16()).sum()
}

/// (line, character) for a position kind in `text`
fn position(text: &str, kind: PosKind, sel: u32) -> (u64, u64) {
    let lines: Vec<&str> = text.split('\n').collect();
    let pick = |n: usize| ((sel as u64 * n.max(1) as u64) >> 32) as usize;
    let li = pick(lines.len());
    let line = lines[li].trim_end_matches('\r');
    match kind {
        PosKind::LineStart => (li as u64, 0),
        PosKind::EndOfLine => (li as u64, crate::sut::lsp::utf16_len(line) as u64),
        PosKind::BeyondEndOfLine => (li as u64, crate::sut::lsp::utf16_len(line) as u64 + 1 + (sel % 40) as u64),
        PosKind::BeyondEndOfFile => (lines.len() as u64 + (sel % 5) as u64, (sel % 7) as u64),
        PosKind::InsideIdentifier | PosKind::TokenBoundary => {
            // all identifier-ish runs of the text
            let mut spots: Vec<(usize, usize, usize)> = vec![];
            for (i, l) in lines.iter().enumerate() {
                let mut start: Option<usize> = None;
                for (bi, ch) in l.char_indices().chain(std::iter::once((l.len(), ' '))) {
                    let w = ch.is_alphanumeric() || ch == '_';
                    match (w, start) {
                        (true, None) => start = Some(bi),
                        (false, Some(s)) => {
                            spots.push((i, s, bi));
                            start = None;
                        }
                        _ => {}
                    }
                }
            }
            if spots.is_empty() {
                return (0, 0);
            }
            let (i, s, e) = spots[pick(spots.len())];
            let l = lines[i];
            if kind == PosKind::InsideIdentifier {
                (i as u64, utf16_col(l, s + (e - s) / 2) as u64)
            } else if sel & 1 == 0 {
                (i as u64, utf16_col(l, s) as u64)
            } else {
                (i as u64, utf16_col(l, e) as u64)
            }
        }
        PosKind::InsideMultiByte => {
            for (i, l) in lines.iter().enumerate() {
                for (bi, ch) in l.char_indices() {
                    if ch.len_utf8() > 1 {
                        // a column that, taken as a byte index, falls inside the character
                        return (i as u64, (bi + 1) as u64);
                    }
                }
            }
            (li as u64, 1)
        }
    }
}

fn params_for(kind: &str, uri: &str, pos: (u64, u64)) -> Value {
    let td = json!({"uri": uri});
    let p = json!({"line": pos.0, "character": pos.1});
    match kind {
        "textDocument/references" => json!({"textDocument": td, "position": p, "context": {"includeDeclaration": true}}),
        "textDocument/rename" => json!({"textDocument": td, "position": p, "newName": "zzq"}),
        "textDocument/documentSymbol" | "textDocument/codeLens" | "textDocument/semanticTokens/full" => json!({"textDocument": td}),
        "workspace/symbol" => json!({"query": ""}),
        "textDocument/formatting" => json!({"textDocument": td, "options": {"tabSize": 4, "insertSpaces": true}}),
        "textDocument/onTypeFormatting" => json!({"textDocument": td, "position": p, "ch": "}", "options": {"tabSize": 4, "insertSpaces": true}}),
        _ => json!({"textDocument": td, "position": p}),
    }
}

/// all (uri-or-None, range) pairs of a response
fn collect_ranges(v: &Value, out: &mut Vec<(Option<String>, Value)>) {
    match v {
        Value::Object(m) => {
            let uri = m.get("uri").or(m.get("targetUri")).and_then(|u| u.as_str()).map(|s| s.to_string());
            for k in ["range", "targetRange", "targetSelectionRange", "selectionRange", "originSelectionRange"] {
                if let Some(r) = m.get(k) {
                    if r.get("start").is_some() {
                        // originSelectionRange refers to the requesting document
                        out.push((if k == "originSelectionRange" { None } else { uri.clone() }, r.clone()));
                    }
                }
            }
            if m.get("start").is_some() && m.get("end").is_some() && m.len() == 2 {
                out.push((None, v.clone()));
                return;
            }
            for (k, x) in m {
                if ["range", "targetRange", "targetSelectionRange", "selectionRange", "originSelectionRange", "start", "end"].contains(&k.as_str()) {
                    continue;
                }
                if k == "changes" {
                    if let Some(ch) = x.as_object() {
                        for (u, edits) in ch {
                            if let Some(a) = edits.as_array() {
                                for e in a {
                                    if let Some(r) = e.get("range") {
                                        out.push((Some(u.clone()), r.clone()));
                                    }
                                }
                            }
                        }
                    }
                    continue;
                }
                collect_ranges(x, out);
            }
        }
        Value::Array(a) => a.iter().for_each(|x| collect_ranges(x, out)),
        _ => {}
    }
}

fn range_inside(r: &Value, text: &str) -> bool {
    let lines: Vec<&str> = text.split('\n').collect();
    let ok = |p: &Value| -> bool {
        let (l, c) = match (p["line"].as_u64(), p["character"].as_u64()) {
            (Some(l), Some(c)) => (l as usize, c as usize),
            _ => return false,
        };
        if l >= lines.len() {
            return false;
        }
        c <= crate::sut::lsp::utf16_len(lines[l].trim_end_matches('\r'))
    };
    let le = |a: &Value, b: &Value| (a["line"].as_u64(), a["character"].as_u64()) <= (b["line"].as_u64(), b["character"].as_u64());
    ok(&r["start"]) && ok(&r["end"]) && le(&r["start"], &r["end"])
}

fn check_semantic_tokens(resp: &Value, text: &str) -> Option<String> {
    let data = resp.get("data")?.as_array()?;
    let lines: Vec<&str> = text.split('\n').collect();
    let (mut line, mut col) = (0u64, 0u64);
    let mut prev_end: Option<(u64, u64)> = None;
    for ch in data.chunks(5) {
        if ch.len() < 5 {
            return Some("token data length is not a multiple of 5".into());
        }
        let (dl, dc, len) = (ch[0].as_u64()?, ch[1].as_u64()?, ch[2].as_u64()?);
        if dl > 0 {
            line += dl;
            col = dc;
        } else {
            col += dc;
        }
        if len == 0 {
            return Some(format!("zero-length token at {}:{}", line, col));
        }
        if let Some((pl, pe)) = prev_end {
            if line == pl && col < pe {
                return Some(format!("overlapping tokens at {}:{}", line, col));
            }
        }
        match lines.get(line as usize) {
            None => return Some(format!("token on line {} beyond the end of the document", line)),
            Some(l) => {
                if (col + len) as usize > crate::sut::lsp::utf16_len(l.trim_end_matches('\r')) {
                    return Some(format!("token {}:{}+{} runs past the end of its line", line, col, len));
                }
            }
        }
        prev_end = Some((line, col + len));
    }
    None
}

/// normal form of an answer for comparison: arrays whose order carries no meaning are sorted
fn normalise(v: &Value) -> Value {
    match v {
        Value::Array(a) => {
            let mut items: Vec<Value> = a.iter().map(normalise).collect();
            // token data is positional; everything else (locations, symbols, highlights, edits) is a set
            if !items.iter().all(|x| x.is_number()) {
                items.sort_by_key(|x| x.to_string());
            }
            Value::Array(items)
        }
        Value::Object(m) => Value::Object(m.iter().map(|(k, x)| (k.clone(), normalise(x))).collect()),
        _ => v.clone(),
    }
}

pub struct Session {
    pub scratch: Scratch,
    pub client: LspClient,
}

fn start(files: &BTreeMap<String, String>) -> Result<Session, LspErr> {
    let scratch = Scratch::new("c14");
    scratch.write("mos.toml", b"[build]\nentry = \"main.asm\"\n");
    for (n, t) in files.iter().filter(|(n, _)| !n.contains(':')) {
        scratch.write(n, t.as_bytes());
    }
    let client = LspClient::start(&scratch.dir)?;
    Ok(Session { scratch, client })
}

/// the fixed battery of requests asked after a history / of a fresh server
fn battery(s: &mut Session, buffers: &BTreeMap<String, String>, disk: &BTreeMap<String, String>) -> Result<BTreeMap<String, Value>, LspErr> {
    let t = Duration::from_secs(20);
    let mut out = BTreeMap::new();
    for f in ["main.asm", "lib.asm"] {
        let uri = uri_for(&s.scratch.dir, f);
        let text = buffers.get(f).or(disk.get(f)).cloned().unwrap_or_default();
        for kind in ["textDocument/documentSymbol", "textDocument/semanticTokens/full", "textDocument/codeLens"] {
            let r = s.client.request(kind, params_for(kind, &uri, (0, 0)), t)?;
            out.insert(format!("{} {}", kind, f), normalise(&r));
        }
        for (k, sel) in [(PosKind::InsideIdentifier, 0x2000_0000u32), (PosKind::InsideIdentifier, 0x9000_0000), (PosKind::InsideIdentifier, 0xe000_0000)] {
            let pos = position(&text, k, sel);
            for kind in ["textDocument/definition", "textDocument/references", "textDocument/documentHighlight", "textDocument/hover", "textDocument/completion", "textDocument/prepareRename"] {
                let r = s.client.request(kind, params_for(kind, &uri, pos), t)?;
                out.insert(format!("{} {} {}:{}", kind, f, pos.0, pos.1), normalise(&r));
            }
        }
    }
    let r = s.client.request("workspace/symbol", json!({"query": ""}), t)?;
    out.insert("workspace/symbol".into(), normalise(&r));
    // uris differ between scratch directories
    let dir = s.scratch.dir.to_string_lossy().to_string();
    let out = out.into_iter().map(|(k, v)| (k, serde_json::from_str(&v.to_string().replace(&dir, "<dir>")).unwrap())).collect();
    Ok(out)
}

fn diagnostics_of(s: &Session) -> BTreeMap<String, Value> {
    let dir = s.scratch.dir.to_string_lossy().to_string();
    s.client
        .last_diagnostics()
        .into_iter()
        .map(|(k, v)| (k.replace(&dir, "<dir>"), serde_json::from_str::<Value>(&normalise(&v).to_string().replace(&dir, "<dir>")).unwrap()))
        .filter(|(_, v)| v.as_array().map(|a| !a.is_empty()).unwrap_or(false))
        .collect()
}

/// One literal protocol step (what the corpus stores; generated cases are compiled to these).
#[derive(Clone, Debug, Hash, PartialEq, Eq, Serialize, Deserialize)]
pub enum Step {
    Open { file: String, text: String },
    Change { file: String, text: String, note: String },
    Close { file: String },
    /// a change notification without any change
    ChangeNothing { file: String },
    Request { method: String, file: String, line: u64, character: u64, pos_kind: String },
    /// a change notification with several full-text changes
    ChangeMulti { file: String, texts: Vec<String> },
    /// a request given literally (`params` is JSON text; `{DIR}` stands for the URI of the project directory); any
    /// response, also an error, will do
    RawRequest { method: String, params: String },
}

#[derive(Clone, Debug, Hash, PartialEq, Eq, Serialize, Deserialize)]
pub struct Raw {
    pub disk: BTreeMap<String, String>,
    pub steps: Vec<Step>,
}

/// Interprets the operations of a generated case (no server involved).
pub fn compile(c: &Case) -> Raw {
    let disk = disk_files(c);
    let has = |f: &str| c.features.iter().any(|x| x == f);
    let on_disk = |f: &str| disk.get(f).cloned().unwrap_or_default();
    let mut buffers: BTreeMap<String, String> = BTreeMap::new();
    let mut changed: BTreeMap<String, bool> = BTreeMap::new();
    let mut steps = vec![];
    for op in &c.ops {
        match op {
            Op::Open { file } => {
                let f = FILES[*file % FILES.len()];
                if !buffers.contains_key(f) {
                    buffers.insert(f.to_string(), on_disk(f));
                    steps.push(Step::Open { file: f.to_string(), text: on_disk(f) });
                }
            }
            Op::Type { file, pos, ch, del } => {
                let f = FILES[*file % FILES.len()];
                if let Some(text) = buffers.get(f).cloned() {
                    let chars: Vec<char> = text.chars().collect();
                    let i = ((*pos as u64 * (chars.len() as u64 + 1)) >> 32) as usize;
                    let mut new: String = chars[..i.min(chars.len())].iter().collect();
                    let mut typed: Vec<&str> = TYPED.to_vec();
                    if !has("non_ascii") {
                        typed.retain(|t| t.is_ascii());
                    }
                    let note;
                    if *del {
                        new.extend(chars.iter().skip(i + 1));
                        note = format!("delete character {}", i);
                    } else {
                        let t = typed[((*ch as u64 * typed.len() as u64) >> 32) as usize];
                        new.push_str(t);
                        new.extend(chars.iter().skip(i));
                        note = format!("type {:?} at character {}", t, i);
                    }
                    buffers.insert(f.to_string(), new.clone());
                    changed.insert(f.to_string(), true);
                    steps.push(Step::Change { file: f.to_string(), text: new, note });
                }
            }
            Op::LineEdit { file, line, variant } => {
                let f = FILES[*file % FILES.len()];
                if let Some(text) = buffers.get(f).cloned() {
                    let mut lines: Vec<String> = text.split('\n').map(|s| s.to_string()).collect();
                    let i = ((*line as u64 * lines.len() as u64) >> 32) as usize;
                    let repl = ["", "    nop", "    lda #", "foo bar", "}", "{", "newlab: rts", "    jmp newlab", ".const added = 3", "    lda undefinedname", ".import * from \"lib.asm\"", "// comment", ".macro rec() { rec() }", "    rec()", ".import * from \"ghost.asm\"", ".segment \"my.code\" { nop }", ".segment \"default\" { .segment \"default\" { nop } }", ".segment \"default\" {"];
                    // (added later, and chosen in a way that leaves the older stored cases what they were)
                    let spanning: Vec<String> = vec![
                        ".const wide = 40 /* größe\n\n    äöüäöüäöüäöü */ * 2".into(),
                        "    lda #1 + /* ü\n*/ 2".into(),
                        "    .byte 1, /* 😀😀\n\n 😀 */ 2".into(),
                        // (nested deeper than anything accepts)
                        format!("    lda #{}1{}", "(".repeat(400), ")".repeat(400)),
                        format!("{}nop{}", "{ ".repeat(250), " }".repeat(250)),
                        format!("    .word {}", vec!["doc1"; 2500].join(" + ")),
                    ];
                    let v = *variant as usize;
                    lines[i] = if v % 7 == 3 { spanning[(v / 7) % 3 + if (v / 21) % 2 == 0 { 3 } else { 0 }].clone() } else { repl[v % repl.len()].to_string() };
                    let new = lines.join("\n");
                    buffers.insert(f.to_string(), new.clone());
                    changed.insert(f.to_string(), true);
                    steps.push(Step::Change { file: f.to_string(), text: new, note: format!("line {} := {:?}", i, lines[i]) });
                }
            }
            Op::Restore { file } => {
                let f = FILES[*file % FILES.len()];
                if buffers.contains_key(f) {
                    buffers.insert(f.to_string(), on_disk(f));
                    changed.insert(f.to_string(), false);
                    steps.push(Step::Change { file: f.to_string(), text: on_disk(f), note: "restored".into() });
                }
            }
            Op::Replace { file, seed } => {
                let f = FILES[*file % FILES.len()];
                if buffers.contains_key(f) {
                    let mut c2 = c.clone();
                    c2.entropy = c.entropy.iter().map(|x| x.rotate_left(*seed % 32) ^ seed.wrapping_mul(0x9e37_79b9)).collect();
                    let new = disk_files(&c2)["main.asm"].clone();
                    buffers.insert(f.to_string(), new.clone());
                    changed.insert(f.to_string(), true);
                    steps.push(Step::Change { file: f.to_string(), text: new, note: "replaced by another program".into() });
                }
            }
            Op::Close { file } => {
                let f = FILES[*file % FILES.len()];
                if buffers.remove(f).is_some() {
                    if changed.get(f).copied().unwrap_or(false) && !has("close_after_unsaved_change") {
                        steps.push(Step::Change { file: f.to_string(), text: on_disk(f), note: "restored before close".into() });
                    }
                    changed.insert(f.to_string(), false);
                    steps.push(Step::Close { file: f.to_string() });
                }
            }
            Op::ChangeNothing { file } => {
                let f = FILES[*file % FILES.len()];
                if buffers.contains_key(f) {
                    steps.push(Step::ChangeNothing { file: f.to_string() });
                }
            }
            Op::ChangeTwice { file, seed } => {
                let f = FILES[*file % FILES.len()];
                if buffers.contains_key(f) {
                    let mut c2 = c.clone();
                    c2.entropy = c.entropy.iter().map(|x| x.rotate_left(*seed % 32) ^ seed.wrapping_mul(0x85eb_ca6b)).collect();
                    let last = disk_files(&c2)["main.asm"].clone();
                    buffers.insert(f.to_string(), last.clone());
                    changed.insert(f.to_string(), true);
                    steps.push(Step::ChangeMulti { file: f.to_string(), texts: vec!["lda undefinedzz\n".to_string(), last] });
                }
            }
            Op::OddRequest { sel } => {
                let odd: [(&str, &str); 7] = [
                    ("textDocument/foldingRange", "{\"textDocument\":{\"uri\":\"{DIR}/main.asm\"}}"),
                    ("textDocument/codeAction", "{\"textDocument\":{\"uri\":\"{DIR}/main.asm\"},\"range\":{\"start\":{\"line\":0,\"character\":0},\"end\":{\"line\":0,\"character\":1}},\"context\":{\"diagnostics\":[]}}"),
                    ("textDocument/hover", "{\"textDocument\":{\"uri\":\"{DIR}/main.asm\"},\"position\":{\"line\":-1,\"character\":0}}"),
                    ("textDocument/definition", "{\"textDocument\":{\"uri\":\"{DIR}/main.asm\"},\"position\":{\"line\":0}}"),
                    ("textDocument/references", "{\"textDocument\":{\"uri\":\"{DIR}/caf%E9.asm\"},\"position\":{\"line\":0,\"character\":1},\"context\":{\"includeDeclaration\":true}}"),
                    ("textDocument/hover", "{\"textDocument\":{\"uri\":\"{DIR}/caf%E9.asm\"},\"position\":{\"line\":0,\"character\":1}}"),
                    ("textDocument/completion", "{\"textDocument\":{\"uri\":\"{DIR}/caf%E9.asm\"},\"position\":{\"line\":0,\"character\":1}}"),
                ];
                let (m, p) = odd[*sel as usize % odd.len()];
                steps.push(Step::RawRequest { method: m.to_string(), params: p.to_string() });
            }
            Op::Request { kind, file, pos, sel } => {
                let kind = REQUESTS[*kind % REQUESTS.len()];
                let f = FILES[*file % FILES.len()];
                if kind == "textDocument/rename" && !has("rename_request_has_side_effects") {
                    continue;
                }
                let mut pk = *pos;
                if pk == PosKind::InsideMultiByte && !has("non_ascii") {
                    pk = PosKind::InsideIdentifier;
                }
                if matches!(pk, PosKind::BeyondEndOfLine | PosKind::BeyondEndOfFile) && !has("position_out_of_range") {
                    pk = PosKind::EndOfLine;
                }
                let text = buffers.get(f).cloned().unwrap_or_else(|| on_disk(f));
                let p = position(&text, pk, *sel);
                steps.push(Step::Request { method: kind.to_string(), file: f.to_string(), line: p.0, character: p.1, pos_kind: format!("{:?}", pk) });
            }
        }
    }
    Raw { disk, steps }
}

/// A witness that a server that has not answered is not going to: two samples of its threads, 300 ms apart, in which
/// every thread sleeps and none has used any CPU time.
fn blocked_witness(pid: u32) -> Option<String> {
    let a = crate::props::c20::thread_sample(pid);
    std::thread::sleep(Duration::from_millis(300));
    let b = crate::props::c20::thread_sample(pid);
    let all_blocked = !a.is_empty() && a.len() == b.len() && a.iter().zip(b.iter()).all(|(x, y)| x.1 == 'S' && y.1 == 'S' && x.2 == y.2);
    if all_blocked {
        Some(format!("all {} threads sleep without consuming CPU time: {:?}", b.len(), b))
    } else {
        None
    }
}

fn died_at(tail: &str) -> String {
    tail.lines().find(|l| l.contains("panicked")).and_then(|l| l.split("panicked at ").nth(1)).map(|s| s.split(':').next().unwrap_or("").to_string()).unwrap_or_else(|| if tail.contains("stack overflow") { "stack overflow".into() } else { String::new() })
}

pub fn prop(c: &Case, log: &mut CaseLog) -> Verdict {
    run_raw(&compile(c), log)
}

pub fn run_raw(raw: &Raw, log: &mut CaseLog) -> Verdict {
    let disk = &raw.disk;
    let on_disk = |f: &str| disk.get(f).cloned().unwrap_or_default();
    let mut s = match start(disk) {
        Ok(s) => s,
        Err(e) => return Verdict::fail("server-did-not-start", format!("{:?}", e)),
    };
    let t = Duration::from_secs(20);
    let mut buffers: BTreeMap<String, String> = BTreeMap::new();
    let mut version = 1i64;
    let mut trace: Vec<String> = vec![];
    let mut edits = 0;
    let mut broken_seen = false;
    let mut close_after_change = false;
    let mut out_of_range = false;
    let mut renamed = false;
    for step in &raw.steps {
        match step {
            Step::Open { file, text } => {
                s.client.did_open(&uri_for(&s.scratch.dir, file), text);
                buffers.insert(file.clone(), text.clone());
                trace.push(format!("didOpen {}", file));
            }
            Step::Change { file, text, note } => {
                version += 1;
                s.client.did_change(&uri_for(&s.scratch.dir, file), text, version);
                buffers.insert(file.clone(), text.clone());
                trace.push(format!("didChange {} ({})", file, note));
                edits += 1;
            }
            Step::Close { file } => {
                if buffers.get(file).map(|b| *b != on_disk(file)).unwrap_or(false) {
                    close_after_change = true;
                }
                buffers.remove(file);
                s.client.did_close(&uri_for(&s.scratch.dir, file));
                trace.push(format!("didClose {}", file));
            }
            Step::ChangeNothing { file } => {
                version += 1;
                s.client.notify("textDocument/didChange", json!({"textDocument": {"uri": uri_for(&s.scratch.dir, file), "version": version}, "contentChanges": []}));
                trace.push(format!("didChange {} (no changes)", file));
            }
            Step::ChangeMulti { file, texts } => {
                version += 1;
                let changes: Vec<Value> = texts.iter().map(|t| json!({"text": t})).collect();
                s.client.notify("textDocument/didChange", json!({"textDocument": {"uri": uri_for(&s.scratch.dir, file), "version": version}, "contentChanges": changes}));
                if let Some(last) = texts.last() {
                    buffers.insert(file.clone(), last.clone());
                }
                trace.push(format!("didChange {} ({} full-text changes in one notification)", file, texts.len()));
                edits += 1;
            }
            Step::RawRequest { method, params } => {
                let dir_uri = file_uri(&s.scratch.dir, "");
                let params: Value = serde_json::from_str(&params.replace("{DIR}/", &dir_uri).replace("{DIR}", dir_uri.trim_end_matches('/'))).unwrap_or(Value::Null);
                trace.push(format!("{} {}", method, params));
                log.label(format!("odd-request:{}", method));
                match s.client.request(method, params, t) {
                    Ok(_) | Err(LspErr::Error(_)) => {}
                    Err(LspErr::Timeout) => {
                        if let Some(w) = blocked_witness(s.client.pid()) {
                            return Verdict::fail(format!("request-never-answered|{}", method), format!("history:\n{}\nno response within {} s and the server is not working on one: {}", trace.join("\n"), t.as_secs(), w));
                        }
                        log.label("inconclusive");
                        return Verdict::Pass;
                    }
                    Err(LspErr::Died(st, tail)) => {
                        return Verdict::fail(format!("server-died|{}|{}|odd-request", method, died_at(&tail)), format!("history:\n{}\nthe server process ended: {}\n{}", trace.join("\n"), st, tail));
                    }
                }
            }
            Step::Request { method, file, line, character, pos_kind } => {
                let kind = method.as_str();
                let f = file.as_str();
                let text = buffers.get(f).cloned().unwrap_or_else(|| on_disk(f));
                let uri = uri_for(&s.scratch.dir, f);
                trace.push(format!("{} {} {} {}:{}", kind, f, pos_kind, line, character));
                log.label(format!("request:{}", kind));
                log.label(format!("position:{}", pos_kind));
                out_of_range |= pos_kind.starts_with("Beyond");
                renamed |= kind == "textDocument/rename";
                match s.client.request(kind, params_for(kind, &uri, (*line, *character)), t) {
                    Ok(resp) => {
                        // well-formedness
                        let mut rs = vec![];
                        collect_ranges(&resp, &mut rs);
                        for (u, r) in rs {
                            let target = match &u {
                                Some(u) => FILES.iter().find(|n| u.ends_with(&format!("/{}", n))).map(|n| n.to_string()),
                                None => Some(f.to_string()),
                            };
                            if let Some(tf) = target {
                                let ttext = buffers.get(&tf).cloned().unwrap_or_else(|| on_disk(&tf));
                                if !range_inside(&r, &ttext) {
                                    return Verdict::fail(
                                        format!("range-outside-document|{}", kind),
                                        format!("history:\n{}\nresponse range {} does not lie inside {} ({} lines)\nbuffer:\n{}", trace.join("\n"), r, tf, ttext.split('\n').count(), ttext),
                                    );
                                }
                            }
                        }
                        if kind == "textDocument/semanticTokens/full" {
                            if let Some(why) = check_semantic_tokens(&resp, &text) {
                                return Verdict::fail("semantic-tokens-malformed", format!("history:\n{}\n{}\nbuffer:\n{}\n{}", trace.join("\n"), why, text, resp));
                            }
                        }
                    }
                    Err(LspErr::Timeout) => {
                        // the clock alone decides nothing; a server of which every thread sleeps does
                        if let Some(w) = blocked_witness(s.client.pid()) {
                            return Verdict::fail(format!("request-never-answered|{}", kind), format!("history:\n{}\nno response within {} s and the server is not working on one: {}\nbuffer of {}:\n{}", trace.join("\n"), t.as_secs(), w, f, text));
                        }
                        log.label("inconclusive");
                        return Verdict::Pass;
                    }
                    Err(LspErr::Died(st, tail)) => {
                        return Verdict::fail(
                            format!("server-died|{}|{}|position={}", kind, died_at(&tail), pos_kind),
                            format!("history:\n{}\nthe server process ended: {}\n{}\nbuffer of {}:\n{}", trace.join("\n"), st, tail, f, text),
                        );
                    }
                    Err(LspErr::Error(_)) => {
                        // an error is a response too
                        log.label(format!("error-response:{}", kind));
                    }
                }
            }
        }
        // a buffer that does not parse?
        if let Some(d) = s.client.notifications.last() {
            if d["method"] == "textDocument/publishDiagnostics" && d["params"]["diagnostics"].as_array().map(|a| !a.is_empty()).unwrap_or(false) {
                broken_seen = true;
            }
        }
    }
    log.label_if(edits >= 2, "edits>=2");
    log.label_if(broken_seen, "broken-intermediate-state");
    log.label_if(close_after_change, "close-after-unsaved-change");
    log.label_if(out_of_range, "out-of-range-position");
    log.label_if(raw.steps.len() > 30, "steps>30");
    log.nontrivial = (edits >= 2 && broken_seen) || close_after_change || out_of_range;
    // ---- the final state must equal that of fresh servers given only the final buffers
    let final_answers = match battery(&mut s, &buffers, disk) {
        Ok(a) => a,
        Err(LspErr::Timeout) => {
            log.label("inconclusive");
            return Verdict::Pass;
        }
        Err(LspErr::Died(st, tail)) => {
            return Verdict::fail(format!("server-died|battery|{}", died_at(&tail)), format!("history:\n{}\nthe server process ended during the final battery of requests: {}\n{}\nbuffers: {:?}", trace.join("\n"), st, tail, buffers));
        }
        Err(LspErr::Error(e)) => return Verdict::fail("error-response|battery", format!("{}", e)),
    };
    for f in ["main.asm", "lib.asm"] {
        let text = buffers.get(f).or(disk.get(f)).cloned().unwrap_or_default();
        if let Some(resp) = final_answers.get(&format!("textDocument/semanticTokens/full {}", f)) {
            if let Some(why) = check_semantic_tokens(resp, &text) {
                return Verdict::fail("semantic-tokens-malformed", format!("history:\n{}\n(final battery) {}\nbuffer of {}:\n{}\n{}", trace.join("\n"), why, f, text, resp));
            }
        }
    }
    let final_diags = diagnostics_of(&s);
    let mut fresh: Vec<(BTreeMap<String, Value>, BTreeMap<String, Value>)> = vec![];
    for _ in 0..2 {
        let mut fs = match start(disk) {
            Ok(s) => s,
            Err(_) => return Verdict::Pass,
        };
        // open main first (if open), then the rest
        let mut names: Vec<&String> = buffers.keys().collect();
        names.sort_by_key(|n| if n.as_str() == "main.asm" { 0 } else { 1 });
        for n in names {
            fs.client.did_open(&uri_for(&fs.scratch.dir, n), &buffers[n]);
        }
        match battery(&mut fs, &buffers, disk) {
            Ok(a) => fresh.push((a, diagnostics_of(&fs))),
            Err(LspErr::Died(st, tail)) => {
                return Verdict::fail(format!("server-died|battery|{}", died_at(&tail)), format!("a fresh server given the final buffers ended during the battery of requests: {}\n{}\nbuffers: {:?}", st, tail, buffers));
            }
            Err(_) => {
                log.label("inconclusive");
                return Verdict::Pass;
            }
        }
    }
    let describe = |what: &str| {
        let on_disk: String = disk.iter().map(|(n, t)| format!("--- {} (on disk) ---\n{}\n", n, t)).collect();
        format!("{}\nhistory:\n{}\nfinal open buffers: {:?}\n{}", what, trace.join("\n"), buffers, on_disk)
    };
    // diagnostics
    if fresh[0].1 == fresh[1].1 {
        if final_diags != fresh[0].1 {
            return Verdict::fail("diagnostics-differ-from-fresh-server", describe(&format!("last published diagnostics after the history: {}\nfresh server: {}", json!(final_diags), json!(fresh[0].1))));
        }
    } else {
        log.label("nondeterministic:diagnostics");
        return Verdict::fail("nondeterministic|diagnostics", describe(&format!("two fresh servers given the same buffers published different diagnostics:\n{}\n{}", json!(fresh[0].1), json!(fresh[1].1))));
    }
    for (k, v) in &final_answers {
        let (a, b) = (fresh[0].0.get(k), fresh[1].0.get(k));
        let method = k.split(' ').next().unwrap_or("");
        if a != b {
            log.label(format!("nondeterministic:{}", method));
            return Verdict::fail(format!("nondeterministic|{}", method), describe(&format!("two fresh servers given the same buffers answered {} differently:\n{}\n{}", k, a.cloned().unwrap_or(Value::Null), b.cloned().unwrap_or(Value::Null))));
        }
        if a != Some(v) {
            let _ = renamed;
            return Verdict::fail(format!("answer-differs-from-fresh-server|{}", method), describe(&format!("{}\nafter the history: {}\nfresh server:      {}", k, v, a.cloned().unwrap_or(Value::Null))));
        }
    }
    Verdict::Pass
}

pub fn to_json(c: &Case) -> Value {
    json!({"entropy": c.entropy, "ops": c.ops, "features": c.features, "raw": compile(c)})
}

fn op_strategy() -> impl Strategy<Value = Op> {
    let pk = proptest::sample::select(vec![
        PosKind::InsideIdentifier,
        PosKind::InsideIdentifier,
        PosKind::TokenBoundary,
        PosKind::EndOfLine,
        PosKind::BeyondEndOfLine,
        PosKind::BeyondEndOfFile,
        PosKind::InsideMultiByte,
        PosKind::LineStart,
    ]);
    prop_oneof![
        2 => (0usize..2).prop_map(|file| Op::Open { file }),
        4 => (0usize..2, any::<u32>(), any::<u32>(), any::<bool>()).prop_map(|(file, pos, ch, del)| Op::Type { file, pos, ch, del }),
        2 => (0usize..2, any::<u32>(), any::<u32>()).prop_map(|(file, line, variant)| Op::LineEdit { file, line, variant }),
        1 => (0usize..2).prop_map(|file| Op::Restore { file }),
        1 => (0usize..2, any::<u32>()).prop_map(|(file, seed)| Op::Replace { file, seed }),
        1 => Just(Op::Open { file: 4 }),
        1 => (any::<u32>(), any::<u32>()).prop_map(|(line, variant)| Op::LineEdit { file: 4, line, variant }),
        1 => Just(Op::Close { file: 4 }),
        1 => (0usize..5).prop_map(|file| Op::ChangeNothing { file }),
        1 => (0usize..2, any::<u32>()).prop_map(|(file, seed)| Op::ChangeTwice { file, seed }),
        1 => any::<u32>().prop_map(|sel| Op::OddRequest { sel }),
        1 => Just(Op::Open { file: 3 }),
        1 => (any::<u32>(), any::<u32>()).prop_map(|(line, variant)| Op::LineEdit { file: 3, line, variant }),
        1 => Just(Op::Close { file: 3 }),
        1 => (0usize..2).prop_map(|file| Op::Close { file }),
        8 => (0usize..REQUESTS.len(), 0usize..5, pk, any::<u32>()).prop_map(|(kind, file, pos, sel)| Op::Request { kind, file, pos, sel }),
    ]
}

pub const ALL_FEATURES: [&str; 4] = ["position_out_of_range", "non_ascii", "close_after_unsaved_change", "rename_request_has_side_effects"];

pub fn strategy(features: Vec<String>, min_ops: usize, max_ops: usize) -> impl Strategy<Value = Case> {
    (proptest::collection::vec(any::<u32>(), 8..120), proptest::collection::vec(op_strategy(), min_ops..max_ops)).prop_map(move |(entropy, mut ops)| {
        // a history starts by opening the main file
        ops.insert(0, Op::Open { file: 0 });
        Case { entropy, ops, features: features.clone() }
    })
}

pub fn run_check(ctx: &mut Ctx) {
    // a case costs three server processes: bound the shrinking effort
    if std::env::var("MV_MAX_SHRINK").is_err() {
        std::env::set_var("MV_MAX_SHRINK", "120");
    }
    ctx.rule = "a scratch project (generated main.asm importing lib.asm, a documented label, a test, a file outside the project) and one `mos lsp` process; histories of 1-80 operations: didOpen / didChange by typed single characters (insert, delete: passes through broken states), line replacements (among them lines with comments that span lines and non-BMP characters, and nesting / sums beyond what the parser accepts), whole-text replacements, restore / didClose of main file, imported file, a new file that is not on disk and a document that is not a file at all (`untitled:` URI), change notifications without changes, interleaved with all 13 supported request kinds at positions of 7 kinds (inside identifier, token boundary, start/end of line, beyond end of line, beyond end of file, inside a multi-byte character) in open, closed and non-project documents. oracle: every request is answered and the process lives; every returned range lies inside the addressed document's current text and semantic tokens decode to sorted non-overlapping non-empty in-line ranges; after the history the last published diagnostics per file and the answers to a fixed battery equal those of two freshly started servers that only receive didOpen of the final buffers (answers on which the two fresh servers disagree are reported as nondeterministic and left out). non-trivial = >= 2 edits with a broken intermediate state, a close after an unsaved change, or an out-of-range position".into();
    if !have_mos() {
        ctx.health(false, "mos binary not built (MOS_BIN)");
        return;
    }
    let all: Vec<String> = ALL_FEATURES.iter().map(|s| s.to_string()).collect();
    let n = ctx.tier.pick(2_400, 60_000);
    ctx.campaign_parallel("histories", n, 16, || strategy(all.clone(), 1, 30), prop, to_json);
    let n = ctx.tier.pick(300, 8_000);
    ctx.campaign_parallel("long-histories", n, 16, || strategy(all.clone(), 30, 80), prop, to_json);
    // the same without out-of-range positions, non-ASCII text, closes of changed buffers and rename requests: a defect
    // in one of those does not hide what lies behind it
    let n = ctx.tier.pick(400, 10_000);
    ctx.campaign_parallel("plain-histories", n, 16, || strategy(vec![], 1, 30), prop, to_json);
    for k in REQUESTS {
        let n = ctx.label_count(&format!("request:{}", k));
        ctx.health(n > 0, format!("request kind {} never sent", k));
    }
}

pub fn replay(ctx: &mut Ctx, case: &Value) {
    // the literal protocol steps are what is replayed (independent of the generator)
    if let Some(raw) = case.get("raw") {
        match serde_json::from_value::<Raw>(raw.clone()) {
            Ok(r) => ctx.replay_one(&r, run_raw, case.clone()),
            Err(e) => ctx.health(false, format!("replay case does not deserialize: {}", e)),
        }
        return;
    }
    let c: Case = match serde_json::from_value(json!({"entropy": case["entropy"], "ops": case["ops"], "features": case["features"]})) {
        Ok(c) => c,
        Err(e) => {
            ctx.health(false, format!("replay case does not deserialize: {}", e));
            return;
        }
    };
    ctx.replay_one(&c, prop, case.clone());
}
