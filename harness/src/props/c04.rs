//! C04 — invalid programs are rejected at the offending location and produce no binary.

use crate::engine::{CaseLog, Ctx, Verdict};
use crate::gen::ast::*;
use crate::gen::build::{build, separate_ambiguous, Ent, GenCfg};
use crate::model::eval::Value;
use crate::model::expand::{eval_with, pure_consts};
use crate::model::isa::Form;
use crate::sut::cli::{have_mos, parse_short_diags, run_mos, Scratch};
use crate::sut::core::{assemble, guarded, AsmOptions, Diag, PassVerdict, Project};
use proptest::prelude::*;
use serde::{Deserialize, Serialize};
use serde_json::json;
use std::collections::{BTreeMap, BTreeSet};

#[derive(Clone, Copy, Debug, Hash, PartialEq, Eq, Serialize, Deserialize, PartialOrd, Ord)]
pub enum Class {
    UndefSymbol,
    UndefMacro,
    UndefSegment,
    Redefinition,
    IllegalForm,
    ImmTooBig,
    BranchRange,
    MacroArity,
    Malformed,
    UnclosedBlock,
    MissingImport,
    /// an expression that can never have a value: a macro name used as one, a number combined with a string, a result
    /// that does not fit in 64 bits, an unknown function or a string in the `start` of a segment
    Unevaluable,
}

pub const CLASSES: [Class; 12] = [
    Class::UndefSymbol,
    Class::UndefMacro,
    Class::UndefSegment,
    Class::Redefinition,
    Class::IllegalForm,
    Class::ImmTooBig,
    Class::BranchRange,
    Class::MacroArity,
    Class::Malformed,
    Class::UnclosedBlock,
    Class::MissingImport,
    Class::Unevaluable,
];

impl Class {
    fn semantic(&self) -> bool {
        !matches!(self, Class::Malformed | Class::UnclosedBlock | Class::MissingImport)
    }
}

#[derive(Clone, Debug, Hash, PartialEq, Eq, Serialize, Deserialize)]
pub struct Case {
    pub entropy: Vec<u32>,
    pub class: Class,
    pub sel: Vec<u32>,
    pub cli: bool,
}

#[derive(Clone, Debug)]
struct Point {
    /// (statement index, child block index) from the root to the block
    path: Vec<(usize, usize)>,
    at: usize,
    live: bool,
    container: &'static str,
}

fn block_at<'a>(body: &'a mut Vec<Stmt>, path: &[(usize, usize)]) -> &'a mut Vec<Stmt> {
    let mut cur = body;
    for (si, ci) in path {
        let s = &mut cur[*si];
        cur = s.children_mut().into_iter().nth(*ci).unwrap();
    }
    cur
}

fn collect_points(body: &[Stmt], path: &mut Vec<(usize, usize)>, live: bool, container: &'static str, consts: &BTreeMap<String, Value>, invoked: &BTreeSet<String>, out: &mut Vec<Point>) {
    // statements in front of a `.define` belong to no segment in the first pass: keep faults behind the definitions
    let first = if path.is_empty() { body.iter().rposition(|s| matches!(s, Stmt::DefineSegment { .. } | Stmt::DefineBank { .. })).map(|i| i + 1).unwrap_or(0) } else { 0 };
    for at in first..=body.len() {
        out.push(Point { path: path.clone(), at, live, container });
    }
    for (si, s) in body.iter().enumerate() {
        let kids = s.children();
        for (ci, k) in kids.iter().enumerate() {
            let (l, c): (bool, &'static str) = match s {
                Stmt::Label { .. } => (live, "scope"),
                Stmt::Braces(_) => (live, "scope"),
                Stmt::Loop { count, .. } => (live && matches!(eval_with(consts, count), Some(Value::Int(n)) if n >= 1), "loop"),
                Stmt::If { cond, .. } => {
                    let c = eval_with(consts, cond);
                    let taken = match c {
                        Some(Value::Int(n)) => {
                            if ci == 0 {
                                n != 0
                            } else {
                                n == 0
                            }
                        }
                        _ => false,
                    };
                    (live && taken, "if")
                }
                Stmt::MacroDef { name, .. } => (invoked.contains(name), "macro"),
                Stmt::Segment { .. } => (live, "segment"),
                Stmt::Test { .. } => (false, "test"),
                _ => (live, "other"),
            };
            path.push((si, ci));
            collect_points(k, path, l, c, consts, invoked, out);
            path.pop();
        }
    }
}

pub fn invoked_macros(body: &[Stmt], live: bool, consts: &BTreeMap<String, Value>, out: &mut BTreeSet<String>) {
    for s in body {
        match s {
            Stmt::MacroCall { name, .. } if live => {
                out.insert(name.clone());
            }
            Stmt::MacroDef { .. } | Stmt::Test { .. } => {}
            Stmt::Loop { count, body } => {
                let l = live && matches!(eval_with(consts, count), Some(Value::Int(n)) if n >= 1);
                invoked_macros(body, l, consts, out);
            }
            Stmt::If { cond, then, els } => {
                let c = match eval_with(consts, cond) {
                    Some(Value::Int(n)) => Some(n != 0),
                    _ => None,
                };
                invoked_macros(then, live && c == Some(true), consts, out);
                if let Some(e) = els {
                    invoked_macros(e, live && c == Some(false), consts, out);
                }
            }
            other => {
                for k in other.children() {
                    invoked_macros(k, live, consts, out);
                }
            }
        }
    }
}

pub struct Injected {
    pub project: Project,
    pub class: Class,
    pub file: String,
    /// expected 1-based line (for UnclosedBlock: the first acceptable line)
    pub line: usize,
    /// expected 1-based column (semantic classes); `col_max` > col when any column inside the statement is accepted
    pub col: Option<usize>,
    pub col_max: Option<usize>,
    pub container: &'static str,
    pub msg_contains: &'static str,
    pub fault_text: String,
    pub base_ok: bool,
}

fn find_stmt(body: &[Stmt], target: &Stmt, n: &mut usize, out: &mut Vec<usize>) {
    for s in body {
        if s == target {
            out.push(*n);
        }
        *n += 1;
        for c in s.children() {
            find_stmt(c, target, n, out);
        }
    }
}

/// The injected duplicate: a statement equal to `target` that follows another definition of the same name in its own
/// block (an equally named symbol of another scope is not it).
fn find_redefinition(body: &[Stmt], target: &Stmt, n: &mut usize, out: &mut Vec<usize>) {
    let name_of = |s: &Stmt| match s {
        Stmt::Label { name, .. } | Stmt::Const { name, .. } | Stmt::Var { name, .. } => Some(name.clone()),
        _ => None,
    };
    let tname = name_of(target);
    let mut seen = false;
    for s in body {
        if s == target && seen {
            out.push(*n);
        }
        if tname.is_some() && name_of(s) == tname {
            seen = true;
        }
        *n += 1;
        for c in s.children() {
            find_redefinition(c, target, n, out);
        }
    }
}

pub fn inject(c: &Case) -> Option<Injected> {
    let mut g = GenCfg::full();
    g.max_stmts = 30;
    g.constructs_boost = true;
    let b = build(&c.entropy, &g);
    let mut prog = b.prog.clone();
    let consts = pure_consts(&prog);
    let mut e = Ent::new(&c.sel);
    let mut invoked = BTreeSet::new();
    invoked_macros(prog.main(), true, &consts, &mut invoked);
    let mut points = vec![];
    collect_points(prog.main(), &mut vec![], true, "top", &consts, &invoked, &mut points);
    let fresh = "zzfault1";
    // macros for the arity class
    let mut macros: Vec<(String, usize)> = vec![];
    visit_stmts(prog.main(), &mut |s| {
        if let Stmt::MacroDef { name, params, .. } = s {
            macros.push((name.clone(), params.len()));
        }
    });
    let class = c.class;
    let usable: Vec<&Point> = points.iter().filter(|p| p.live || !class.semantic()).filter(|p| p.container != "test").collect();
    if usable.is_empty() {
        return None;
    }
    let mut msg = "";
    let mut extra_files: Vec<(String, String)> = vec![];
    // the diagnostic may sit on the mnemonic or on the operand
    let mut wide = false;
    let mut stmt: Option<Stmt> = None;
    let mut locate_text: Option<String> = None;
    let mut point = usable[e.below(usable.len())].clone();
    match class {
        Class::UndefSymbol => {
            msg = "unknown identifier";
            stmt = Some(match e.below(6) {
                0 | 1 => Stmt::Instr { mn: "lda".into(), form: Form::Plain, operand: Some(Expr::id(fresh)) },
                2 | 3 => Stmt::Data { size: DataSize::Byte, vals: vec![Expr::num(1), Expr::id(fresh)] },
                4 => Stmt::Raw(format!(".text \"zz{{{}}}\"", fresh)),
                // (the file without the name in its path exists: an ignored name would include it)
                _ => {
                    extra_files.push(("zz.bin".to_string(), "AB".to_string()));
                    Stmt::Raw(format!(".file \"zz{{{}}}.bin\"", fresh))
                }
            });
            locate_text = Some(fresh.to_string());
        }
        Class::UndefMacro => {
            msg = "unknown identifier";
            stmt = Some(Stmt::MacroCall { name: fresh.into(), args: vec![Expr::num(1)] });
            locate_text = Some(fresh.to_string());
        }
        Class::UndefSegment => {
            msg = "unknown identifier";
            stmt = Some(Stmt::Segment { name: fresh.into(), block: Some(vec![Stmt::Instr { mn: "nop".into(), form: Form::None, operand: None }]) });
            locate_text = Some(format!("\"{}\"", fresh));
        }
        Class::Redefinition => {
            msg = "cannot redefine symbol";
            // duplicate an existing label/constant of a live block, right after it
            let mut cands: Vec<(Vec<(usize, usize)>, usize, Stmt)> = vec![];
            let mut seen: BTreeSet<Vec<(usize, usize)>> = BTreeSet::new();
            for p in points.iter().filter(|p| p.live) {
                if !seen.insert(p.path.clone()) {
                    continue;
                }
                let mut main = prog.main().clone();
                let blk = block_at(&mut main, &p.path);
                for (i, s) in blk.iter().enumerate() {
                    match s {
                        Stmt::Label { name, .. } => cands.push((p.path.clone(), i + 1, Stmt::Label { name: name.clone(), block: None })),
                        Stmt::Const { name, .. } => cands.push((p.path.clone(), i + 1, Stmt::Const { name: name.clone(), e: Expr::num(64001) })),
                        _ => {}
                    }
                }
            }
            if cands.is_empty() {
                return None;
            }
            let (path, at, s) = cands[e.below(cands.len())].clone();
            let cont = points.iter().find(|p| p.path == path).map(|p| p.container).unwrap_or("top");
            point = Point { path, at, live: true, container: cont };
            // a label directly in front of it takes no block, keep it simple: the duplicate follows the original
            stmt = Some(s);
        }
        Class::IllegalForm => {
            msg = "invalid instruction";
            let (mn, form) = *e.pick(&[("ldx", Form::PlainX), ("sty", Form::PlainY), ("jmp", Form::IndX), ("lda", Form::Ind), ("inc", Form::Imm), ("jsr", Form::IndY), ("stx", Form::IndX), ("rts", Form::Imm)]);
            stmt = Some(Stmt::Instr { mn: mn.into(), form, operand: Some(Expr::hex(0x1234)) });
        }
        Class::ImmTooBig => {
            msg = "invalid instruction";
            let mn = *e.pick(&["lda", "cmp", "ldx", "adc", "ora"]);
            match e.below(4) {
                0 => {
                    // below -128: no byte stands for it
                    let v = -(129 + e.below(65000) as i64);
                    stmt = Some(Stmt::Raw(format!("{} #{}", mn, v)));
                }
                1 => {
                    // a difference of labels that only becomes too big when everything has its final place
                    let n = 254 + e.below(3);
                    let zeros = vec!["0"; n].join(",");
                    stmt = Some(Stmt::Raw(format!("{f}a:\n{mn} #{f}b - {f}a\n.byte {z}\n{f}b:", f = fresh, mn = mn, z = zeros)));
                    locate_text = Some(format!("{} #{}b", mn, fresh));
                    wide = true;
                }
                _ => {
                    let v = 256 + e.below(65000) as i64;
                    stmt = Some(Stmt::Instr { mn: mn.into(), form: Form::Imm, operand: Some(Expr::num(v)) });
                }
            }
        }
        Class::BranchRange => {
            msg = "branch too far";
            let back = e.chance(1, 2);
            // half of them only just out of reach (forward: n bytes in between; backward: n + 2)
            let n = if e.chance(1, 2) { (if back { 127 } else { 128 }) + e.below(3) } else { 130 + e.below(60) };
            let zeros = vec!["0"; n].join(",");
            let mn = *e.pick(&["bne", "beq", "bcc", "bmi"]);
            let raw = if back { format!("{f}:\n.byte {z}\n{mn} {f}", f = fresh, z = zeros, mn = mn) } else { format!("{mn} {f}\n.byte {z}\n{f}:", f = fresh, z = zeros, mn = mn) };
            stmt = Some(Stmt::Raw(raw));
            locate_text = Some(format!("{} {}", mn, fresh));
            wide = true;
        }
        Class::MacroArity => {
            msg = "arguments, got";
            let live_macros: Vec<&(String, usize)> = macros.iter().collect();
            if live_macros.is_empty() {
                return None;
            }
            let (name, np) = live_macros[e.below(live_macros.len())].clone();
            let n = if np > 0 && e.chance(1, 2) { np - 1 } else { np + 1 };
            let args: Vec<Expr> = (0..n).map(|i| Expr::num(77770 + i as i64)).collect();
            // an uninvoked macro's body may contain anything; the arity error is independent of it
            stmt = Some(Stmt::MacroCall { name, args });
            if n == 0 {
                return None;
            }
        }
        Class::Malformed => {
            msg = "";
            let raw = *e.pick(&["lda #", "zzfault1 bar", ".byte", "lda ,x", ".const = 3", "zzfault1 :", ".loop { nop }", "lda ($10", ".text"]);
            stmt = Some(Stmt::Raw(raw.to_string()));
        }
        Class::UnclosedBlock => {
            msg = "";
        }
        Class::Unevaluable => {
            msg = "";
            let top_macros: Vec<String> = prog.main().iter().filter_map(|s| if let Stmt::MacroDef { name, .. } = s { Some(name.clone()) } else { None }).collect();
            let mut kind = e.below(4);
            if kind == 0 && top_macros.is_empty() {
                kind = 1;
            }
            if kind == 3 && !point.path.is_empty() {
                kind = 2;
            }
            let raw = match kind {
                0 => {
                    let m = &top_macros[e.below(top_macros.len())];
                    match e.below(4) {
                        0 => format!("jsr {}", m),
                        1 => format!("lda #<{}", m),
                        2 => format!(".byte {}, 7", m),
                        _ => format!(".word 1 + {}", m),
                    }
                }
                1 => e.pick(&["lda #1 + \"a\"", ".byte 2 * \"x\", 7", ".word \"ab\" - 1", "ldx #\"a\" == 1"]).to_string(),
                2 => e.pick(&["lda #1 << 64", ".byte 4611686018427387904 * 2", ".word 9223372036854775807 + 1"]).to_string(),
                _ => format!(".define segment {{ name = \"{}\" start = {} }}", fresh, e.pick(&["nosuchfn(1)", "9223372036854775807 + 1", "\"str\"", "8192 + \"a\""])),
            };
            stmt = Some(Stmt::Raw(raw));
        }
        Class::MissingImport => {
            msg = "file not found";
            stmt = Some(Stmt::Import { args: ImportArgs::All { as_: None }, file: format!("{}.asm", fresh), block: None });
            locate_text = Some(format!("\"{}.asm\"", fresh));
        }
    }
    // base validity
    let (base_proj, _) = prog.render();
    let base = guarded(|| assemble(&base_proj, AsmOptions::default())).ok()?;
    let base_ok = base.ok();

    let mut fault_stmt = None;
    if let Some(s) = &stmt {
        let main = prog.main_mut();
        let blk = block_at(main, &point.path);
        let at = point.at.min(blk.len());
        blk.insert(at, s.clone());
        separate_ambiguous(main);
        fault_stmt = Some(s.clone());
    }
    // In a third of the cases the top-level statement that holds the fault moves to an imported file: the diagnostic
    // has to name that file. (Definitions stay where they are: what they export and see must not change.)
    let mut fault_file = "main.asm".to_string();
    let mut base_ok = base_ok;
    if let (Some(s), true) = (&fault_stmt, class != Class::UnclosedBlock && class != Class::MissingImport && e.chance(1, 3)) {
        fn holds(st: &Stmt, target: &Stmt) -> bool {
            st == target || st.children().iter().any(|b| b.iter().any(|c| holds(c, target)))
        }
        let main = prog.main_mut();
        let first_movable = main.iter().rposition(|st| matches!(st, Stmt::DefineSegment { .. } | Stmt::DefineBank { .. })).map(|i| i + 1).unwrap_or(0);
        let ti = if class == Class::Redefinition { main.iter().rposition(|st| holds(st, s)) } else { main.iter().position(|st| holds(st, s)) };
        if let Some(ti) = ti {
            let movable = ti >= first_movable && matches!(main[ti], Stmt::Instr { .. } | Stmt::Data { .. } | Stmt::Braces(_) | Stmt::Loop { .. } | Stmt::If { .. } | Stmt::MacroCall { .. } | Stmt::Segment { block: Some(_), .. } | Stmt::Label { block: Some(_), .. });
            // (a redefinition needs both definitions in one file and scope: only when the pair sits inside the moved block)
            let pair_inside = class != Class::Redefinition || main[ti] != *s;
            if movable && pair_inside {
                let moved = main.remove(ti);
                main.insert(ti, Stmt::Import { args: ImportArgs::All { as_: None }, file: "lib.asm".into(), block: None });
                separate_ambiguous(main);
                prog.files.insert("lib.asm".into(), vec![moved]);
                fault_file = "lib.asm".to_string();
                // the split program without the fault has to be valid too
                let mut clean = prog.clone();
                fn remove_first(body: &mut Vec<Stmt>, target: &Stmt, last: bool) -> bool {
                    let pos = if last { body.iter().rposition(|x| x == target) } else { body.iter().position(|x| x == target) };
                    if let Some(i) = pos {
                        body.remove(i);
                        return true;
                    }
                    for st in body.iter_mut() {
                        for b in st.children_mut() {
                            if remove_first(b, target, last) {
                                return true;
                            }
                        }
                    }
                    false
                }
                let lib = clean.files.get_mut("lib.asm").unwrap();
                if !remove_first(lib, s, class == Class::Redefinition) {
                    return None;
                }
                let (cp, _) = clean.render();
                base_ok = base_ok && guarded(|| assemble(&cp, AsmOptions::default())).ok()?.ok();
            }
        }
    }
    let (mut proj, rs) = prog.render();
    for (n, t) in extra_files {
        proj.files.insert(n, t);
    }
    let r = &rs[fault_file.as_str()];
    let text = r.text.clone();
    let (line, col, fault_text);
    let mut col_max: Option<usize> = None;
    if class == Class::UnclosedBlock {
        // delete the closing brace of a block-bearing statement
        let mut cands: Vec<(usize, usize)> = vec![];
        let mut n = 0usize;
        fn walk(body: &[Stmt], n: &mut usize, out: &mut Vec<usize>) {
            for s in body {
                let has_block = !s.children().is_empty() && !matches!(s, Stmt::If { els: Some(_), .. });
                if has_block {
                    out.push(*n);
                }
                *n += 1;
                for c in s.children() {
                    walk(c, n, out);
                }
            }
        }
        let mut ns = vec![];
        walk(prog.main(), &mut n, &mut ns);
        for k in ns {
            if let Some((a, b)) = r.stmt_span(k) {
                if b > a && text.as_bytes()[b - 1] == b'}' {
                    cands.push((a, b - 1));
                }
            }
        }
        if cands.is_empty() {
            return None;
        }
        let (a, close) = cands[e.below(cands.len())];
        let mut t = text.clone();
        t.remove(close);
        proj.files.insert("main.asm".into(), t);
        line = r.line_col(a).0;
        col = None;
        fault_text = format!("closing brace at offset {} deleted (block opens on line {})", close, line);
    } else {
        let s = fault_stmt.as_ref().unwrap();
        let mut found = vec![];
        let mut n = 0;
        if class == Class::Redefinition {
            find_redefinition(&prog.files[fault_file.as_str()], s, &mut n, &mut found);
        } else {
            find_stmt(&prog.files[fault_file.as_str()], s, &mut n, &mut found);
        }
        let idx = *found.first()?;
        let (a, bnd) = r.stmt_span(idx)?;
        fault_text = text[a..bnd].chars().take(60).collect();
        match &locate_text {
            Some(t) => {
                let off = text[a..bnd].find(t.as_str()).map(|o| a + o)?;
                let (l, cc) = r.line_col(off);
                line = l;
                col = Some(cc);
                if wide {
                    // mnemonic or operand
                    col_max = Some(cc + t.len());
                }
            }
            None => {
                let (l, cc) = r.line_col(a);
                line = l;
                col = if class.semantic() { Some(cc) } else { None };
                // the diagnostic may point at the mnemonic, the operand or the defined name: anywhere inside the statement
                let first_line_end = text[a..bnd].find('\n').map(|o| a + o).unwrap_or(bnd);
                col_max = Some(r.line_col(first_line_end).1);
            }
        }
    }
    Some(Injected { project: proj, class, file: fault_file.clone(), line, col, col_max, container: point.container, msg_contains: msg, fault_text, base_ok })
}

fn located(diags: &[(Option<String>, usize, usize, String)], inj: &Injected) -> bool {
    diags.iter().any(|(f, l, c, m)| {
        let file_ok = f.as_deref().map(|f| f.ends_with(&inj.file)).unwrap_or(false);
        let line_ok = if inj.class == Class::UnclosedBlock { *l >= inj.line } else { *l == inj.line };
        let col_ok = match (inj.col, inj.col_max) {
            (Some(lo), Some(hi)) => *c >= lo && *c <= hi,
            (Some(x), None) => x == *c,
            _ => true,
        };
        // an operand on an instruction that takes none is rejected by the parser already
        // the property asks for a located diagnostic, not for a particular wording
        let _ = m;
        file_ok && line_ok && col_ok
    })
}

pub fn prop(c: &Case, log: &mut CaseLog) -> Verdict {
    let inj = match inject(c) {
        Some(i) => i,
        None => return Verdict::Discard("no injection point".into()),
    };
    if !inj.base_ok {
        log.label("base-invalid");
        return Verdict::Discard("base program does not assemble".into());
    }
    log.label(format!("class:{:?}", inj.class));
    log.label(format!("class-x-container:{:?}:{}", inj.class, inj.container));
    log.nontrivial = inj.line > 2 || inj.container != "top";
    log.label_if(inj.file != "main.asm", "fault-in-imported-file");
    let text = inj.project.files.iter().map(|(n, t)| format!("--- {} ---\n{}", n, t)).collect::<Vec<_>>().join("\n");
    let describe = |d: &dyn std::fmt::Debug| format!("fault class {:?}: {:?} expected at {}:{}:{:?} (message containing {:?})\n{}\nreported: {:?}", inj.class, inj.fault_text, inj.file, inj.line, inj.col, inj.msg_contains, text, d);
    if !c.cli {
        let a = match guarded(|| assemble(&inj.project, AsmOptions::default())) {
            Ok(a) => a,
            Err(_) => {
                log.label("sut-panic");
                return Verdict::Pass;
            }
        };
        if a.pass_verdict != PassVerdict::Ended {
            log.label("pass-loop-not-ended");
            return Verdict::Pass;
        }
        let diags: Vec<Diag> = a.all_diags();
        if diags.is_empty() {
            return Verdict::fail(format!("invalid-program-accepted|{:?}", inj.class), describe(&a.segments()));
        }
        let tuples: Vec<(Option<String>, usize, usize, String)> = diags.iter().map(|d| (d.file.clone(), d.line, d.col, d.msg.clone())).collect();
        if !located(&tuples, &inj) {
            return Verdict::fail(format!("no-diagnostic-at-fault|{:?}", inj.class), describe(&diags.iter().map(|d| d.short()).collect::<Vec<_>>()));
        }
        return Verdict::Pass;
    }
    // ---- CLI: exit status, located diagnostic, nothing written
    let sc = Scratch::new("c04");
    let toml = "[build]\nentry = \"main.asm\"\nlisting = true\nsymbols = [\"vice\"]\n";
    sc.write_project(&inj.project, toml);
    for name in ["main.prg", "main.bin", "main.lst", "main.vs"] {
        sc.write(&format!("target/{}", name), format!("sentinel {}", name).as_bytes());
    }
    let before = sc.snapshot("target");
    let run = run_mos(&sc.dir, &["--no-color", "-e", "Short", "build"]);
    if run.timed_out {
        log.label("cli-timeout");
        return Verdict::Discard("mos killed by the watchdog".into());
    }
    let after = sc.snapshot("target");
    log.label("cli");
    if run.code == Some(0) {
        return Verdict::fail(format!("cli-exit-status-zero|{:?}", inj.class), describe(&run.stdout));
    }
    if run.code != Some(1) {
        return Verdict::fail(format!("cli-abnormal-exit|{:?}|{:?}", run.code, run.signal), describe(&(run.stdout.clone(), run.stderr.clone())));
    }
    if before != after {
        let changed: Vec<&String> = after.keys().filter(|k| before.get(*k) != after.get(*k)).chain(before.keys().filter(|k| !after.contains_key(*k))).collect();
        return Verdict::fail(format!("cli-output-written-on-error|{:?}", inj.class), describe(&changed));
    }
    let ds = parse_short_diags(&run.stdout);
    let tuples: Vec<(Option<String>, usize, usize, String)> = ds.iter().map(|d| (d.file.clone(), d.line, d.col, d.msg.clone())).collect();
    if !located(&tuples, &inj) {
        return Verdict::fail(format!("cli-no-diagnostic-at-fault|{:?}", inj.class), describe(&run.stdout));
    }
    Verdict::Pass
}

pub fn to_json(c: &Case) -> serde_json::Value {
    let inj = inject(c);
    json!({"entropy": c.entropy, "class": c.class, "sel": c.sel, "cli": c.cli,
        "program": inj.as_ref().map(|i| i.project.main_text().to_string()),
        "fault": inj.as_ref().map(|i| i.fault_text.clone()), "expected": inj.as_ref().map(|i| (i.line, i.col))})
}

pub fn strategy(cli: bool) -> impl Strategy<Value = Case> {
    (proptest::collection::vec(any::<u32>(), 8..260), proptest::sample::select(CLASSES.to_vec()), proptest::collection::vec(any::<u32>(), 4..12)).prop_map(move |(entropy, class, sel)| Case { entropy, class, sel, cli })
}

pub fn run_check(ctx: &mut Ctx) {
    ctx.rule = "a valid generator program (scopes, macros, loops, conditionals, segments) + exactly one injected fault of one of 12 classes (undefined symbol/macro/segment - also inside the string of .text and the path of .file; redefinition; illegal addressing form; immediate > 255, < -128 or a label difference that ends up at 256; branch out of range, half of them by one to three bytes; macro arity; malformed statement; unclosed block; missing import; an expression that can have no value: macro name, number with string, 64-bit overflow, error in a segment's start) at a generated position - semantic faults at live positions only, syntax faults anywhere; in a third of the cases the top-level statement holding the fault is moved to an imported file. oracle: in-process: >= 1 diagnostic and one of them at the injector's file/line(/column) with the class's message; CLI (`mos build -e Short`, listing+symbols on, target pre-populated with sentinels): exit status 1, located diagnostic on stdout, target directory byte- and mtime-identical. non-trivial = fault not on the first two lines or inside a scope/macro/loop/if".into();
    let n = ctx.tier.pick(30_000, 600_000);
    ctx.campaign_parallel("in-process", n, 16, || strategy(false), prop, to_json);
    if have_mos() {
        let n2 = ctx.tier.pick(3200, 60_000);
        ctx.campaign_parallel("cli", n2, 16, || strategy(true), prop, to_json);
    } else {
        ctx.health(false, "mos binary not built (MOS_BIN)");
    }
    let k = ctx.label_count("fault-in-imported-file");
    ctx.health(k > 0, "no fault inside an imported file");
    for cl in CLASSES {
        let k = ctx.label_count(&format!("class:{:?}", cl));
        ctx.health(k > 0, format!("class {:?} never injected", cl));
    }
}

pub fn replay(ctx: &mut Ctx, case: &serde_json::Value) {
    let c: Case = match serde_json::from_value(json!({"entropy": case["entropy"], "class": case["class"], "sel": case["sel"], "cli": case["cli"]})) {
        Ok(c) => c,
        Err(e) => {
            ctx.health(false, format!("replay case does not deserialize: {}", e));
            return;
        }
    };
    ctx.replay_one(&c, prop, case.clone());
}
