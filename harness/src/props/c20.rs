//! C20 — shutdown is clean in every session state.

use crate::engine::{CaseLog, Ctx, Verdict};
use crate::sut::cli::{have_mos, Scratch};
use crate::sut::dap::DapClient;
use crate::sut::lsp::LspClient;
use serde::{Deserialize, Serialize};
use serde_json::{json, Value};
use std::time::{Duration, Instant};

#[derive(Clone, Copy, Debug, Hash, PartialEq, Eq, Serialize, Deserialize)]
pub enum State {
    NoDebugger,
    ConnectedIdle,
    StoppedAtBreakpoint,
    Running,
    TestFinished,
    /// no debugger until the `shutdown` request has been answered; one connects before `exit`
    AttachesAfterShutdown,
    /// the debug port is in use by someone else when the server starts: no debugger can ever attach
    PortTaken,
    /// stopped at a breakpoint, after requests a client may well send but the adapter may not expect (completions with the
    /// cursor at the end of the text, variables of an unknown reference, a breakpoint on line 0 / in a source without a
    /// path)
    AfterOddRequests,
    /// stopped at a call of a subroutine that never returns, and the client has asked to step over it
    SteppingOverEndlessCall,
    /// a launch request in a project without mos.toml
    LaunchWithoutConfig,
}

#[derive(Clone, Copy, Debug, Hash, PartialEq, Eq, Serialize, Deserialize)]
pub enum Order {
    ShutdownExit,
    DisconnectShutdownExit,
    ShutdownDisconnectExit,
    CloseStdin,
}

pub const STATES: [State; 10] = [
    State::NoDebugger,
    State::ConnectedIdle,
    State::StoppedAtBreakpoint,
    State::Running,
    State::TestFinished,
    State::AttachesAfterShutdown,
    State::PortTaken,
    State::AfterOddRequests,
    State::SteppingOverEndlessCall,
    State::LaunchWithoutConfig,
];

/// line 3 is a call of a subroutine that waits for something that never happens in the test runner
pub const SPIN_TEST: &str = ".test \"spin\" {\n    lda #1\n    jsr waitq\n    nop\n    brk\n}\nwaitq: {\n    lda $d012\n    cmp #$ff\n    bne waitq\n    rts\n}\n";
pub const ORDERS: [Order; 4] = [Order::ShutdownExit, Order::DisconnectShutdownExit, Order::ShutdownDisconnectExit, Order::CloseStdin];

#[derive(Clone, Debug, Hash, PartialEq, Eq, Serialize, Deserialize)]
pub struct Case {
    pub state: State,
    pub order: Order,
    /// delay (ms) between reaching the state and starting the shutdown sequence
    pub delay_ms: u64,
}

pub const LONG_TEST: &str = ".test \"long\" {\n    lda #40\n    sta $10\nl3:\n    ldx #0\nl2:\n    ldy #0\nl1:\n    nop\n    dey\n    bne l1\n    dex\n    bne l2\n    dec $10\n    bne l3\n    brk\n}\n.test \"short\" {\n    lda #1\n    nop\n    brk\n}\n";

/// thread states of a process: (name, state char, utime+stime, syscall number)
pub fn thread_sample(pid: u32) -> Vec<(String, char, u64, String)> {
    let mut v = vec![];
    if let Ok(rd) = std::fs::read_dir(format!("/proc/{}/task", pid)) {
        for e in rd.filter_map(|e| e.ok()) {
            let p = e.path();
            let stat = std::fs::read_to_string(p.join("stat")).unwrap_or_default();
            let sys = std::fs::read_to_string(p.join("syscall")).unwrap_or_default();
            // fields after the ")" of the comm
            if let Some(idx) = stat.rfind(')') {
                let rest: Vec<&str> = stat[idx + 1..].split_whitespace().collect();
                let st = rest.first().and_then(|s| s.chars().next()).unwrap_or('?');
                let ut: u64 = rest.get(11).and_then(|s| s.parse().ok()).unwrap_or(0);
                let stt: u64 = rest.get(12).and_then(|s| s.parse().ok()).unwrap_or(0);
                v.push((e.file_name().to_string_lossy().to_string(), st, ut + stt, sys.split_whitespace().next().unwrap_or("").to_string()));
            }
        }
    }
    v.sort();
    v
}

pub fn prop(c: &Case, log: &mut CaseLog) -> Verdict {
    log.label(format!("state:{:?}", c.state));
    log.label(format!("order:{:?}", c.order));
    log.nontrivial = true;
    let sc = Scratch::new("c20");
    if c.state != State::LaunchWithoutConfig {
        sc.write("mos.toml", b"[build]\nentry = \"main.asm\"\n");
    }
    let source = if c.state == State::SteppingOverEndlessCall { SPIN_TEST } else { LONG_TEST };
    sc.write("main.asm", source.as_bytes());
    // (for PortTaken: somebody else listens on the port the server is told to use)
    let mut squatter: Option<std::net::TcpListener> = None;
    let started = if c.state == State::PortTaken {
        let l = std::net::TcpListener::bind(("127.0.0.1", 0)).expect("bind");
        let port = l.local_addr().unwrap().port();
        squatter = Some(l);
        LspClient::start_on_port(&sc.dir, port)
    } else {
        LspClient::start(&sc.dir)
    };
    let mut lsp = match started {
        Ok(l) => l,
        Err(e) => {
            // (the session state is this check's input, not its subject: a state that could not be set up within the
            // time limits says nothing about shutting down in it)
            let _ = e;
            log.label("inconclusive");
            log.label("state-not-reached:server-did-not-start");
            return Verdict::Pass;
        }
    };
    let port = lsp.port;
    let uri = crate::sut::lsp::file_uri(&sc.dir, "main.asm");
    lsp.did_open(&uri, source);
    // a request as barrier so that the analysis is done
    let _ = lsp.request("textDocument/documentSymbol", json!({"textDocument": {"uri": uri}}), Duration::from_secs(20));
    let t = Duration::from_secs(10);
    let mut dap: Option<DapClient> = None;
    let mut trace: Vec<String> = vec![];
    if c.state != State::NoDebugger && c.state != State::AttachesAfterShutdown && c.state != State::PortTaken {
        let mut d = match DapClient::connect(port, Duration::from_secs(10)) {
            Some(d) => d,
            None => {
                log.label("inconclusive");
                log.label("state-not-reached:debug-port-not-listening");
                return Verdict::Pass;
            }
        };
        let r = d.request("initialize", json!({"adapterID": "mos", "linesStartAt1": true, "columnsStartAt1": true}), t);
        trace.push(format!("initialize: {:?}", r.is_ok()));
        if c.state != State::ConnectedIdle {
            let test = match c.state {
                State::TestFinished => "short",
                State::SteppingOverEndlessCall => "spin",
                _ => "long",
            };
            let launch_timeout = if c.state == State::LaunchWithoutConfig { Duration::from_secs(3) } else { t };
            let r = d.request("launch", json!({"workspace": sc.dir.to_string_lossy(), "testRunner": {"testCaseName": test}}), launch_timeout);
            trace.push(format!("launch: {:?}", r.as_ref().err()));
            if c.state == State::SteppingOverEndlessCall {
                let r = d.request("setBreakpoints", json!({"source": {"path": sc.dir.join("main.asm").to_string_lossy()}, "breakpoints": [{"line": 3}]}), t);
                trace.push(format!("setBreakpoints: {:?}", r.as_ref().map(|v| v["body"].clone())));
            }
            if c.state == State::StoppedAtBreakpoint || c.state == State::AfterOddRequests {
                // the `nop` in the inner loop: line 9 of the file
                let r = d.request("setBreakpoints", json!({"source": {"path": sc.dir.join("main.asm").to_string_lossy()}, "breakpoints": [{"line": 9}]}), t);
                trace.push(format!("setBreakpoints: {:?}", r.as_ref().map(|v| v["body"].clone())));
            }
            let r = d.request("configurationDone", Value::Null, t);
            trace.push(format!("configurationDone: {:?}", r.as_ref().err()));
            match c.state {
                State::LaunchWithoutConfig => {
                    d.pump(Duration::from_millis(30));
                }
                State::StoppedAtBreakpoint | State::AfterOddRequests | State::SteppingOverEndlessCall => {
                    let e = d.wait_event("stopped", 0, t);
                    trace.push(format!("stopped event: {}", e.is_some()));
                    if e.is_none() {
                        log.label("inconclusive");
                        log.label("state-not-reached:stopped");
                        return Verdict::Pass;
                    }
                    let short = Duration::from_millis(700);
                    if c.state == State::AfterOddRequests {
                        // whether and how these are answered is not the point: the session state they leave behind is
                        let odd: Vec<(&str, Value)> = vec![
                            ("completions", json!({"text": "cpu.", "column": 5})),
                            ("completions", json!({"text": "\u{e9}", "column": 1})),
                            ("variables", json!({"variablesReference": 4})),
                            ("setBreakpoints", json!({"source": {"path": sc.dir.join("main.asm").to_string_lossy()}, "breakpoints": [{"line": 0}]})),
                            ("setBreakpoints", json!({"source": {"name": "nowhere"}, "breakpoints": [{"line": 2}]})),
                        ];
                        // (one of them per case, chosen by the delay, so that a session that dies of one does not hide the others)
                        let (m, a) = odd[(c.delay_ms as usize) % odd.len()].clone();
                        let r = d.request(m, a, short);
                        trace.push(format!("{}: {:?}", m, r.as_ref().map(|_| "answered")));
                    }
                    if c.state == State::SteppingOverEndlessCall {
                        let r = d.request("next", json!({"threadId": 1}), short);
                        trace.push(format!("next: {:?}", r.as_ref().map(|_| "answered")));
                    }
                }
                State::TestFinished => {
                    let e = d.wait_event("terminated", 0, t);
                    trace.push(format!("terminated event: {}", e.is_some()));
                    if e.is_none() {
                        log.label("inconclusive");
                        log.label("state-not-reached:terminated");
                        return Verdict::Pass;
                    }
                }
                _ => {
                    d.pump(Duration::from_millis(30));
                }
            }
        }
        dap = Some(d);
    }
    std::thread::sleep(Duration::from_millis(c.delay_ms));
    let pid = lsp.pid();
    // ---- the shutdown sequence
    let disconnect = |d: &mut Option<DapClient>, trace: &mut Vec<String>| {
        if let Some(dc) = d.as_mut() {
            let r = dc.request("disconnect", json!({}), Duration::from_secs(5));
            trace.push(format!("disconnect: {:?}", r.as_ref().map(|_| "ok")));
        }
    };
    match c.order {
        Order::ShutdownExit => {
            let r = lsp.request("shutdown", Value::Null, t);
            trace.push(format!("shutdown: {:?}", r.as_ref().map(|_| "ok")));
            if c.state == State::AttachesAfterShutdown {
                dap = DapClient::connect(port, Duration::from_secs(5));
                trace.push(format!("debugger connects after shutdown: {}", dap.is_some()));
                std::thread::sleep(Duration::from_millis(c.delay_ms));
            }
            lsp.notify("exit", Value::Null);
        }
        Order::DisconnectShutdownExit => {
            disconnect(&mut dap, &mut trace);
            let r = lsp.request("shutdown", Value::Null, t);
            trace.push(format!("shutdown: {:?}", r.as_ref().map(|_| "ok")));
            lsp.notify("exit", Value::Null);
        }
        Order::ShutdownDisconnectExit => {
            let r = lsp.request("shutdown", Value::Null, t);
            trace.push(format!("shutdown: {:?}", r.as_ref().map(|_| "ok")));
            disconnect(&mut dap, &mut trace);
            lsp.notify("exit", Value::Null);
        }
        Order::CloseStdin => {}
    }
    lsp.close_stdin();
    // ---- wait for the process
    let deadline = Instant::now() + Duration::from_secs(10);
    let mut status = None;
    while Instant::now() < deadline {
        if let Some(s) = lsp.try_wait() {
            status = Some(s);
            break;
        }
        std::thread::sleep(Duration::from_millis(10));
    }
    let stderr = lsp.stderr_tail();
    let detail = |what: &str| format!("{}\nstate {:?}, order {:?}, delay {} ms\nsession: {:?}\nstderr: {}", what, c.state, c.order, c.delay_ms, trace, stderr);
    match status {
        Some((Some(0), _)) => {
            let squatted = squatter.take().is_some();
            // the debug port must be free again
            if std::net::TcpListener::bind(("127.0.0.1", port)).is_err() {
                if !squatted && stderr.contains("Couldn't listen on port") {
                    // the server itself never had the port: between the moment the harness found it free and the
                    // moment the server wanted it, another process of this machine took it (a server of the check
                    // that ran before this one and is still on its way out, for example). Nothing to judge.
                    log.label("debug-port-taken-by-another-process");
                    return Verdict::Discard("the debug port was taken by a foreign process before the server could bind it".into());
                }
                return Verdict::fail("debug-port-still-bound-after-exit", detail("port not released"));
            }
            Verdict::Pass
        }
        Some((code, sig)) => {
            let panic_line = stderr.lines().find(|l| l.contains("panicked")).unwrap_or("").to_string();
            let at = panic_line.split("panicked at ").nth(1).map(|s| s.split(':').next().unwrap_or("").to_string()).unwrap_or_default();
            Verdict::fail(format!("exit-status-not-zero|code={:?}|signal={:?}|{}", code, sig, at.trim_start_matches('\'')), detail("the server did not exit with status 0"))
        }
        None => {
            // still alive after 10 s: judged by a deadlock witness only, never by the clock alone
            let a = thread_sample(pid);
            std::thread::sleep(Duration::from_millis(300));
            let b = thread_sample(pid);
            let all_blocked = !a.is_empty() && a.len() == b.len() && a.iter().zip(b.iter()).all(|(x, y)| x.1 == 'S' && y.1 == 'S' && x.2 == y.2);
            if all_blocked {
                Verdict::fail("process-never-exits|all-threads-blocked", detail(&format!("all {} threads sleeping without consuming CPU: {:?}", a.len(), b)))
            } else {
                // Not blocked: is it doing something that will end? Give it another 15 s. A thread that has then been
                // computing all the time (more than 10 s of CPU time, in clock ticks of 10 ms) while every other thread
                // sleeps is not on its way out either.
                let deadline = Instant::now() + Duration::from_secs(15);
                while Instant::now() < deadline {
                    if let Some(s) = lsp.try_wait() {
                        log.label("slow-exit");
                        log.label("inconclusive");
                        let _ = s;
                        return Verdict::Pass;
                    }
                    std::thread::sleep(Duration::from_millis(50));
                }
                let z = thread_sample(pid);
                let spinning: Vec<_> = z.iter().filter(|t| a.iter().find(|x| x.0 == t.0).map(|x| t.2.saturating_sub(x.2) >= 1000).unwrap_or(false)).collect();
                let others_sleep = z.iter().filter(|t| !spinning.iter().any(|s| s.0 == t.0)).all(|t| t.1 == 'S' && a.iter().find(|x| x.0 == t.0).map(|x| x.2 == t.2).unwrap_or(false));
                if spinning.len() == 1 && others_sleep {
                    Verdict::fail("process-never-exits|one-thread-computing-for-ever", detail(&format!("25 s after the end of the session one thread has been computing for {} ticks while the other {} sleep: {:?}", spinning[0].2, z.len() - 1, z)))
                } else {
                    log.label("inconclusive");
                    Verdict::Pass
                }
            }
        }
    }
}

pub fn run_check(ctx: &mut Ctx) {
    ctx.rule = "enumerated: 10 session states (no debugger client; client connected and initialized; launched on the test runner and stopped at a breakpoint; launched and running a long test; short test finished; a debugger client that connects between `shutdown` and `exit`; the debug port taken by someone else at start-up; stopped at a breakpoint after an odd but legal debug request - completions at the end of the text, variables of an unknown reference, a breakpoint on line 0 or in a source without a path; stepping over a call that never returns; launch in a project without mos.toml) x 4 orders (shutdown+exit; disconnect, shutdown, exit; shutdown, disconnect, exit; closing the client's end of the pipe without shutdown) x delay draws; oracle: exit status 0 within 10 s and the debug port bindable afterwards; a process that is still alive is a violation only with a witness: a deadlock (all threads sleeping, no CPU time consumed between two samples) or, 25 s after the end of the session, exactly one thread that has been computing for more than 10 s while all others sleep; otherwise inconclusive. A session state that cannot be set up within the time limits (server start, debug port, stopped/terminated event) is not judged; more than 5% of such cases is a health problem. every case is non-trivial".into();
    if !have_mos() {
        ctx.health(false, "mos binary not built (MOS_BIN)");
        return;
    }
    let delays: Vec<u64> = match ctx.tier {
        crate::engine::Tier::Quick => vec![0, 25],
        crate::engine::Tier::Thorough => vec![0, 1, 5, 10, 25, 50, 100, 200],
    };
    let seed = ctx.seed;
    let mut cases = vec![];
    for (i, d) in delays.iter().enumerate() {
        for s in STATES {
            for o in ORDERS {
                // one extra pseudo-random delay component derived from the seed
                let jitter = (crate::engine::hash_of(&(seed, i, format!("{:?}{:?}", s, o))) % 7) as u64;
                cases.push(Case { state: s, order: o, delay_ms: d + jitter });
            }
        }
    }
    // run in parallel batches of 16
    let results: Vec<(Case, Verdict, CaseLog)> = std::thread::scope(|sc| {
        let mut out = vec![];
        for chunk in cases.chunks(16) {
            let hs: Vec<_> = chunk
                .iter()
                .map(|c| {
                    let c = c.clone();
                    sc.spawn(move || {
                        let mut log = CaseLog::default();
                        let v = prop(&c, &mut log);
                        (c, v, log)
                    })
                })
                .collect();
            for h in hs {
                if let Ok(r) = h.join() {
                    out.push(r);
                }
            }
        }
        out
    });
    for (c, v, log) in results {
        ctx.record_case(&c, &log);
        if ctx.samples.len() < 3 {
            ctx.sample(json!(c));
        }
        ctx.inconclusive += log.labels.iter().filter(|l| *l == "inconclusive").count() as u64;
        if let Verdict::Fail { kind, detail } = v {
            let sig = format!("C20|{}", kind);
            ctx.report_failure(&sig, &detail, json!(c));
        }
    }
    ctx.exhaustive.push(format!("{} states x {} orders x {} delay draws", STATES.len(), ORDERS.len(), delays.len()));
    // a session state that could not be set up within the time limits is not judged; when that happens in more than a few
    // cases the run has not covered what it says it covers
    let not_reached: u64 = ["server-did-not-start", "debug-port-not-listening", "stopped", "terminated"].iter().map(|k| ctx.label_count(&format!("state-not-reached:{}", k))).sum();
    let total = ctx.evaluations.max(1);
    ctx.health(not_reached * 20 <= total, format!("session state not reached in {} of {} cases", not_reached, total));
}

pub fn replay(ctx: &mut Ctx, case: &Value) {
    let c: Case = match serde_json::from_value(case.clone()) {
        Ok(c) => c,
        Err(e) => {
            ctx.health(false, format!("replay case does not deserialize: {}", e));
            return;
        }
    };
    ctx.replay_one(&c, prop, case.clone());
}
