//! C19 — the debugger reports where the machine really is.
//!
//! A debug session (DAP over TCP) on the test runner of a live `mos lsp` process is driven through generated request
//! sequences with generated delays; everything the adapter reports at a stop is compared with a reference trace of the
//! same program (emulator_6502 driven directly, located through the cycle counter the adapter exposes as `CYC`).

use crate::engine::{CaseLog, Ctx, Verdict};
use crate::gen::ast::*;
use crate::gen::build::Ent;
use crate::model::layout::{check_image, CheckErr, ModelOut, Options};
use crate::props::c18::{ins, Gen};
use crate::model::isa::Form;
use crate::sut::cli::{have_mos, Scratch};
use crate::sut::core::{assemble, guarded, AsmOptions};
use crate::sut::dap::{DapClient, DapErr};
use crate::sut::lsp::LspClient;
use proptest::prelude::*;
use serde::{Deserialize, Serialize};
use serde_json::{json, Value};
use std::collections::{BTreeMap, BTreeSet};
use std::time::Duration;

#[derive(Clone, Copy, Debug, Hash, PartialEq, Eq, Serialize, Deserialize)]
pub enum StepKind {
    Next,
    StepIn,
    StepOut,
}

#[derive(Clone, Debug, Hash, PartialEq, Eq, Serialize, Deserialize)]
pub enum Op {
    /// replace the set of breakpoints (selectors over the code lines) while the machine is halted / before it starts
    SetBps { sels: Vec<u32> },
    /// configurationDone / continue; optionally a pause request after a delay, optionally new breakpoints while running
    Run { pause_after_us: Option<u32>, bps_during: Option<(u32, Vec<u32>)> },
    Step { kind: StepKind },
    /// ask again after a delay: nothing may have changed
    Inspect { delay_us: u32 },
}

#[derive(Clone, Debug, Hash, PartialEq, Eq, Serialize, Deserialize)]
pub struct Case {
    pub entropy: Vec<u32>,
    pub ops: Vec<Op>,
    /// finding features allowed in this case
    pub features: Vec<String>,
}

// ------------------------------------------------------------------------------------------------ program + reference

pub fn program(c: &Case) -> Program {
    let has = |f: &str| c.features.iter().any(|x| x == f);
    let mut g = Gen { e: Ent::new(&c.entropy), label_no: 0, subs: vec![], tag: "d".into(), max_loop: 6, extras: true, macros: vec![] };
    g.max_loop = *g.e.pick(&[3u32, 6, 40, 200, 255]);
    let n = 3 + g.e.below(7);
    let mut body = g.items(n, 0, false, false, 0);
    let _ = has;
    if g.e.chance(1, 2) {
        // a long tail, so that a pause after some milliseconds finds the machine running
        let (lo, li) = (g.label("t"), g.label("t"));
        let (nx, ny) = (40 + g.e.below(216) as i64, 40 + g.e.below(216) as i64);
        body.push(ins("ldx", Form::Imm, Some(Expr::num(nx))));
        body.push(Stmt::Label { name: lo.clone(), block: None });
        body.push(ins("ldy", Form::Imm, Some(Expr::num(ny))));
        body.push(Stmt::Label { name: li.clone(), block: None });
        let m = 1 + g.e.below(3);
        body.extend(g.items(m, 2, true, true, 1));
        body.push(ins("dey", Form::None, None));
        body.push(ins("bne", Form::Plain, Some(Expr::id(&li))));
        body.push(ins("dex", Form::None, None));
        body.push(ins("bne", Form::Plain, Some(Expr::id(&lo))));
    }
    if g.e.chance(1, 5) {
        // never ends: an instruction that jumps to itself (a breakpoint on it has to stop the machine every time round)
        body.push(Stmt::Label { name: "qspin".into(), block: None });
        body.push(ins("jmp", Form::Plain, Some(Expr::id("qspin"))));
    }
    // assertions that read memory (always true: they are evaluated while the machine executes, also during a step or a pause)
    for _ in 0..g.e.below(3) {
        let at = g.e.below(body.len() + 1);
        let addr = *g.e.pick(&[0x10i64, 0x0300, 0x2000]);
        body.insert(at, Stmt::Assert { e: Expr::bin(Expr::Call("ram".into(), vec![Expr::hex(addr)]), BinOp::GtEq, Expr::num(0)), msg: None });
    }
    body.push(ins("brk", Form::None, None));
    let subs = std::mem::take(&mut g.subs);
    for (sname, sbody) in subs {
        body.push(Stmt::Label { name: sname, block: None });
        body.extend(sbody);
    }
    let mut main: Vec<Stmt> = vec![];
    for (name, mbody) in std::mem::take(&mut g.macros) {
        main.push(Stmt::MacroDef { name, params: vec![], body: mbody });
    }
    main.push(Stmt::Label { name: "resident".into(), block: None });
    main.push(Stmt::Data { size: DataSize::Byte, vals: vec![Expr::num(1), Expr::num(2), Expr::num(3)] });
    main.push(Stmt::Test { name: "t0".into(), body });
    crate::gen::build::separate_ambiguous(&mut main);
    Program::single(main)
}

#[derive(Clone, Copy, Debug)]
pub struct Entry {
    pub pc: u16,
    pub a: u8,
    pub x: u8,
    pub y: u8,
    pub sp: u8,
    pub p: u8,
    pub cyc: u64,
    pub depth: u16,
    pub op: u8,
}

struct Ram(Box<[u8; 65536]>);
impl emulator_6502::Interface6502 for Ram {
    fn read(&mut self, address: u16) -> u8 {
        self.0[address as usize]
    }
    fn write(&mut self, address: u16, data: u8) {
        self.0[address as usize] = data;
    }
}

/// The machine of the test runner, driven directly: the same emulator, the same cycle accounting.
pub struct RefMachine {
    cpu: emulator_6502::MOS6502,
    ram: Ram,
    pub cyc: u64,
    pub depth: u16,
    pub steps: usize,
}

impl RefMachine {
    pub fn new(mem: &[u8], start: u16) -> RefMachine {
        let mut b = Box::new([0u8; 65536]);
        b.copy_from_slice(mem);
        let mut cpu = emulator_6502::MOS6502::new();
        cpu.set_program_counter(start);
        RefMachine { cpu, ram: Ram(b), cyc: 0, depth: 0, steps: 0 }
    }
    pub fn entry(&self) -> Entry {
        let pc = self.cpu.get_program_counter();
        Entry { pc, a: self.cpu.get_accumulator(), x: self.cpu.get_x_register(), y: self.cpu.get_y_register(), sp: self.cpu.get_stack_pointer(), p: self.cpu.get_status_register(), cyc: self.cyc, depth: self.depth, op: self.ram.0[pc as usize] }
    }
    /// false: at the terminating BRK
    pub fn step(&mut self) -> bool {
        let pc = self.cpu.get_program_counter();
        let op = self.ram.0[pc as usize];
        if op == 0 {
            return false;
        }
        self.cpu.cycle(&mut self.ram);
        self.cyc += 1 + self.cpu.get_remaining_cycles() as u64;
        self.cpu.execute_instruction(&mut self.ram);
        match op {
            0x20 => self.depth += 1,
            0x60 => self.depth = self.depth.saturating_sub(1),
            _ => {}
        }
        self.steps += 1;
        true
    }
    pub fn mem(&self, a: u16) -> u8 {
        self.ram.0[a as usize]
    }
}

pub struct Reference {
    pub text: String,
    pub trace: Vec<Entry>,
    pub ended: bool,
    pub mem0: Vec<u8>,
    pub start: u16,
    /// (lo, hi, line) of every emitted instruction
    pub sites: Vec<(u16, u16, usize)>,
    pub code_lines: Vec<usize>,
    /// lines of executed `jsr` instructions / of instructions executed inside a subroutine
    pub call_lines: Vec<usize>,
    pub sub_lines: Vec<usize>,
    /// the program ends in an instruction that jumps to itself: the machine never stops by itself
    pub spins: bool,
}

pub const STEP_BOUND: usize = 3_000_000;

pub fn reference(prog: &Program) -> Result<Reference, String> {
    let (proj, rs) = prog.render();
    let r = &rs["main.asm"];
    let a = guarded(|| assemble(&proj, AsmOptions { pc: 0xc000, active_test: Some("t0".to_string()), ..AsmOptions::default() })).map_err(|p| format!("sut panic {:?}", p))?;
    if !a.ok() {
        return Err(format!("program does not assemble: {:?}", a.all_diags()));
    }
    let m: ModelOut = match check_image(prog, &a.segments(), &Options { default_pc: 0xc000, align_choices: vec![], active_test: Some("t0".to_string()) }) {
        Ok(m) => m,
        Err(CheckErr::Unsupported(w)) => return Err(format!("model unsupported: {}", w)),
        Err(CheckErr::Mismatch { kind, detail }) => return Err(format!("image mismatch {} {}", kind, detail)),
    };
    let (_, start, _) = m.tests.iter().find(|t| t.0 == "t0").cloned().ok_or("test not found in model")?;
    let mut mem = vec![0u8; 65536];
    for s in &m.segs {
        if s.touched && s.write {
            let (lo, hi) = s.range();
            mem[lo as usize..hi as usize].copy_from_slice(s.range_data());
        }
    }
    let mut sites = vec![];
    let mut lines = BTreeSet::new();
    for s in &m.sites {
        if !matches!(s.kind, crate::model::layout::SiteKind::Instr { .. }) {
            continue;
        }
        if let Some((off, _)) = r.stmt_span(s.stmt) {
            let line = r.line_col(off).0;
            sites.push((s.addr as u16, (s.addr as usize + s.len) as u16, line));
            lines.insert(line);
        }
    }
    let mut rm = RefMachine::new(&mem, start as u16);
    let mut trace = vec![rm.entry()];
    let mut ended = false;
    while trace.len() < STEP_BOUND {
        if !rm.step() {
            ended = true;
            break;
        }
        trace.push(rm.entry());
    }
    let mut rf = Reference { text: r.text.clone(), trace, ended, mem0: mem, start: start as u16, sites, code_lines: lines.into_iter().collect(), call_lines: vec![], sub_lines: vec![], spins: false };
    let (mut calls, mut subs) = (BTreeSet::new(), BTreeSet::new());
    let mut seen_pc = BTreeSet::new();
    for e in &rf.trace {
        if !seen_pc.insert((e.pc, e.depth > 0)) {
            continue;
        }
        if let Some(l) = rf.line_of(e.pc) {
            if e.op == 0x20 {
                calls.insert(l);
            }
            if e.depth > 0 {
                subs.insert(l);
            }
        }
    }
    rf.call_lines = calls.into_iter().collect();
    rf.sub_lines = subs.into_iter().collect();
    rf.spins = !rf.ended && rf.trace.len() >= 2 && rf.trace[rf.trace.len() - 2].pc == rf.trace[rf.trace.len() - 1].pc && rf.trace[rf.trace.len() - 1].op == 0x4c;
    Ok(rf)
}

impl Reference {
    pub fn line_of(&self, pc: u16) -> Option<usize> {
        self.sites.iter().find(|(lo, hi, _)| *lo <= pc && pc < *hi).map(|s| s.2)
    }
    pub fn index_of_cyc(&self, cyc: u64, from: usize) -> Option<usize> {
        let t = &self.trace[from.min(self.trace.len())..];
        t.binary_search_by_key(&cyc, |e| e.cyc).ok().map(|i| i + from)
    }
    pub fn bp_addrs(&self, lines: &BTreeSet<usize>) -> Vec<(u16, u16)> {
        self.sites.iter().filter(|s| lines.contains(&s.2)).map(|s| (s.0, s.1)).collect()
    }
}

fn in_ranges(rs: &[(u16, u16)], pc: u16) -> bool {
    rs.iter().any(|(lo, hi)| *lo <= pc && pc < *hi)
}

// ------------------------------------------------------------------------------------------------ session

struct Session {
    _scratch: Scratch,
    _lsp: LspClient,
    dap: DapClient,
    path: String,
    seen_events: usize,
}

#[derive(Clone, Debug)]
struct Snapshot {
    frame: Option<(usize, usize)>,
    regs: BTreeMap<String, i64>,
    flags: BTreeMap<String, bool>,
    evals: BTreeMap<String, String>,
}

const T: Duration = Duration::from_secs(15);

fn start_session(text: &str) -> Result<Session, String> {
    let sc = Scratch::new("c19");
    sc.write("mos.toml", b"[build]\nentry = \"main.asm\"\n");
    sc.write("main.asm", text.as_bytes());
    let mut lsp = LspClient::start(&sc.dir).map_err(|e| format!("lsp did not start: {:?}", e))?;
    let uri = crate::sut::lsp::file_uri(&sc.dir, "main.asm");
    lsp.did_open(&uri, text);
    let _ = lsp.request("textDocument/documentSymbol", json!({"textDocument": {"uri": uri}}), Duration::from_secs(20));
    let mut dap = DapClient::connect(lsp.port, Duration::from_secs(10)).ok_or("debug port not listening")?;
    if let Err(e) = dap.request("initialize", json!({"adapterID": "mos", "linesStartAt1": true, "columnsStartAt1": true}), T) {
        return Err(format!("initialize: {:?}\nalive: {}\nstderr: {}\nthreads: {:?}", e, lsp.alive(), lsp.stderr_tail(), crate::props::c20::thread_sample(lsp.pid())));
    }
    if let Err(e) = dap.request("launch", json!({"workspace": sc.dir.to_string_lossy(), "testRunner": {"testCaseName": "t0"}}), T) {
        return Err(format!("launch: {:?}\nalive: {}\nstderr: {}", e, lsp.alive(), lsp.stderr_tail()));
    }
    let path = sc.dir.join("main.asm").to_string_lossy().to_string();
    Ok(Session { _scratch: sc, _lsp: lsp, dap, path, seen_events: 0 })
}

impl Session {
    fn set_bps(&mut self, lines: &BTreeSet<usize>) -> Result<Value, DapErr> {
        let bps: Vec<Value> = lines.iter().map(|l| json!({"line": l})).collect();
        self.dap.request("setBreakpoints", json!({"source": {"path": self.path}, "breakpoints": bps}), T)
    }
    /// next `stopped` or `terminated` event
    fn wait_stop(&mut self, timeout: Duration) -> Option<Value> {
        let deadline = std::time::Instant::now() + timeout;
        loop {
            while self.seen_events < self.dap.events.len() {
                let e = self.dap.events[self.seen_events].clone();
                self.seen_events += 1;
                if e["event"] == "stopped" || e["event"] == "terminated" {
                    return Some(e);
                }
            }
            let left = deadline.saturating_duration_since(std::time::Instant::now());
            if left.is_zero() {
                return None;
            }
            self.dap.pump(left.min(Duration::from_millis(2)));
        }
    }
    fn snapshot(&mut self, with_evals: bool) -> Result<Snapshot, DapErr> {
        let st = self.dap.request("stackTrace", json!({"threadId": 1}), T)?;
        let frame = st["body"]["stackFrames"].get(0).map(|f| (f["line"].as_u64().unwrap_or(0) as usize, f["endLine"].as_u64().unwrap_or(f["line"].as_u64().unwrap_or(0)) as usize));
        let rv = self.dap.request("variables", json!({"variablesReference": 1}), T)?;
        let mut regs = BTreeMap::new();
        for v in rv["body"]["variables"].as_array().cloned().unwrap_or_default() {
            if let (Some(n), Some(val)) = (v["name"].as_str(), v["value"].as_str()) {
                if let Ok(x) = val.parse::<i64>() {
                    regs.insert(n.to_string(), x);
                }
            }
        }
        let fv = self.dap.request("variables", json!({"variablesReference": 2}), T)?;
        let mut flags = BTreeMap::new();
        for v in fv["body"]["variables"].as_array().cloned().unwrap_or_default() {
            if let (Some(n), Some(val)) = (v["name"].as_str(), v["value"].as_str()) {
                flags.insert(n.chars().next().unwrap_or('?').to_string(), val == "true");
            }
        }
        let mut evals = BTreeMap::new();
        if with_evals {
            for e in ["cpu.a", "cpu.x", "cpu.y", "ram($10)", "ram($0300)"] {
                match self.dap.request("evaluate", json!({"expression": e}), T) {
                    Ok(v) => {
                        evals.insert(e.to_string(), v["body"]["result"].as_str().unwrap_or("").to_string());
                    }
                    Err(DapErr::Failed(_)) => {}
                    Err(x) => return Err(x),
                }
            }
        }
        Ok(Snapshot { frame, regs, flags, evals })
    }
}

#[derive(Default)]
struct Stats {
    stops: usize,
    pause_midrun: usize,
    bp_stops: usize,
    steps: usize,
    step_over_call: usize,
    step_out_call: usize,
    terminated: bool,
}

pub fn prop(c: &Case, log: &mut CaseLog) -> Verdict {
    let prog = program(c);
    let rf = match reference(&prog) {
        Ok(r) => r,
        Err(e) => {
            let why = e.split(' ').take(2).collect::<Vec<_>>().join(" ");
            log.label(format!("discard:{}", why));
            return Verdict::Discard(why);
        }
    };
    let spins = !rf.ended && rf.trace.len() >= 2 && {
        let (a, b) = (rf.trace[rf.trace.len() - 2], rf.trace[rf.trace.len() - 1]);
        a.pc == b.pc && a.op == 0x4c
    };
    if !rf.ended && !spins {
        log.label("discard:reference does not end");
        return Verdict::Discard("reference does not end".into());
    }
    log.label_if(spins, "program-spins-forever");
    let mut s = match start_session(&rf.text) {
        Ok(s) => s,
        Err(e) => {
            // not this property's business (and possibly the harness's own doing): counted, bounded by a health check
            log.label("inconclusive:session-did-not-start");
            log.label(format!("session-did-not-start:{}", e.lines().next().unwrap_or("")));
            return Verdict::Pass;
        }
    };
    let mut tr: Vec<String> = vec![];
    let mut st = Stats::default();
    let mut v = drive(c, &rf, &mut s, &mut tr, &mut st, log);
    // A request that was not answered in time decides nothing by itself. When every thread of the server sleeps without
    // using any CPU time, though, no answer is coming: the adapter waits for something that will not happen.
    if matches!(v, Verdict::Pass) && log.labels.iter().any(|l| l.starts_with("inconclusive:")) {
        let pid = s._lsp.pid();
        let a = crate::props::c20::thread_sample(pid);
        std::thread::sleep(Duration::from_millis(300));
        let b = crate::props::c20::thread_sample(pid);
        let all_blocked = !a.is_empty() && a.len() == b.len() && a.iter().zip(b.iter()).all(|(x, y)| x.1 == 'S' && y.1 == 'S' && x.2 == y.2);
        if all_blocked {
            let what = log.labels.iter().find(|l| l.starts_with("inconclusive:")).cloned().unwrap_or_default();
            v = Verdict::fail(format!("request-never-answered|{}", what.trim_start_matches("inconclusive:")), format!("no answer within {} s, and all {} threads of the server sleep without consuming CPU time: {:?}", T.as_secs(), b.len(), b));
        }
    }
    log.label_if(st.pause_midrun > 0, "pause-mid-run");
    log.label_if(st.bp_stops > 0, "breakpoint-stop");
    log.label_if(st.steps > 0, "stepped");
    log.label_if(st.step_over_call > 0, "next-over-call");
    log.label_if(st.step_out_call > 0, "step-out-of-call");
    log.label_if(st.terminated, "ran-to-end");
    log.label(format!("trace-len:{}", match rf.trace.len() { 0..=100 => "<=100", 101..=10_000 => "<=10k", _ => ">10k" }));
    log.nontrivial = st.stops >= 2 && (st.pause_midrun > 0 || st.bp_stops > 0 || st.step_over_call > 0 || st.step_out_call > 0);
    let _ = s.dap.request("disconnect", json!({}), Duration::from_secs(5));
    match v {
        Verdict::Fail { kind, detail } => Verdict::Fail { kind, detail: format!("{}\nsession:\n{}\nprogram:\n{}", detail, tr.join("\n"), numbered(&rf.text)) },
        v => v,
    }
}

fn numbered(t: &str) -> String {
    t.lines().enumerate().map(|(i, l)| format!("{:3} {}", i + 1, l)).collect::<Vec<_>>().join("\n")
}

fn pick_lines(rf: &Reference, sels: &[u32]) -> BTreeSet<usize> {
    let mut out = BTreeSet::new();
    if rf.code_lines.is_empty() {
        return out;
    }
    if rf.spins && sels.first().map(|s| s & 4 != 0).unwrap_or(false) {
        // the instruction that jumps to itself
        if let Some(l) = rf.trace.last().and_then(|e| rf.line_of(e.pc)) {
            out.insert(l);
        }
    }
    for s in sels {
        // a quarter of the breakpoints on call instructions, a quarter inside subroutines
        let pool: &Vec<usize> = match s & 3 {
            2 if !rf.call_lines.is_empty() => &rf.call_lines,
            3 if !rf.sub_lines.is_empty() => &rf.sub_lines,
            _ => &rf.code_lines,
        };
        out.insert(pool[((*s as u64 * pool.len() as u64) >> 32) as usize]);
    }
    out
}

/// why the machine is expected to be where it is
#[derive(Clone, Debug, PartialEq)]
enum Cause {
    Free,
    Step(StepKind),
}

fn drive(c: &Case, rf: &Reference, s: &mut Session, tr: &mut Vec<String>, st: &mut Stats, log: &mut CaseLog) -> Verdict {
    let has = |f: &str| c.features.iter().any(|x| x == f);
    // model state
    let mut idx: usize = 0; // where the machine is halted (valid while !running)
    let mut launched = false;
    let mut bps: BTreeSet<usize> = BTreeSet::new();
    let mut last: Option<Snapshot> = None;
    let inconclusive = |log: &mut CaseLog, what: &str| {
        log.label(format!("inconclusive:{}", what));
        Verdict::Pass
    };
    macro_rules! dap {
        ($e:expr, $what:expr) => {
            match $e {
                Ok(v) => v,
                Err(DapErr::Timeout) => return inconclusive(log, $what),
                Err(DapErr::Closed) => return Verdict::fail(format!("connection-closed|{}", $what), "the debug adapter closed the connection".to_string()),
                Err(DapErr::Failed(v)) => return Verdict::fail(format!("request-failed|{}", $what), format!("{}", v)),
            }
        };
    }
    for op in &c.ops {
        match op {
            Op::SetBps { sels } => {
                bps = pick_lines(rf, sels);
                tr.push(format!("setBreakpoints lines {:?}", bps));
                dap!(s.set_bps(&bps), "setBreakpoints");
            }
            Op::Inspect { delay_us } => {
                if !launched {
                    continue;
                }
                std::thread::sleep(Duration::from_micros(*delay_us as u64));
                let snap = dap!(s.snapshot(false), "inspect");
                tr.push(format!("inspect after {} us: frame {:?} regs {:?}", delay_us, snap.frame, snap.regs));
                if let Some(prev) = &last {
                    if prev.regs != snap.regs || prev.flags != snap.flags || prev.frame != snap.frame {
                        return Verdict::fail("state-changed-while-halted", format!("reported while halted: frame {:?} registers {:?} flags {:?}\nthen, with no request in between: frame {:?} registers {:?} flags {:?}", prev.frame, prev.regs, prev.flags, snap.frame, snap.regs, snap.flags));
                    }
                }
            }
            Op::Run { pause_after_us, bps_during } => {
                let from = idx;
                let at_end = launched && rf.trace[idx].op == 0;
                let start_bps = bps.clone();
                if !launched {
                    tr.push("configurationDone".into());
                    dap!(s.dap.request("configurationDone", Value::Null, T), "configurationDone");
                    launched = true;
                } else {
                    tr.push(format!("continue (from trace index {})", idx));
                    dap!(s.dap.request("continue", json!({"threadId": 1}), T), "continue");
                }
                // whatever arrived before that response is about the past
                s.seen_events = s.dap.events.len();
                last = None;
                let mut end_bps = bps.clone();
                let mut paused = false;
                // optional requests while running, in order of their delays
                let mut plan: Vec<(u32, u8)> = vec![];
                if let Some(d) = pause_after_us {
                    plan.push((*d, 0));
                } else if rf.spins {
                    // a machine that never stops by itself is always paused
                    plan.push((20_000, 0));
                }
                if let Some((d, _)) = bps_during {
                    plan.push((*d, 1));
                }
                plan.sort();
                let t0 = std::time::Instant::now();
                for (d, what) in plan {
                    let due = Duration::from_micros(d as u64);
                    let el = t0.elapsed();
                    if due > el {
                        std::thread::sleep(due - el);
                    }
                    if what == 0 {
                        tr.push(format!("pause (after {} us)", d));
                        match s.dap.request("pause", json!({"threadId": 1}), T) {
                            Ok(_) => paused = true,
                            Err(DapErr::Failed(_)) => {}
                            Err(DapErr::Timeout) => return inconclusive(log, "pause"),
                            Err(DapErr::Closed) => break,
                        }
                    } else if let Some((_, sels)) = bps_during {
                        end_bps = pick_lines(rf, sels);
                        tr.push(format!("setBreakpoints (after {} us, while running) lines {:?}", d, end_bps));
                        match s.set_bps(&end_bps) {
                            Ok(_) => {}
                            Err(DapErr::Timeout) => return inconclusive(log, "setBreakpoints"),
                            Err(_) => break,
                        }
                        bps = end_bps.clone();
                    }
                }
                // breakpoints that were in force during the whole run / during some of it
                let always: BTreeSet<usize> = start_bps.intersection(&end_bps).cloned().collect();
                let ever: BTreeSet<usize> = start_bps.union(&end_bps).cloned().collect();
                let always_a = rf.bp_addrs(&always);
                let ever_a = rf.bp_addrs(&ever);
                let ev = match s.wait_stop(Duration::from_secs(20)) {
                    Some(e) => e,
                    None => {
                        // no breakpoint ahead, no pause: the test must end by itself
                        return inconclusive(log, "no stopped/terminated event within 20 s");
                    }
                };
                if ev["event"] == "terminated" {
                    tr.push("<- terminated".into());
                    st.terminated = true;
                    // nothing with a breakpoint may have been executed on the way to the end
                    let _ = at_end;
                    let first = from + 1;
                    if let Some(k) = (first..rf.trace.len()).find(|k| in_ranges(&always_a, rf.trace[*k].pc)) {
                        // the instruction at `from` itself was where we stood (stopped there first)
                        return Verdict::fail(
                            format!("ran-through-breakpoint|to-the-end{}", if paused { "|pause-requested" } else { "" }),
                            format!("the test ran to its end, but the uninterrupted run executes the instruction at ${:04x} (line {:?}, trace index {}), which has a breakpoint (lines {:?}) the whole time", rf.trace[k].pc, rf.line_of(rf.trace[k].pc), k, always),
                        );
                    }
                    return Verdict::Pass;
                }
                let reason = ev["body"]["reason"].as_str().unwrap_or("").to_string();
                tr.push(format!("<- stopped ({})", reason));
                let v = check_stop(rf, s, tr, st, log, from, &Cause::Free, &mut idx, &mut last, paused, &has);
                if let Some(v) = v {
                    return v;
                }
                // between the resume and this stop no instruction with a breakpoint was executed
                let first = from + 1;
                if let Some(k) = (first..idx).find(|k| in_ranges(&always_a, rf.trace[*k].pc)) {
                    return Verdict::fail(
                        format!("ran-through-breakpoint{}", if paused { "|pause-requested" } else { "" }),
                        format!("resumed at trace index {} and stopped at index {}; in between the machine executed the instruction at ${:04x} (line {:?}, trace index {}), which has a breakpoint (lines {:?}) the whole time", from, idx, rf.trace[k].pc, rf.line_of(rf.trace[k].pc), k, always),
                    );
                }
                if !paused {
                    // stopped by itself: there must be a breakpoint here
                    if !in_ranges(&ever_a, rf.trace[idx].pc) {
                        return Verdict::fail("stopped-without-breakpoint", format!("stopped at ${:04x} (line {:?}, trace index {}) although no breakpoint is set there (breakpoint lines {:?}) and no pause was requested", rf.trace[idx].pc, rf.line_of(rf.trace[idx].pc), idx, ever));
                    }
                    st.bp_stops += 1;
                } else if idx > from + 1 && rf.trace[idx].op != 0 && !in_ranges(&ever_a, rf.trace[idx].pc) {
                    st.pause_midrun += 1;
                }
            }
            Op::Step { kind } => {
                if !launched {
                    continue;
                }
                let from = idx;
                if rf.spins && *kind == StepKind::StepOut && rf.trace[idx].depth == 0 {
                    // (outside any subroutine stepOut runs to the end of the test, which never comes)
                    continue;
                }
                let cmd = match kind {
                    StepKind::Next => "next",
                    StepKind::StepIn => "stepIn",
                    StepKind::StepOut => "stepOut",
                };
                tr.push(format!("{} (from trace index {}, ${:04x})", cmd, idx, rf.trace[idx].pc));
                dap!(s.dap.request(cmd, json!({"threadId": 1}), Duration::from_secs(30)), cmd);
                // whatever arrived before that response is about the past
                s.seen_events = s.dap.events.len();
                last = None;
                let ev = match s.wait_stop(Duration::from_secs(20)) {
                    Some(e) => e,
                    None => return inconclusive(log, "no stopped event after a step"),
                };
                if ev["event"] == "terminated" {
                    tr.push("<- terminated".into());
                    st.terminated = true;
                    return Verdict::Pass;
                }
                tr.push(format!("<- stopped ({})", ev["body"]["reason"].as_str().unwrap_or("")));
                st.steps += 1;
                let v = check_stop(rf, s, tr, st, log, from, &Cause::Step(*kind), &mut idx, &mut last, false, &has);
                if let Some(v) = v {
                    return v;
                }
            }
        }
    }
    Verdict::Pass
}

/// expected trace index after a step from `i`; None: not specified
fn step_target(rf: &Reference, i: usize, kind: StepKind) -> Option<usize> {
    let t = &rf.trace;
    let e = t[i];
    let last = t.len() - 1;
    if e.op == 0 {
        return Some(i);
    }
    match kind {
        StepKind::StepIn => Some((i + 1).min(last)),
        StepKind::Next => {
            if e.op == 0x20 {
                // the call is one step: the instruction after it, in the same frame
                Some((i + 1..=last).find(|j| t[*j].depth == e.depth && t[*j].pc == e.pc.wrapping_add(3)).unwrap_or(last))
            } else {
                Some((i + 1).min(last))
            }
        }
        StepKind::StepOut => {
            if e.depth == 0 {
                // not in a subroutine: there is nothing to step out of, and the property does not say where that ends
                // (mos stays where it is when the stack is empty, and otherwise runs on to the next unbalanced return)
                None
            } else {
                Some((i + 1..=last).find(|j| t[*j].depth < e.depth).unwrap_or(last))
            }
        }
    }
}

#[allow(clippy::too_many_arguments)]
fn check_stop(rf: &Reference, s: &mut Session, tr: &mut Vec<String>, st: &mut Stats, log: &mut CaseLog, from: usize, cause: &Cause, idx: &mut usize, last: &mut Option<Snapshot>, paused: bool, has: &dyn Fn(&str) -> bool) -> Option<Verdict> {
    st.stops += 1;
    let after = match cause {
        Cause::Free if paused => "pause".to_string(),
        Cause::Free => "breakpoint".to_string(),
        Cause::Step(k) => format!("{:?}", k),
    };
    let snap = match s.snapshot(true) {
        Ok(x) => x,
        Err(DapErr::Timeout) => {
            log.label("inconclusive:snapshot");
            return Some(Verdict::Pass);
        }
        Err(e) => return Some(Verdict::fail(format!("request-failed|snapshot|after={}", after), format!("{:?}", e))),
    };
    tr.push(format!("   frame lines {:?}, registers {:?}, flags {:?}, evaluate {:?}", snap.frame, snap.regs, snap.flags, snap.evals));
    let cyc = match snap.regs.get("CYC") {
        Some(c) => *c as u64,
        None => return Some(Verdict::fail("no-cycle-counter", format!("{:?}", snap.regs))),
    };
    // where the machine really is
    let j = match rf.index_of_cyc(cyc, 0) {
        Some(j) => j,
        None => return Some(Verdict::fail(format!("not-at-an-instruction-boundary|after={}", after), format!("the reported cycle counter {} is not reached at any instruction boundary of the uninterrupted run", cyc))),
    };
    if j < from {
        return Some(Verdict::fail(format!("machine-went-back|after={}", after), format!("cycle counter {} is trace index {}, before the previous stop at {}", cyc, j, from)));
    }
    let e = rf.trace[j];
    tr.push(format!("   = trace index {}: pc ${:04x} line {:?} a={} x={} y={} p={:02x} depth={}", j, e.pc, rf.line_of(e.pc), e.a, e.x, e.y, e.p, e.depth));
    *idx = j;
    // registers of that same instant
    let want: BTreeMap<String, i64> = [("A", e.a as i64), ("X", e.x as i64), ("Y", e.y as i64), ("CYC", e.cyc as i64)].iter().map(|(k, v)| (k.to_string(), *v)).collect();
    if snap.regs != want {
        return Some(Verdict::fail(format!("registers-of-another-instant|after={}", after), format!("registers {:?}; at cycle {} the machine has {:?}", snap.regs, cyc, want)));
    }
    let fl = |c: &str, m: u8| snap.flags.get(c).map(|b| *b == ((e.p & m) != 0)).unwrap_or(true);
    if !(fl("N", 0x80) && fl("V", 0x40) && fl("D", 8) && fl("I", 4) && fl("Z", 2) && fl("C", 1)) {
        return Some(Verdict::fail(format!("flags-of-another-instant|after={}", after), format!("flags {:?}; at cycle {} the status register is {:02x}", snap.flags, cyc, e.p)));
    }
    // evaluate
    let mut m = RefMachine::new(&rf.mem0, rf.start);
    if !snap.evals.is_empty() {
        while m.steps < j {
            if !m.step() {
                break;
            }
        }
        for (k, v) in &snap.evals {
            let want = match k.as_str() {
                "cpu.a" => e.a as i64,
                "cpu.x" => e.x as i64,
                "cpu.y" => e.y as i64,
                "ram($10)" => m.mem(0x10) as i64,
                "ram($0300)" => m.mem(0x300) as i64,
                _ => continue,
            };
            if v.parse::<i64>().ok() != Some(want) {
                return Some(Verdict::fail(format!("evaluate-of-another-instant|{}|after={}", k, after), format!("evaluate {} = {:?}; at cycle {} it is {}", k, v, cyc, want)));
            }
        }
    } else {
        log.label("evaluate-unavailable");
    }
    // the frame contains the program counter
    let line = rf.line_of(e.pc);
    match (snap.frame, line) {
        (Some((lo, hi)), Some(l)) => {
            if !(lo <= l && l <= hi) {
                return Some(Verdict::fail(format!("frame-does-not-contain-pc|after={}", after), format!("the frame is lines {}..{}, but the machine is at ${:04x} = line {} (cycle {}, trace index {})", lo, hi, e.pc, l, cyc, j)));
            }
        }
        (None, Some(l)) => {
            return Some(Verdict::fail(format!("no-frame|after={}", after), format!("no stack frame reported although the machine is halted at ${:04x} = line {}", e.pc, l)));
        }
        _ => {}
    }
    // stepping visits exactly the instruction sequence of an uninterrupted run
    if let Cause::Step(k) = cause {
        match step_target(rf, from, *k) {
            Some(want) => {
                if rf.trace[from].op == 0x20 && *k == StepKind::Next {
                    st.step_over_call += 1;
                }
                if *k == StepKind::StepOut {
                    st.step_out_call += 1;
                }
                if want != j {
                    let mut kind = format!("step-lands-elsewhere|{:?}", k);
                    // (what distinguishes the recorded findings)
                    let pushed = rf.trace[from].depth > 0 && {
                        // something pushed inside the current subroutine
                        let entry_sp = (0..=from).rev().find(|q| rf.trace[*q].depth < rf.trace[from].depth).map(|q| rf.trace[q + 1].sp).unwrap_or(rf.trace[from].sp);
                        rf.trace[from].sp != entry_sp
                    };
                    if *k == StepKind::StepOut && pushed {
                        kind.push_str("|feature=stack_in_subroutine");
                    }
                    let _ = has;
                    return Some(Verdict::fail(kind, format!("{:?} from trace index {} (${:04x}, depth {}) should halt at index {} (${:04x}, line {:?}) but the machine is at index {} (${:04x}, line {:?})", k, from, rf.trace[from].pc, rf.trace[from].depth, want, rf.trace[want].pc, rf.line_of(rf.trace[want].pc), j, e.pc, line)));
                }
            }
            None => log.label("step-out-at-top-level:unjudged"),
        }
    }
    *last = Some(Snapshot { evals: BTreeMap::new(), ..snap });
    None
}

pub fn to_json(c: &Case) -> Value {
    let prog = program(c);
    let (proj, _) = prog.render();
    json!({"entropy": c.entropy, "ops": c.ops, "features": c.features, "main.asm": proj.main_text()})
}

fn op_strategy() -> impl Strategy<Value = Op> {
    let sels = || proptest::collection::vec(any::<u32>(), 0..4);
    let delay = || prop_oneof![0u32..200, 0u32..5_000, 0u32..60_000];
    prop_oneof![
        2 => sels().prop_map(|sels| Op::SetBps { sels }),
        5 => (proptest::option::weighted(0.5, delay()), proptest::option::weighted(0.15, (delay(), sels()))).prop_map(|(pause_after_us, bps_during)| Op::Run { pause_after_us, bps_during }),
        6 => prop_oneof![Just(StepKind::Next), Just(StepKind::StepIn), Just(StepKind::StepOut)].prop_map(|kind| Op::Step { kind }),
        2 => (0u32..3_000).prop_map(|delay_us| Op::Inspect { delay_us }),
    ]
}

pub fn strategy(features: Vec<String>) -> impl Strategy<Value = Case> {
    (proptest::collection::vec(any::<u32>(), 8..80), proptest::collection::vec(any::<u32>(), 0..4), proptest::collection::vec(op_strategy(), 1..16)).prop_map(move |(entropy, first, mut ops)| {
        // breakpoints before the machine starts, then it starts
        ops.insert(0, Op::SetBps { sels: first });
        if !ops.iter().any(|o| matches!(o, Op::Run { .. })) {
            ops.insert(1, Op::Run { pause_after_us: Some(300), bps_during: None });
        }
        Case { entropy, ops, features: features.clone() }
    })
}

pub fn run_check(ctx: &mut Ctx) {
    std::env::set_var("MV_MAX_SHRINK", std::env::var("MV_MAX_SHRINK").unwrap_or_else(|_| "60".into()));
    ctx.rule = "generated test programs (counted loops up to 255 x 255 iterations, forward branches, subroutines two levels deep, pha/pla, `.loop` blocks and macros invoked more than once = one source line at several addresses) debugged over DAP on the test runner of a live `mos lsp`; request sequences of 2-17 operations: setBreakpoints on any code lines (halted and while running), configurationDone/continue with an optional pause after 0-60 ms, next/stepIn/stepOut, repeated inspection after a delay. oracle: a reference trace of the uninterrupted run (emulator_6502 driven directly with the test runner's cycle accounting, image and line table from the independent layout model); the cycle counter reported at every stop locates the machine in the trace; then (1) registers, flags, evaluate(cpu.a/x/y, ram()) equal the trace entry, (2) the frame's lines contain the line of the true program counter, (3) nothing changes between two inspections without a request, (4) between resume and stop no instruction with a breakpoint (set the whole time) was executed, and a run that ends had none ahead, (5) a stop without pause is at a breakpoint, (6) stepIn lands on the next trace entry, next on the entry after the call returns to the same frame, stepOut on the first entry of the caller (not judged when there is no caller). Programs hold assertions that read memory with ram(). A second campaign sets breakpoints in two source files, one request per file in either order, on a straight-line program: the stops are the breakpointed lines in execution order. non-trivial = at least two stops and one of: pause landing mid-run, breakpoint stop, next over a call, stepOut".into();
    if !have_mos() {
        ctx.health(false, "mos binary not built (MOS_BIN)");
        return;
    }
    let n = ctx.tier.pick(400, 12_000);
    ctx.campaign_parallel("sessions", n, 16, || strategy(vec![]), prop, to_json);
    let n2 = ctx.tier.pick(64, 1200);
    ctx.campaign_parallel("two-sources", n2, 16, || proptest::collection::vec(any::<u32>(), 10..14), prop_two_sources, |en| json!({"two_sources_entropy": en}));
    let bad = ctx.label_count("inconclusive:session-did-not-start");
    ctx.health(bad * 50 <= n as u64, format!("{} of {} sessions did not start", bad, n));
    for l in ["pause-mid-run", "breakpoint-stop", "next-over-call", "step-out-of-call", "ran-to-end"] {
        let n = ctx.label_count(l);
        ctx.health(n > 0, format!("no case with {}", l));
    }
}

/// Breakpoints in two source files, set by one request per file (in either order): a straight-line program of which the
/// order of execution is known, run with `continue` after every stop. The stops are the lines with a breakpoint, in
/// the order in which they are executed.
pub fn prop_two_sources(entropy: &Vec<u32>, log: &mut CaseLog) -> Verdict {
    let mut e = Ent::new(entropy);
    let main = ".test \"t0\" {\n    lda #1\n    jsr incq\n    ldx #7\n    nop\n    brk\n}\n.import * from \"lib.asm\"\n";
    let lib = "incq:\n    clc\n    adc #1\n    rts\n";
    // (file, line) in execution order
    let order: Vec<(&str, usize)> = vec![("main.asm", 2), ("main.asm", 3), ("lib.asm", 2), ("lib.asm", 3), ("lib.asm", 4), ("main.asm", 4), ("main.asm", 5), ("main.asm", 6)];
    let chosen: Vec<(&str, usize)> = order.iter().cloned().filter(|_| e.chance(2, 5)).collect();
    let lib_first = e.chance(1, 2);
    let sc = Scratch::new("c19s");
    sc.write("mos.toml", b"[build]\nentry = \"main.asm\"\n");
    sc.write("main.asm", main.as_bytes());
    sc.write("lib.asm", lib.as_bytes());
    let mut lsp = match LspClient::start(&sc.dir) {
        Ok(l) => l,
        Err(_) => {
            log.label("inconclusive:session-did-not-start");
            return Verdict::Pass;
        }
    };
    let uri = crate::sut::lsp::file_uri(&sc.dir, "main.asm");
    lsp.did_open(&uri, main);
    let _ = lsp.request("textDocument/documentSymbol", json!({"textDocument": {"uri": uri}}), Duration::from_secs(20));
    let mut dap = match DapClient::connect(lsp.port, Duration::from_secs(10)) {
        Some(d) => d,
        None => {
            log.label("inconclusive:session-did-not-start");
            return Verdict::Pass;
        }
    };
    log.label("two-sources");
    log.nontrivial = chosen.iter().any(|c| c.0 == "lib.asm") && chosen.iter().any(|c| c.0 == "main.asm");
    let run = (|| -> Result<Verdict, DapErr> {
        dap.request("initialize", json!({"adapterID": "mos", "linesStartAt1": true, "columnsStartAt1": true}), T)?;
        dap.request("launch", json!({"workspace": sc.dir.to_string_lossy(), "testRunner": {"testCaseName": "t0"}}), T)?;
        let files = if lib_first { ["lib.asm", "main.asm"] } else { ["main.asm", "lib.asm"] };
        for f in files {
            let bps: Vec<Value> = chosen.iter().filter(|c| c.0 == f).map(|c| json!({"line": c.1})).collect();
            dap.request("setBreakpoints", json!({"source": {"path": sc.dir.join(f).to_string_lossy()}, "breakpoints": bps}), T)?;
        }
        dap.request("configurationDone", Value::Null, T)?;
        let mut stops: Vec<(String, usize)> = vec![];
        let mut seen = 0;
        loop {
            // next stopped / terminated event
            let deadline = std::time::Instant::now() + T;
            let mut ev = None;
            while ev.is_none() {
                while seen < dap.events.len() {
                    let x = dap.events[seen].clone();
                    seen += 1;
                    if x["event"] == "stopped" || x["event"] == "terminated" {
                        ev = Some(x);
                        break;
                    }
                }
                if ev.is_none() {
                    if std::time::Instant::now() > deadline {
                        return Err(DapErr::Timeout);
                    }
                    dap.pump(Duration::from_millis(2));
                }
            }
            let ev = ev.unwrap();
            if ev["event"] == "terminated" {
                break;
            }
            let st = dap.request("stackTrace", json!({"threadId": 1}), T)?;
            let fr = &st["body"]["stackFrames"][0];
            let file = fr["source"]["path"].as_str().unwrap_or("").rsplit('/').next().unwrap_or("").to_string();
            stops.push((file, fr["line"].as_u64().unwrap_or(0) as usize));
            if stops.len() > 20 {
                break;
            }
            dap.request("continue", json!({"threadId": 1}), T)?;
        }
        let want: Vec<(String, usize)> = chosen.iter().map(|c| (c.0.to_string(), c.1)).collect();
        if stops != want {
            return Ok(Verdict::fail(
                "stops-differ-from-breakpoints|two-sources",
                format!("--- main.asm ---\n{}--- lib.asm ---\n{}breakpoints {:?} (set for {} first)\nstops {:?}", main, lib, want, if lib_first { "lib.asm" } else { "main.asm" }, stops),
            ));
        }
        Ok(Verdict::Pass)
    })();
    match run {
        Ok(v) => v,
        Err(DapErr::Timeout) => {
            log.label("inconclusive");
            Verdict::Pass
        }
        Err(e) => Verdict::fail("session-error|two-sources", format!("{:?}\nstderr: {}", e, lsp.stderr_tail())),
    }
}

pub fn replay(ctx: &mut Ctx, case: &Value) {
    if let Some(en) = case.get("two_sources_entropy") {
        match serde_json::from_value::<Vec<u32>>(en.clone()) {
            Ok(en) => ctx.replay_one(&en, prop_two_sources, case.clone()),
            Err(e) => ctx.health(false, format!("replay case does not deserialize: {}", e)),
        }
        return;
    }
    let c: Case = match serde_json::from_value(json!({"entropy": case["entropy"], "ops": case["ops"], "features": case["features"]})) {
        Ok(c) => c,
        Err(e) => {
            ctx.health(false, format!("replay case does not deserialize: {}", e));
            return;
        }
    };
    ctx.replay_one(&c, prop, case.clone());
}
