//! C02 — a successful build is a fixed point: image checker on generated programs.

use crate::engine::{CaseLog, Ctx, Verdict};
use crate::gen::build::{build, Built, GenCfg};
use crate::model::layout::{check_image_all, CheckErr, ModelOut, SymKind};
use crate::sut::core::{assemble, guarded, AsmOptions, Assembled, SymVal};
use proptest::prelude::*;
use serde::{Deserialize, Serialize};
use serde_json::json;
use std::collections::BTreeMap;

#[derive(Clone, Debug, Hash, PartialEq, Eq, Serialize, Deserialize)]
pub struct Case {
    pub entropy: Vec<u32>,
    pub cfg: GenCfg,
}

impl Case {
    pub fn built(&self) -> Built {
        build(&self.entropy, &self.cfg)
    }
}

pub fn to_json(c: &Case) -> serde_json::Value {
    let b = c.built();
    // (`built` is the generated program itself: a stored case does not depend on later changes of the generator)
    json!({"entropy": c.entropy, "cfg": c.cfg, "program": b.prog.text(), "stats": b.stats, "built": b})
}

/// compare model labels with the symbol table and the VICE symbol text
pub fn check_symbols(m: &ModelOut, a: &Assembled) -> Result<(), (String, String)> {
    let syms = a.symbols();
    let mut sut_labels: BTreeMap<String, i64> = BTreeMap::new();
    for (path, s) in &syms {
        if s.ty == "label" {
            if let SymVal::Num(n) = s.val {
                sut_labels.insert(path.clone(), n);
            }
        }
    }
    let mut named = 0;
    let mut anon_model: Vec<(String, i64)> = vec![];
    for l in m.labels.iter().filter(|l| l.kind == SymKind::Label) {
        if l.path.iter().any(|c| c == "$") {
            anon_model.push((l.path.last().unwrap().clone(), l.value));
        } else {
            named += 1;
            let p = l.path.join(".");
            match sut_labels.get(&p) {
                Some(v) if *v == l.value => {}
                other => {
                    return Err((
                        "label-value".into(),
                        format!("label {}: model address ${:x}, symbol table {:?}", p, l.value, other),
                    ))
                }
            }
        }
    }
    let mut anon_sut: Vec<(String, i64)> = sut_labels
        .iter()
        .filter(|(p, _)| p.contains('$'))
        .map(|(p, v)| (p.rsplit('.').next().unwrap().to_string(), *v))
        .collect();
    anon_model.sort();
    anon_sut.sort();
    // aliases created by imports appear twice in the SUT table: compare as sets
    anon_model.dedup();
    anon_sut.dedup();
    if anon_model != anon_sut {
        return Err(("label-value-anon-scope".into(), format!("labels in anonymous scopes: model {:?}, symbol table {:?}", anon_model, anon_sut)));
    }
    let sut_named = sut_labels.keys().filter(|p| !p.contains('$')).count();
    if sut_named != named {
        let model_names: Vec<String> = m.labels.iter().filter(|l| l.kind == SymKind::Label).map(|l| l.path.join(".")).collect();
        return Err(("label-set".into(), format!("model has {} named labels {:?}, symbol table has {}: {:?}", named, model_names, sut_named, sut_labels.keys().collect::<Vec<_>>())));
    }
    // VICE symbol text: exactly the labels of the symbol table
    if let Some(v) = a.vice() {
        let mut vice: BTreeMap<String, i64> = BTreeMap::new();
        for line in v.lines() {
            let line = line.trim();
            if line.is_empty() {
                continue;
            }
            let ok = (|| {
                let rest = line.strip_prefix("al C:")?;
                let (hex, name) = rest.split_once(" .")?;
                let val = i64::from_str_radix(hex, 16).ok()?;
                vice.insert(name.to_string(), val);
                Some(())
            })();
            if ok.is_none() {
                return Err(("vice-line-malformed".into(), format!("{:?}", line)));
            }
        }
        if vice != sut_labels {
            return Err(("vice-differs-from-symbols".into(), format!("vice {:?}\nsymbols {:?}", vice, sut_labels)));
        }
    }
    Ok(())
}

pub fn prop(c: &Case, log: &mut CaseLog) -> Verdict {
    prop_built(&c.built(), log)
}

pub fn prop_built(b: &Built, log: &mut CaseLog) -> Verdict {
    let (proj, _) = b.prog.render();
    let a = match guarded(|| assemble(&proj, AsmOptions::default())) {
        Ok(a) => a,
        Err(p) => {
            // crashes are C06's business; here they only make the case unusable
            log.label("sut-panic");
            let _ = p;
            return Verdict::Pass;
        }
    };
    if !a.parse_diags.is_empty() {
        log.label("parse-error");
        return Verdict::fail("generator-produced-unparsable-program", format!("{}\n{:?}", b.prog.text(), a.parse_diags));
    }
    if a.pass_verdict != crate::sut::core::PassVerdict::Ended {
        // non-termination is C06's business
        log.label(format!("pass-loop:{:?}", a.pass_verdict).split('{').next().unwrap().trim().to_string());
        return Verdict::Pass;
    }
    if !a.ok() {
        log.label("assembly-failed");
        for d in a.diags.iter().take(1) {
            log.label(format!("asm-error:{}", d.msg.split(|c: char| c.is_ascii_digit() || c == '$' || c == ':').next().unwrap_or("").trim()));
        }
        return Verdict::Pass;
    }
    log.label("assembled");
    for f in &b.stats.features {
        log.label(format!("feature:{}", f));
    }
    let image = a.segments();
    match check_image_all(&b.prog, &image, 0x2000) {
        Ok(m) => {
            let sizes_changed = a.passes >= 3;
            log.label(format!("passes:{}", a.passes.min(6)));
            log.label_if(b.stats.forward_refs >= 3, "forward-refs>=3");
            log.label_if(m.zp_chosen > 0, "zp-chosen");
            log.label_if(b.stats.segments > 0, "multi-segment");
            log.label_if(b.stats.relocated > 0, "relocated");
            log.label_if(b.stats.setpc_in_relocated > 0, "setpc-in-relocated");
            log.label_if(b.stats.super_paths > 0, "super-path");
            log.label_if(b.stats.dotted_paths > 0, "dotted-path");
            log.label_if(b.stats.shadowed > 0, "shadowed-name");
            log.label_if(b.stats.cross_segment_refs > 0, "cross-segment-ref");
            log.label_if(b.stats.zp_segment, "zp-boundary-segment");
            log.label_if(m.size_reads > 0, "size-read");
            log.nontrivial = (sizes_changed && b.stats.forward_refs >= 1) || b.stats.forward_refs >= 3;
            if let Err((kind, detail)) = check_symbols(&m, &a) {
                return Verdict::fail(kind, format!("{}\n{}", b.prog.text(), detail));
            }
            Verdict::Pass
        }
        Err(CheckErr::Unsupported(why)) => {
            log.label("model-unsupported");
            log.label(format!("unsupported:{}", why.chars().take(40).collect::<String>()));
            Verdict::Pass
        }
        Err(CheckErr::Mismatch { kind, detail }) => {
            let mut kind = kind;
            if !b.stats.features.is_empty() {
                // inside a region that is the trigger of a recorded finding the signature is the feature, not the
                // (unstable) way in which the mismatch shows
                kind = "image-mismatch".to_string();
                for f in &b.stats.features {
                    kind = format!("{}|feature={}", kind, f);
                }
            }
            Verdict::fail(kind, format!("{}\n{}\nsegments: {:x?}", b.prog.text(), detail, image.iter().map(|s| (&s.name, s.start, s.end, s.initial_pc, s.target_address)).collect::<Vec<_>>()))
        }
    }
}

// ---- definitions under conditions that depend on an address (and so on the pass)

#[derive(Clone, Debug, Hash, PartialEq, Eq, Serialize, Deserialize)]
pub struct CondCase {
    pub entropy: Vec<u32>,
}

/// A label is defined inside an `.if` whose condition compares an address that moves between the passes (it follows
/// forward references that grow from zero page to absolute) with a page boundary. What an earlier pass defined in a
/// branch that the final pass does not take must not survive.
pub fn cond_program(entropy: &[u32]) -> crate::gen::ast::Program {
    use crate::gen::ast::*;
    use crate::gen::build::Ent;
    use crate::model::isa::Form;
    let mut e = Ent::new(entropy);
    let ins = |mn: &str, form: Form, op: Option<Expr>| Stmt::Instr { mn: mn.into(), form, operand: op };
    let mut main = vec![Stmt::SetPc(Expr::hex(0xf0 + e.below(16) as i64))];
    let nf = 1 + e.below(3);
    for i in 0..nf {
        let mn = *e.pick(&["lda", "ldx", "adc", "sta", "inc"]);
        main.push(ins(mn, Form::Plain, Some(Expr::id(&format!("fwdq{}", e.below(i + 1))))));
    }
    main.push(Stmt::Label { name: "aq".into(), block: None });
    let limit = Expr::hex(0x100 + e.below(4) as i64 - 1);
    let op = *e.pick(&[BinOp::Lt, BinOp::GtEq, BinOp::LtEq, BinOp::Gt]);
    let branch = |e: &mut Ent, name: &str| -> Vec<Stmt> {
        let mut v = vec![];
        if e.chance(1, 2) {
            v.push(ins("nop", Form::None, None));
        }
        v.push(Stmt::Label { name: name.into(), block: None });
        v.push(ins(*e.pick(&["nop", "inx", "clc"]), Form::None, None));
        v
    };
    let then = branch(&mut e, "staleq");
    let els = match e.below(3) {
        0 => Some(branch(&mut e, "staleq")),
        1 => Some(branch(&mut e, "otherq")),
        _ => None,
    };
    let in_scope = e.chance(1, 3);
    let iff = Stmt::If { cond: Expr::bin(Expr::id("aq"), op, limit), then, els };
    let mut rest = vec![iff];
    for _ in 0..e.below(3) {
        let target = if e.chance(3, 4) { "staleq" } else { "otherq" };
        rest.push(match e.below(3) {
            0 => ins("lda", Form::Plain, Some(Expr::id(target))),
            1 => ins("jmp", Form::Plain, Some(Expr::id(target))),
            _ => Stmt::Data { size: DataSize::Word, vals: vec![Expr::id(target)] },
        });
    }
    if in_scope {
        main.push(Stmt::Braces(rest));
    } else {
        main.extend(rest);
    }
    for i in 0..nf {
        main.push(Stmt::Label { name: format!("fwdq{}", i), block: None });
        main.push(ins("rts", Form::None, None));
    }
    crate::gen::build::separate_ambiguous(&mut main);
    Program::single(main)
}

pub fn prop_cond(c: &CondCase, log: &mut CaseLog) -> Verdict {
    let prog = cond_program(&c.entropy);
    let (proj, _) = prog.render();
    let a = match guarded(|| assemble(&proj, AsmOptions::default())) {
        Ok(a) => a,
        Err(_) => {
            log.label("sut-panic");
            return Verdict::Pass;
        }
    };
    if a.pass_verdict != crate::sut::core::PassVerdict::Ended {
        log.label("pass-loop-not-ended");
        return Verdict::Pass;
    }
    if !a.ok() {
        // a reference to a name that the final layout does not define has to be rejected; whether the passes settle at
        // all is not this property's business
        log.label("cond:assembly-failed");
        return Verdict::Pass;
    }
    log.label("cond:assembled");
    log.label(format!("passes:{}", a.passes.min(6)));
    log.nontrivial = a.passes >= 3;
    let image = a.segments();
    match check_image_all(&prog, &image, 0x2000) {
        Ok(m) => match check_symbols(&m, &a) {
            Ok(()) => Verdict::Pass,
            Err((kind, detail)) => Verdict::fail(format!("{}|conditional-definition", kind), format!("{}\n{}", prog.text(), detail)),
        },
        Err(CheckErr::Unsupported(why)) if why.contains("Undefined") => Verdict::fail(
            "assembled-with-a-name-the-final-pass-does-not-define",
            format!("{}\nunder the final addresses {} - no statement that is assembled defines it, yet the build succeeded\nsegments: {:x?}", prog.text(), why, image.iter().map(|s| (&s.name, s.start, s.end, &s.data)).collect::<Vec<_>>()),
        ),
        Err(CheckErr::Unsupported(why)) => {
            log.label(format!("unsupported:{}", why.chars().take(40).collect::<String>()));
            Verdict::Pass
        }
        Err(CheckErr::Mismatch { kind, detail }) => Verdict::fail(format!("{}|conditional-definition", kind), format!("{}\n{}", prog.text(), detail)),
    }
}

pub fn strategy(cfg: GenCfg, max_len: usize) -> impl Strategy<Value = Case> {
    proptest::collection::vec(any::<u32>(), 8..max_len).prop_map(move |entropy| Case { entropy, cfg: cfg.clone() })
}

pub fn run_check(ctx: &mut Ctx) {
    ctx.rule = "programs built from a u32 entropy vector (instructions over all legal forms, data, text, labels with/without blocks, nested scopes, constants from label differences, variables, `* = * + k`, .align, 1-3 segments with/without pc, segments.x.end starts, super/dotted paths, shadowed names, zero-page-boundary origins); oracle: reference layout walk that reads only ambiguous instruction sizes from the image and recomputes every byte, label and operand; then symbol table and VICE text vs model. a further campaign defines a label inside an `.if` on an address that moves between the passes (zero page to absolute around $100): nothing an earlier pass defined in a branch the final pass does not take may survive in the image or the symbols, and a build that succeeds although the final layout leaves a referenced name undefined is a violation. non-trivial = assembled and (>=3 passes with a forward reference, or >=3 forward references); distinct by entropy hash".into();
    ctx.assumptions.push("model/layout.rs, model/eval.rs, model/isa.rs (reference models, no mos code)".into());
    let n = ctx.tier.pick(10_000, 300_000);
    ctx.campaign("clean-domain", n, strategy(GenCfg::c02(), 400), prop, to_json);

    // small programs with a forward reference to a definition that shadows an outer one (the trigger of a finding that
    // has been repaired; part of the clean domain as well, but only small programs leave the stale binding alone)
    let mut cfg = GenCfg::c02();
    cfg.shadow_forward_ref = true;
    // the stale binding only survives when no other forward reference forces a further pass: small programs
    cfg.max_stmts = 10;
    let n2 = ctx.tier.pick(3000, 40_000);
    ctx.campaign("feature:forward_ref_to_shadowing_definition", n2, strategy(cfg, 300), prop, to_json);

    let n3 = ctx.tier.pick(6000, 100_000);
    ctx.campaign(
        "definitions-under-address-conditions",
        n3,
        proptest::collection::vec(any::<u32>(), 6..40).prop_map(|entropy| CondCase { entropy }),
        prop_cond,
        |c| json!({"cond_entropy": c.entropy, "program": cond_program(&c.entropy).text()}),
    );

    let asm = ctx.label_count("assembled");
    let total = ctx.evaluations.max(1);
    ctx.health(asm * 100 / total >= 60, format!("assembly success rate {}% < 60%", asm * 100 / total));
    let unsup = ctx.label_count("model-unsupported");
    ctx.health(unsup * 100 / total < 10, format!("model-unsupported rate {}%", unsup * 100 / total));
}

pub fn replay(ctx: &mut Ctx, case: &serde_json::Value) {
    if let Some(en) = case.get("cond_entropy") {
        match serde_json::from_value::<Vec<u32>>(en.clone()) {
            Ok(entropy) => ctx.replay_one(&CondCase { entropy }, prop_cond, case.clone()),
            Err(e) => ctx.health(false, format!("replay case does not deserialize: {}", e)),
        }
        return;
    }
    if let Some(b) = case.get("built") {
        match serde_json::from_value::<Built>(b.clone()) {
            Ok(b) => ctx.replay_one(&b, prop_built, case.clone()),
            Err(e) => ctx.health(false, format!("replay case does not deserialize: {}", e)),
        }
        return;
    }
    let c: Case = match serde_json::from_value(json!({"entropy": case["entropy"], "cfg": case["cfg"]})) {
        Ok(c) => c,
        Err(e) => {
            ctx.health(false, format!("replay case does not deserialize: {}", e));
            return;
        }
    };
    ctx.replay_one(&c, prop, case.clone());
}
