//! C18 — unit-test verdicts reflect the emulated machine state.

use crate::engine::{CaseLog, Ctx, Verdict};
use crate::gen::ast::*;
use crate::gen::build::Ent;
use crate::model::cpu::{self, Cpu, Step};
use crate::model::eval::{self, Env, EvalErr, Value};
use crate::model::isa::Form;
use crate::model::layout::{check_image, CheckErr, ModelOut, Options};
use crate::sut::cli::{have_mos, parse_short_diags, run_mos, Scratch};
use crate::sut::core::{assemble, guarded, AsmOptions};
use proptest::prelude::*;
use serde::{Deserialize, Serialize};
use serde_json::json;
use std::collections::BTreeMap;

#[derive(Clone, Debug, Hash, PartialEq, Eq, Serialize, Deserialize)]
pub struct Case {
    pub entropy: Vec<u32>,
    /// finding feature: an assertion that holds on its first visit and fails on a later one
    pub revisit_failures: bool,
}

pub fn ins(mn: &str, form: Form, e: Option<Expr>) -> Stmt {
    Stmt::Instr { mn: mn.into(), form, operand: e }
}

pub struct Gen<'e> {
    pub e: Ent<'e>,
    pub label_no: usize,
    pub subs: Vec<(String, Vec<Stmt>)>,
    pub tag: String,
    /// largest count of a counted loop
    pub max_loop: u32,
    /// C19: also `.loop` blocks and macro invocations (one source line, several addresses), recursion
    pub extras: bool,
    pub macros: Vec<(String, Vec<Stmt>)>,
}

impl<'e> Gen<'e> {
    pub fn label(&mut self, p: &str) -> String {
        self.label_no += 1;
        format!("q{}{}{}", p, self.tag, self.label_no)
    }
    fn imm(&mut self) -> Expr {
        let v = match self.e.below(4) {
            0 => *self.e.pick(&[0i64, 1, 0x7f, 0x80, 0xff]),
            _ => self.e.range(0, 255),
        };
        Expr::Num { v, radix: *self.e.pick(&[10u8, 16]), zeros: 0 }
    }
    fn zp(&mut self) -> Expr {
        Expr::hex(0x10 + self.e.below(8) as i64)
    }
    fn abs(&mut self) -> Expr {
        Expr::hex(0x0300 + self.e.below(8) as i64)
    }
    /// one simple instruction (or a balanced pha..pla unit); `keep_x`/`keep_y`: must not modify that register
    fn simple(&mut self, keep_x: bool, keep_y: bool) -> Vec<Stmt> {
        loop {
            let k = self.e.below(34);
            let s = match k {
                0 => ins("lda", Form::Imm, Some(self.imm())),
                1 if !keep_x => ins("ldx", Form::Imm, Some(self.imm())),
                2 if !keep_y => ins("ldy", Form::Imm, Some(self.imm())),
                3 => ins("lda", Form::Plain, Some(self.zp())),
                4 => ins("sta", Form::Plain, Some(self.zp())),
                5 => ins("sta", Form::Plain, Some(self.abs())),
                6 if !keep_x => ins("ldx", Form::Plain, Some(self.abs())),
                7 => ins("stx", Form::Plain, Some(self.zp())),
                8 => ins("sty", Form::Plain, Some(self.abs())),
                9 => ins("lda", Form::PlainX, Some(self.abs())),
                10 => ins("sta", Form::PlainY, Some(self.abs())),
                11 => ins("inc", Form::Plain, Some(self.zp())),
                12 => ins("dec", Form::Plain, Some(self.abs())),
                13 if !keep_x => ins(*self.e.pick(&["inx", "dex", "tax"]), Form::None, None),
                14 if !keep_y => ins(*self.e.pick(&["iny", "dey", "tay"]), Form::None, None),
                15 => ins(*self.e.pick(&["txa", "tya"]), Form::None, None),
                16 => ins(*self.e.pick(&["and", "ora", "eor"]), Form::Imm, Some(self.imm())),
                17 => ins("adc", Form::Imm, Some(self.imm())),
                18 => ins("sbc", Form::Imm, Some(self.imm())),
                19 => ins(*self.e.pick(&["clc", "sec"]), Form::None, None),
                20 => ins(*self.e.pick(&["asl", "lsr", "rol", "ror"]), Form::None, None),
                21 => ins("cmp", Form::Imm, Some(self.imm())),
                22 => ins("cpx", Form::Imm, Some(self.imm())),
                23 => ins("cpy", Form::Imm, Some(self.imm())),
                24 => {
                    let mut v = vec![ins("pha", Form::None, None)];
                    v.extend(self.simple(keep_x, keep_y).into_iter().filter(|s| !matches!(s, Stmt::Instr { mn, .. } if mn == "pha" || mn == "pla")));
                    v.push(ins("pla", Form::None, None));
                    return v;
                }
                25 => ins("nop", Form::None, None),
                26 => ins("bit", Form::Plain, Some(self.zp())),
                27 => ins("lda", Form::IndY, Some(Expr::hex(0x20))),
                28 => ins("sta", Form::IndX, Some(Expr::hex(0x20))),
                29 => ins("asl", Form::Plain, Some(self.zp())),
                30 => ins("ror", Form::Plain, Some(self.abs())),
                31 => ins("tsx", Form::None, None),
                32 => ins("adc", Form::Plain, Some(self.zp())),
                _ => ins("eor", Form::Plain, Some(self.abs())),
            };
            if keep_x && matches!(&s, Stmt::Instr { mn, .. } if mn == "tsx") {
                continue;
            }
            return vec![s];
        }
    }

    pub fn items(&mut self, n: usize, depth: usize, keep_x: bool, keep_y: bool, call_depth: usize) -> Vec<Stmt> {
        let mut out = vec![];
        for _ in 0..n {
            match self.e.below(12) {
                0 | 1 if depth < 2 && !(keep_x && keep_y) => {
                    // counted loop on x (outer) or y (inner)
                    let use_x = !keep_x;
                    let k = 1 + self.e.below(self.max_loop as usize) as i64;
                    let l = self.label("l");
                    out.push(ins(if use_x { "ldx" } else { "ldy" }, Form::Imm, Some(Expr::num(k))));
                    out.push(Stmt::Label { name: l.clone(), block: None });
                    let m = 1 + self.e.below(3);
                    out.extend(self.items(m, depth + 1, keep_x || use_x, keep_y || !use_x, call_depth));
                    out.push(ins(if use_x { "dex" } else { "dey" }, Form::None, None));
                    out.push(ins("bne", Form::Plain, Some(Expr::id(&l))));
                }
                2 => {
                    // forward skip
                    let l = self.label("s");
                    out.push(ins("cmp", Form::Imm, Some(self.imm())));
                    out.push(ins(*self.e.pick(&["beq", "bne", "bcc", "bcs", "bmi", "bpl"]), Form::Plain, Some(Expr::id(&l))));
                    out.extend(self.simple(keep_x, keep_y));
                    out.push(Stmt::Label { name: l, block: None });
                }
                3 if call_depth < 2 => {
                    let name = self.label("f");
                    let m = 1 + self.e.below(3);
                    let mut body = self.items(m, 2, keep_x, keep_y, call_depth + 1);
                    body.push(ins("rts", Form::None, None));
                    self.subs.push((name.clone(), body));
                    out.push(ins("jsr", Form::Plain, Some(Expr::id(&name))));
                }
                4 if depth < 2 => {
                    let m = 1 + self.e.below(3);
                    out.push(Stmt::Braces(self.items(m, depth + 1, keep_x, keep_y, call_depth)));
                }
                5 if self.extras => {
                    // unrolled block: one source line, several addresses
                    let k = 2 + self.e.below(3) as i64;
                    let body = self.simple(keep_x, keep_y);
                    out.push(Stmt::Loop { count: Expr::num(k), body });
                }
                6 if self.extras => {
                    // a macro, invoked here (and possibly again later)
                    let reuse = !self.macros.is_empty() && self.e.chance(1, 2);
                    let name = if reuse {
                        let i = self.e.below(self.macros.len());
                        self.macros[i].0.clone()
                    } else {
                        let name = self.label("m");
                        let mut body = self.simple(true, true);
                        body.extend(self.simple(true, true));
                        self.macros.push((name.clone(), body));
                        name
                    };
                    out.push(Stmt::MacroCall { name, args: vec![] });
                }
                7 if self.extras && call_depth == 0 && !self.subs.iter().any(|(n, _)| n.starts_with("qrec")) => {
                    // a subroutine that calls itself: the same call site is live in several frames
                    let name = format!("qrec{}", self.tag);
                    let done = self.label("r");
                    let k = 2 + self.e.below(3) as i64;
                    out.push(ins("lda", Form::Imm, Some(Expr::num(k))));
                    out.push(ins("sta", Form::Plain, Some(Expr::hex(0x1f))));
                    out.push(ins("jsr", Form::Plain, Some(Expr::id(&name))));
                    let mut body = vec![ins("dec", Form::Plain, Some(Expr::hex(0x1f))), ins("beq", Form::Plain, Some(Expr::id(&done))), ins("jsr", Form::Plain, Some(Expr::id(&name)))];
                    body.extend(self.simple(true, true));
                    body.push(Stmt::Label { name: done, block: None });
                    body.push(ins("rts", Form::None, None));
                    self.subs.push((name, body));
                }
                _ => out.extend(self.simple(keep_x, keep_y)),
            }
        }
        out
    }
}

#[derive(Clone, Debug)]
pub struct Built {
    pub prog: Program,
    pub tests: Vec<String>,
    pub banked: bool,
    pub consts: BTreeMap<String, i64>,
}

fn base_program(c: &Case) -> Built {
    let mut e = Ent::new(&c.entropy);
    let ntests = 1 + e.below(3);
    let banked = e.chance(1, 5);
    // the segment the tests are in: 0 the default one; 1 one that is kept out of the output file; 2 one that is stored
    // at another address than it runs at
    let tests_in = if banked { 0 } else { *e.pick(&[0usize, 0, 0, 1, 2]) };
    let mut main: Vec<Stmt> = vec![];
    let mut consts = BTreeMap::new();
    if tests_in > 0 {
        main.push(Stmt::DefineSegment { name: "sr".into(), start: Some(Expr::hex(0xc000)), pc: None, write: None, bank: None });
        if tests_in == 1 {
            main.push(Stmt::DefineSegment { name: "st".into(), start: Some(Expr::hex(0xc800)), pc: None, write: Some(false), bank: None });
        } else {
            main.push(Stmt::DefineSegment { name: "st".into(), start: Some(Expr::hex(0x4000)), pc: Some(Expr::hex(0xc800)), write: None, bank: None });
        }
    }
    if banked {
        main.push(Stmt::DefineBank { name: "b0".into(), size: None, fill: None, filename: None, create_segment: None });
        main.push(Stmt::DefineBank { name: "b1".into(), size: None, fill: None, filename: Some("other.bin".into()), create_segment: None });
        main.push(Stmt::DefineSegment { name: "sa".into(), start: Some(Expr::hex(0xc000)), pc: None, write: None, bank: Some("b0".into()) });
        main.push(Stmt::DefineSegment { name: "sb".into(), start: Some(Expr::hex(0x4000)), pc: None, write: None, bank: Some("b1".into()) });
        main.push(Stmt::Segment { name: "sb".into(), block: Some(vec![Stmt::Data { size: DataSize::Byte, vals: vec![Expr::hex(0x77), Expr::hex(0x88)] }]) });
        if e.chance(1, 2) {
            // the other bank has code at the addresses of the tests as well, with assertions that would fail: they do
            // not exist while a test of this bank runs
            main.push(Stmt::DefineSegment { name: "sc".into(), start: Some(Expr::hex(0xc000)), pc: None, write: None, bank: Some("b1".into()) });
            let mut other = vec![];
            for _ in 0..24 {
                other.push(Stmt::Assert { e: Expr::bin(Expr::Id { path: vec!["cpu".into(), "sp".into()], modifier: None }, BinOp::Eq, Expr::num(7)), msg: Some("an assertion of the other bank".into()) });
                other.push(ins("nop", Form::None, None));
            }
            main.push(Stmt::Segment { name: "sc".into(), block: Some(other) });
        }
    }
    // (only where the segments are spelled out: a program without definitions relies on the implicit default segment)
    let subs_elsewhere = (tests_in > 0 || banked) && c.entropy.iter().fold(0u32, |a, s| a.rotate_left(5) ^ s) % 5 < 2;
    if subs_elsewhere {
        main.push(Stmt::DefineSegment { name: "sl".into(), start: Some(Expr::hex(0xd400)), pc: None, write: None, bank: if banked { Some("b0".into()) } else { None } });
    }
    main.push(Stmt::Const { name: "kexp".into(), e: Expr::num(7) });
    consts.insert("kexp".to_string(), 7);
    // some resident code/data before the tests
    main.push(Stmt::Label { name: "resident".into(), block: None });
    main.push(Stmt::Data { size: DataSize::Byte, vals: vec![Expr::num(1), Expr::num(2), Expr::num(3)] });
    let mut tests = vec![];
    let seeds: Vec<u32> = (0..ntests).map(|_| e.next()).collect();
    let mut libs: Vec<Stmt> = vec![];
    for (t, seed) in seeds.iter().enumerate() {
        let name = format!("t{}", t);
        // each test draws from its own slice of the entropy so that shrinking one leaves the others alone
        let start = (8 + t * 40).min(c.entropy.len());
        let end = (start + 40).min(c.entropy.len());
        let mut sub: Vec<u32> = vec![*seed];
        sub.extend_from_slice(&c.entropy[start..end]);
        let mut g = Gen { e: Ent::new(&sub), label_no: 0, subs: vec![], tag: format!("{}", t), max_loop: 6, extras: false, macros: vec![] };
        let n = 2 + g.e.below(7);
        let mut body = g.items(n, 0, false, false, 0);
        body.push(ins("brk", Form::None, None));
        if subs_elsewhere {
            // the subroutines live in a segment of their own (a library): same bank, so they - and the assertions in
            // them - exist while the test runs
            let mut lib = vec![];
            for (sname, sbody) in std::mem::take(&mut g.subs) {
                lib.push(Stmt::Label { name: sname, block: None });
                lib.extend(sbody);
            }
            if !lib.is_empty() {
                libs.push(Stmt::Segment { name: "sl".into(), block: Some(lib) });
            }
        }
        for (sname, sbody) in std::mem::take(&mut g.subs) {
            body.push(Stmt::Label { name: sname, block: None });
            body.extend(sbody);
        }
        if tests_in > 0 {
            main.push(Stmt::Segment { name: "st".into(), block: Some(vec![Stmt::Test { name: name.clone(), body }]) });
        } else {
            main.push(Stmt::Test { name: name.clone(), body });
        }
        tests.push(name);
    }
    main.extend(libs);
    crate::gen::build::separate_ambiguous(&mut main);
    Built { prog: Program::single(main), tests, banked, consts }
}

struct AssertEnv<'a> {
    cpu: &'a Cpu,
    m: &'a ModelOut,
    consts: &'a BTreeMap<String, i64>,
}

impl<'a> Env for AssertEnv<'a> {
    fn lookup(&mut self, path: &[String]) -> Result<Value, EvalErr> {
        let p: Vec<&str> = path.iter().map(|s| s.as_str()).collect();
        let v = match p.as_slice() {
            ["cpu", "a"] => self.cpu.a as i64,
            ["cpu", "x"] => self.cpu.x as i64,
            ["cpu", "y"] => self.cpu.y as i64,
            ["cpu", "sp"] => self.cpu.sp as i64,
            ["cpu", "flags", f] => {
                let mask = match *f {
                    "carry" => cpu::C,
                    "zero" => cpu::Z,
                    "interrupt_disable" => cpu::I,
                    "decimal" => cpu::D,
                    "overflow" => cpu::V,
                    "negative" => cpu::N,
                    _ => return Err(EvalErr::Undefined(path.to_vec())),
                };
                // only the truth value of a flag symbol is specified
                ((self.cpu.p & mask) != 0) as i64
            }
            [name] => {
                if let Some(v) = self.consts.get(*name) {
                    *v
                } else if let Some(l) = self.m.labels.iter().find(|l| l.path.last().map(|s| s.as_str()) == Some(*name)) {
                    l.value
                } else {
                    return Err(EvalErr::Undefined(path.to_vec()));
                }
            }
            _ => return Err(EvalErr::Undefined(path.to_vec())),
        };
        Ok(Value::Int(v))
    }
    fn defined(&mut self, path: &[String]) -> Result<bool, EvalErr> {
        Ok(self.lookup(path).is_ok())
    }
    fn pc(&mut self) -> Result<i64, EvalErr> {
        Ok(self.cpu.pc as i64)
    }
    fn call(&mut self, name: &str, args: &[Value]) -> Result<Value, EvalErr> {
        let a = match args.first() {
            Some(Value::Int(a)) => (*a as u16) as usize,
            _ => return Err(EvalErr::Type("ram argument".into())),
        };
        match name {
            "ram" => Ok(Value::Int(self.cpu.mem[a] as i64)),
            "ram16" => Ok(Value::Int(self.cpu.mem[a] as i64 | ((self.cpu.mem[(a + 1) & 0xffff] as i64) << 8))),
            _ => Err(EvalErr::Unsupported(name.to_string())),
        }
    }
}

#[derive(Clone, Debug, PartialEq, Eq)]
pub enum Expect {
    Pass,
    Fail { file: String, stmt: usize, message: String },
    /// the reference could not decide (instruction outside the subset, step bound)
    Unknown(String),
}

/// state at every instruction boundary of the reference run: (pc, a, x, y, sp, p, visit number of that pc)
pub type Trace = Vec<(u16, u8, u8, u8, u8, u8, usize)>;

pub fn reference_run(prog: &Program, test: &str, consts: &BTreeMap<String, i64>, banked: bool) -> Result<(Expect, Trace, ModelOut, Cpu), String> {
    reference_run_mode(prog, test, consts, banked, false)
}

/// `first_visit_only`: evaluate every assertion only the first time its address is reached (used to recognise the
/// recorded finding, never as the expectation)
pub fn reference_run_mode(prog: &Program, test: &str, consts: &BTreeMap<String, i64>, banked: bool, first_visit_only: bool) -> Result<(Expect, Trace, ModelOut, Cpu), String> {
    let (proj, _) = prog.render();
    let a = guarded(|| assemble(&proj, AsmOptions { pc: 0xc000, active_test: Some(test.to_string()), ..AsmOptions::default() })).map_err(|p| format!("sut panic {:?}", p))?;
    if !a.ok() {
        return Err(format!("program does not assemble: {:?}", a.all_diags()));
    }
    let m = match check_image(prog, &a.segments(), &Options { default_pc: 0xc000, align_choices: vec![], active_test: Some(test.to_string()) }) {
        Ok(m) => m,
        Err(CheckErr::Unsupported(w)) => return Err(format!("model unsupported: {}", w)),
        Err(CheckErr::Mismatch { kind, detail }) => return Err(format!("image mismatch {} {}", kind, detail)),
    };
    let (_, start, seg) = m.tests.iter().find(|t| t.0 == test).cloned().ok_or("test not found in model")?;
    let mut cpu = Cpu::new(start as u16);
    // only the bank of the test's segment is loaded
    let test_bank = m.segs[seg].bank.clone();
    // (everything of that bank: whether a segment is written to the output file does not matter to the machine, and the
    // code of a segment with a `pc` runs at that address)
    for s in &m.segs {
        let same_bank = if banked { s.bank == test_bank } else { true };
        if same_bank && s.touched {
            let (lo, hi) = s.range();
            cpu.mem[lo as usize..hi as usize].copy_from_slice(s.range_data());
        }
    }
    for s in &m.segs {
        let same_bank = if banked { s.bank == test_bank } else { true };
        if same_bank && s.touched && s.offset != 0 {
            let (lo, hi) = s.range();
            let (tlo, thi) = ((lo + s.offset) as usize, (hi + s.offset) as usize);
            if thi <= 0x10000 {
                cpu.mem[tlo..thi].copy_from_slice(s.range_data());
            }
        }
    }
    let mut trace: Trace = vec![];
    let mut visits: BTreeMap<u16, usize> = BTreeMap::new();
    for _ in 0..20_000 {
        let v = visits.entry(cpu.pc).or_insert(0);
        *v += 1;
        trace.push((cpu.pc, cpu.a, cpu.x, cpu.y, cpu.sp, cpu.p, *v));
        let visit_no = *v;
        // (only the assertions of the test's own bank exist while it runs)
        for asr in m.asserts.iter().filter(|x| x.pc as u16 == cpu.pc).filter(|x| !banked || x.seg.map(|i| m.segs[i].bank == test_bank).unwrap_or(true)) {
            if first_visit_only && visit_no > 1 {
                continue;
            }
            let r = {
                let mut env = AssertEnv { cpu: &cpu, m: &m, consts };
                eval::eval(&asr.expr, &mut env)
            };
            let ok = matches!(r, Ok(Value::Int(n)) if n != 0) || matches!(r, Ok(Value::Str(_)));
            if !ok {
                let message = asr.msg.clone().unwrap_or_else(|| format!("assertion failed: {}", render_expr(&asr.expr)));
                return Ok((Expect::Fail { file: asr.file.clone(), stmt: asr.stmt, message }, trace, m, cpu));
            }
        }
        match cpu.step() {
            Step::Ok => {}
            Step::Brk => return Ok((Expect::Pass, trace, m, cpu)),
            Step::Unmodelled(o) => return Ok((Expect::Unknown(format!("opcode {:02x} outside the modelled subset", o)), trace, m, cpu)),
        }
    }
    Ok((Expect::Unknown("step bound".into()), trace, m, cpu))
}

/// insert assertions into the tests of the base program, using the reference trace to choose true / false ones
pub fn with_assertions(c: &Case, b: &Built) -> (Program, Vec<String>) {
    let mut prog = b.prog.clone();
    let mut kinds = vec![];
    let mut e = Ent::new(&c.entropy);
    for _ in 0..5 {
        e.next();
    }
    for test in &b.tests {
        let (_, trace, m, _) = match reference_run(&prog, test, &b.consts, b.banked) {
            Ok(x) => x,
            Err(_) => continue,
        };
        // statements (render order numbers) of the test body whose address is visited
        let na = e.below(4);
        let mut inserts: Vec<(usize, Stmt)> = vec![];
        for _ in 0..na {
            let sites: Vec<&crate::model::layout::Site> = m.sites.iter().filter(|s| trace.iter().any(|t| t.0 as i64 == s.pc)).collect();
            if sites.is_empty() {
                break;
            }
            let site = sites[e.below(sites.len())];
            let visits: Vec<&(u16, u8, u8, u8, u8, u8, usize)> = trace.iter().filter(|t| t.0 as i64 == site.pc).collect();
            let first = visits[0];
            let later_diff = visits.iter().skip(1).find(|v| (v.1, v.2, v.3) != (first.1, first.2, first.3));
            let reg = e.below(3);
            let (rname, rval) = match reg {
                0 => ("a", first.1),
                1 => ("x", first.2),
                _ => ("y", first.3),
            };
            let regid = Expr::Id { path: vec!["cpu".into(), rname.into()], modifier: None };
            let kind = e.below(12);
            let (expr, label): (Expr, &str) = match kind {
                0 | 1 => (Expr::bin(regid, BinOp::Eq, Expr::num(rval as i64)), "true-at-first-visit"),
                2 => (Expr::bin(regid, BinOp::Ne, Expr::num(rval as i64)), "false-at-first-visit"),
                3 => (Expr::bin(regid, BinOp::Eq, Expr::num((rval as i64 + 1) & 0xff)), "false-at-first-visit"),
                4 => {
                    let f = *e.pick(&["zero", "carry", "negative", "overflow"]);
                    let mask = match f {
                        "zero" => cpu::Z,
                        "carry" => cpu::C,
                        "negative" => cpu::N,
                        _ => cpu::V,
                    };
                    let set = first.5 & mask != 0;
                    let id = Expr::Id { path: vec!["cpu".into(), "flags".into(), f.into()], modifier: None };
                    match e.below(4) {
                        0 => (if set { id } else { Expr::Not(Box::new(id)) }, "true-at-first-visit"),
                        1 => (if set { Expr::Not(Box::new(id)) } else { id }, "false-at-first-visit"),
                        // a flag is 0 or 1
                        2 => (Expr::bin(id, BinOp::Eq, Expr::num(set as i64)), "true-at-first-visit"),
                        _ => (Expr::bin(id, BinOp::Eq, Expr::num(!set as i64)), "false-at-first-visit"),
                    }
                }
                5 => (Expr::bin(Expr::Pc, BinOp::Eq, Expr::hex(site.pc)), "true-at-first-visit"),
                6 => (Expr::bin(Expr::Id { path: vec!["cpu".into(), "sp".into()], modifier: None }, BinOp::LtEq, Expr::hex(0xfd)), "true-at-first-visit"),
                7 => (Expr::bin(regid, BinOp::Eq, Expr::id("nodefsym")), "unevaluable"),
                8 => (Expr::bin(Expr::bin(regid, BinOp::Add, Expr::id("kexp")), BinOp::Eq, Expr::num(rval as i64 + 7)), "true-at-first-visit"),
                // the ends of the address space: the word at $ffff wraps around
                10 => (Expr::bin(Expr::Call("ram16".into(), vec![Expr::hex(0xffff)]), BinOp::GtEq, Expr::num(0)), "true-at-first-visit"),
                11 => (Expr::bin(Expr::Call("ram".into(), vec![Expr::hex(0xffff)]), BinOp::LtEq, Expr::num(255)), "true-at-first-visit"),
                _ => {
                    if b.banked {
                        if e.chance(1, 2) {
                            (Expr::bin(Expr::Call("ram".into(), vec![Expr::hex(0x4000)]), BinOp::Eq, Expr::num(0)), "other-bank-invisible")
                        } else {
                            (Expr::bin(Expr::Call("ram16".into(), vec![Expr::hex(0x4000)]), BinOp::Eq, Expr::hex(0x8877)), "other-bank-visible-claim")
                        }
                    } else {
                        (Expr::bin(Expr::Call("ram".into(), vec![Expr::id("resident")]), BinOp::Eq, Expr::num(1)), "true-at-first-visit")
                    }
                }
            };
            let revisit = later_diff.is_some() && label == "true-at-first-visit" && matches!(kind, 0 | 1 | 8);
            kinds.push(if revisit { "true-first-false-later".to_string() } else { label.to_string() });
            let msg = if e.chance(1, 3) { Some(format!("custom message {}", kinds.len())) } else { None };
            inserts.push((site.stmt, Stmt::Assert { e: expr, msg }));
        }
        // insert in front of the chosen statements (descending numbers keep earlier numbers valid)
        inserts.sort_by(|a, b| b.0.cmp(&a.0));
        for (stmt_no, st) in inserts {
            insert_before(prog.main_mut(), stmt_no, st);
        }
    }
    (prog, kinds)
}

fn insert_before(body: &mut Vec<Stmt>, target: usize, st: Stmt) -> bool {
    fn go(body: &mut Vec<Stmt>, n: &mut usize, target: usize, st: &mut Option<Stmt>) -> bool {
        let mut i = 0;
        while i < body.len() {
            if *n == target {
                body.insert(i, st.take().unwrap());
                return true;
            }
            *n += 1;
            for c in body[i].children_mut() {
                if go(c, n, target, st) {
                    return true;
                }
            }
            i += 1;
        }
        false
    }
    let mut n = 0;
    let mut st = Some(st);
    go(body, &mut n, target, &mut st)
}

pub fn prop(c: &Case, log: &mut CaseLog) -> Verdict {
    let b = base_program(c);
    let (prog, kinds) = with_assertions(c, &b);
    for k in &kinds {
        log.label(format!("assert:{}", k));
    }
    log.label_if(b.banked, "banked");
    log.label_if(prog.render().0.files.values().any(|t| t.contains("\"sl\" {") || t.contains("\"sl\"{")), "subroutines-in-library-segment");
    log.label(format!("tests:{}", b.tests.len()));
    let (proj, rs) = prog.render();
    let text = proj.main_text().to_string();
    // expected verdicts
    let mut expected: Vec<(String, Expect)> = vec![];
    let mut revisit_sensitive = false;
    for t in &b.tests {
        match reference_run(&prog, t, &b.consts, b.banked) {
            Ok((e, trace, _, _)) => {
                log.label_if(trace.iter().any(|x| x.6 > 1), "revisited-code");
                if let Ok((e1, _, _, _)) = reference_run_mode(&prog, t, &b.consts, b.banked, true) {
                    if e1 != e {
                        revisit_sensitive = true;
                    }
                }
                expected.push((t.clone(), e));
            }
            Err(w) => {
                log.label("reference-unusable");
                return Verdict::fail("harness-reference-unusable", format!("{}\n{}", text, w));
            }
        }
    }
    if expected.iter().any(|(_, e)| matches!(e, Expect::Unknown(_))) {
        log.label("reference-unknown");
        return Verdict::Pass;
    }
    let any_fail = expected.iter().any(|(_, e)| matches!(e, Expect::Fail { .. }));
    log.label(if any_fail { "expect:some-test-fails" } else { "expect:all-pass" });
    log.nontrivial = kinds.iter().any(|k| k != "true-at-first-visit") || b.tests.len() > 1;
    if revisit_sensitive && !c.revisit_failures {
        // recorded finding: an assertion is only evaluated the first time its address is reached. A case whose verdict
        // depends on a later visit is excluded from the clean domain (and confirmed by the feature campaign).
        log.label("excluded:verdict-depends-on-later-visit");
        return Verdict::Pass;
    }
    let feat = if revisit_sensitive { "|feature=assertion_true_first_visit_false_later" } else { "" };
    // run mos test
    let sc = Scratch::new("c18");
    sc.write_project(&proj, "[build]\nentry = \"main.asm\"\n");
    let run = run_mos(&sc.dir, &["--no-color", "-e", "Short", "test"]);
    if run.timed_out {
        return Verdict::Discard("mos killed by the watchdog".into());
    }
    let detail = |what: &str| format!("{}\n{}\nexpected: {:?}\nexit {:?}\nstdout:\n{}\nstderr:\n{}", what, text, expected, run.code, run.stdout, run.stderr);
    if run.code.is_none() || run.code.map(|c| c > 1).unwrap_or(false) {
        return Verdict::fail(format!("abnormal-exit|{:?}|{:?}", run.code, run.signal), detail("mos test crashed"));
    }
    // verdict lines
    let mut got: BTreeMap<String, bool> = BTreeMap::new();
    for l in run.stderr.lines().chain(run.stdout.lines()) {
        if let Some(rest) = l.trim().strip_prefix("test '") {
            if let Some((name, tail)) = rest.split_once("' ... ") {
                got.insert(name.to_string(), tail.starts_with("ok"));
            }
        }
    }
    for (t, e) in &expected {
        let want_ok = matches!(e, Expect::Pass);
        match got.get(t) {
            None => return Verdict::fail(format!("test-not-reported{}", feat), detail(&format!("no verdict line for test {}", t))),
            Some(ok) if *ok != want_ok => {
                let k = if want_ok { "passing-test-reported-failed" } else { "failing-test-reported-ok" };
                return Verdict::fail(format!("{}{}", k, feat), detail(&format!("test {}", t)));
            }
            _ => {}
        }
    }
    if (run.code == Some(1)) != any_fail {
        return Verdict::fail(format!("exit-status-wrong{}", feat), detail("exit status must be non-zero iff a test failed"));
    }
    // located failure messages
    let ds = parse_short_diags(&run.stdout);
    let r = &rs["main.asm"];
    for (t, e) in &expected {
        if let Expect::Fail { stmt, message, .. } = e {
            // the assertion's expression: Value(stmt, 0) mark
            let (line, col) = match r.marks.iter().find(|m| m.kind == MarkKind::Value(*stmt, 0)) {
                Some(m) => r.line_col(m.start),
                None => (0, 0),
            };
            let ok = ds.iter().any(|d| d.line == line && d.col == col && d.msg.trim() == message.trim());
            if !ok {
                return Verdict::fail(format!("failure-not-located-at-assertion{}", feat), detail(&format!("test {}: expected `main.asm:{}:{}: error: {}`", t, line, col, message)));
            }
        }
    }
    Verdict::Pass
}

/// Tests in an imported file: every test is one test, whatever names it can be reached by. Verdicts and exit status by
/// construction (an assertion on an immediate value).
pub fn prop_imported(entropy: &Vec<u32>, log: &mut CaseLog) -> Verdict {
    let mut e = Ent::new(entropy);
    let import = *e.pick(&[".import * from \"lib.asm\"", ".import * as libq from \"lib.asm\"", ".import doubleq from \"lib.asm\"", ".import doubleq as dq from \"lib.asm\""]);
    let callee = if import.contains(" as dq") {
        "dq"
    } else if import.contains("as libq") {
        "libq.doubleq"
    } else {
        "doubleq"
    };
    let lib_ok = e.chance(2, 3);
    let main_ok = e.chance(2, 3);
    let n_lib = 1 + e.below(2);
    let mut lib = String::from("doubleq: {\n    asl\n    rts\n}\n");
    for i in 0..n_lib {
        let want = if lib_ok || i > 0 { 4 } else { 5 };
        lib.push_str(&format!(".test \"lib_test{}\" {{\n    lda #2\n    jsr doubleq\n    .assert cpu.a == {}\n    brk\n}}\n", i, want));
    }
    let before = e.chance(1, 2);
    let test = format!(".test \"main_test\" {{\n    lda #3\n    jsr {}\n    .assert cpu.a == {}\n    brk\n}}\n", callee, if main_ok { 6 } else { 7 });
    let main = if before { format!("{}\n{}", import, test) } else { format!("{}{}\n", test, import) };
    let mut files = BTreeMap::new();
    files.insert("main.asm".to_string(), main);
    files.insert("lib.asm".to_string(), lib);
    let proj = crate::sut::core::Project { files, entry: "main.asm".into() };
    let sc = Scratch::new("c18");
    sc.write_project(&proj, "[build]\nentry = \"main.asm\"\n");
    let run = run_mos(&sc.dir, &["--no-color", "-e", "Short", "test"]);
    if run.timed_out {
        return Verdict::Discard("mos killed by the watchdog".into());
    }
    log.label("imported-tests");
    log.nontrivial = true;
    let text = proj.files.iter().map(|(n, t)| format!("--- {} ---\n{}", n, t)).collect::<Vec<_>>().join("");
    let detail = |what: &str| format!("{}\n{}\nexit {:?}\nstdout:\n{}\nstderr:\n{}", what, text, run.code, run.stdout, run.stderr);
    let mut got: Vec<(String, bool)> = vec![];
    for l in run.stderr.lines().chain(run.stdout.lines()) {
        if let Some(rest) = l.trim().strip_prefix("test '") {
            if let Some((name, tail)) = rest.split_once("' ... ") {
                got.push((name.to_string(), tail.starts_with("ok")));
            }
        }
    }
    let any_fail = !lib_ok || !main_ok;
    if (run.code == Some(1)) != any_fail || run.code.map(|c| c > 1).unwrap_or(true) {
        return Verdict::fail("exit-status-wrong|imported-tests", detail(&format!("{} test(s) are expected to fail: the exit status must be non-zero iff a test failed", any_fail as u8)));
    }
    if got.len() != n_lib + 1 {
        return Verdict::fail("test-not-reported|imported-tests", detail(&format!("{} tests exist, {} verdict lines", n_lib + 1, got.len())));
    }
    for (name, ok) in &got {
        let want = if name.ends_with("main_test") { main_ok } else if name.ends_with("lib_test0") { lib_ok } else { true };
        if *ok != want {
            return Verdict::fail("verdict-wrong|imported-tests", detail(&format!("test {}", name)));
        }
    }
    Verdict::Pass
}

pub fn to_json(c: &Case) -> serde_json::Value {
    let b = base_program(c);
    let (prog, kinds) = with_assertions(c, &b);
    json!({"entropy": c.entropy, "revisit_failures": c.revisit_failures, "program": prog.text(), "assertion_kinds": kinds})
}

pub fn strategy(revisit: bool) -> impl Strategy<Value = Case> {
    proptest::collection::vec(any::<u32>(), 12..140).prop_map(move |entropy| Case { entropy, revisit_failures: revisit })
}

/// the reference interpreter against emulator_6502 on generated test bodies (loops, calls, branches)
pub fn self_test() -> Result<(), String> {
    cpu::self_test()
}

pub fn run_check(ctx: &mut Ctx) {
    ctx.rule = "projects with 1-3 `.test` blocks over the modelled instruction subset: straight-line code, counted loops on x/y (nested), forward conditional skips, subroutines (call depth <= 2), brace scopes, balanced pha/pla, zero-page/absolute/indexed/indirect scratch memory, optionally two banks; 0-3 assertions per test placed in front of visited instructions (loops and callees included) chosen from the reference trace to be true, false, unevaluable (undefined symbol), about flags, `*`, cpu.sp, constants, ram()/ram16() incl. another bank's memory; with and without custom message. oracle: independent 6502 interpreter (self-tested against emulator_6502) running the model's image of the test's bank and evaluating every assertion at every visit; compared with `mos test`: verdict line per test, exit status, located failure message. A second campaign puts tests in an imported file (`*`, `* as`, selected names) with verdicts fixed by construction: one verdict line per test, exit status non-zero iff one fails. non-trivial = an assertion that is not simply true, or several tests".into();
    if let Err(e) = self_test() {
        ctx.health(false, format!("reference cpu self test: {}", e));
        return;
    }
    if !have_mos() {
        ctx.health(false, "mos binary not built (MOS_BIN)");
        return;
    }
    let n = ctx.tier.pick(6400, 160_000);
    // (assertions whose verdict depends on a later visit are part of the domain since the fix of that finding)
    ctx.campaign_parallel("all", n, 16, || strategy(true), prop, to_json);
    let total = ctx.evaluations.max(1);
    let n2 = ctx.tier.pick(320, 4000);
    ctx.campaign_parallel(
        "imported-tests",
        n2,
        16,
        || proptest::collection::vec(any::<u32>(), 6..12),
        prop_imported,
        |en| json!({"imported_entropy": en}),
    );
    let f = ctx.label_count("expect:some-test-fails");
    ctx.health(f * 100 / total >= 15, format!("cases with a failing test: {}%", f * 100 / total));
    let r = ctx.label_count("revisited-code");
    ctx.health(r * 100 / total >= 10, format!("cases with revisited code: {}%", r * 100 / total));
    let lb = ctx.label_count("subroutines-in-library-segment");
    ctx.health(total < 1000 || lb * 100 / total >= 3, format!("cases with the subroutines in a library segment: {}%", lb * 100 / total));
    let ex = ctx.label_count("excluded:verdict-depends-on-later-visit");
    ctx.excluded.insert("assertions that hold on the first visit and fail on a later one (recorded finding)".into(), ex);
}

pub fn replay(ctx: &mut Ctx, case: &serde_json::Value) {
    if let Some(en) = case.get("imported_entropy") {
        match serde_json::from_value::<Vec<u32>>(en.clone()) {
            Ok(en) => ctx.replay_one(&en, prop_imported, case.clone()),
            Err(e) => ctx.health(false, format!("replay case does not deserialize: {}", e)),
        }
        return;
    }
    let c: Case = match serde_json::from_value(json!({"entropy": case["entropy"], "revisit_failures": case["revisit_failures"]})) {
        Ok(c) => c,
        Err(e) => {
            ctx.health(false, format!("replay case does not deserialize: {}", e));
            return;
        }
    };
    ctx.replay_one(&c, prop, case.clone());
}
