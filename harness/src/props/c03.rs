//! C03 — expressions evaluate as documented.

use crate::engine::{CaseLog, Ctx, Verdict};
use crate::gen::ast::*;
use crate::gen::build::Ent;
use crate::gen::exprgen::{bare_decisions, gen_int, gen_str, ExprCtx};
use crate::model::layout::{check_image_all, CheckErr};
use crate::sut::core::{assemble, guarded, AsmOptions};
use proptest::prelude::*;
use serde::{Deserialize, Serialize};
use serde_json::json;

#[derive(Clone, Debug, Hash, PartialEq, Eq, Serialize, Deserialize)]
pub struct Case {
    pub entropy: Vec<u32>,
    /// feature: unary minus in front of `$`, `%`, `(`, `*`
    pub neg_nonalnum: bool,
}

pub struct Built {
    pub prog: Program,
    pub exprs: Vec<(Expr, String)>,
    pub max_depth: usize,
    pub bare: usize,
    pub ops: usize,
    pub has_modifier: bool,
    pub has_string: bool,
    pub negative_intermediate: bool,
    pub excluded: u64,
    pub neg_nonalnum_used: bool,
}

fn has_modifier(e: &Expr) -> bool {
    match e {
        Expr::Id { modifier: Some(_), .. } => true,
        Expr::Bin(l, _, r) => has_modifier(l) || has_modifier(r),
        Expr::Paren(i) | Expr::Neg(i) | Expr::Not(i) => has_modifier(i),
        _ => false,
    }
}

fn has_neg(e: &Expr) -> bool {
    match e {
        Expr::Neg(_) => true,
        Expr::Bin(l, _, r) => has_neg(l) || has_neg(r),
        Expr::Paren(i) | Expr::Not(i) => has_neg(i),
        _ => false,
    }
}

pub fn build(c: &Case) -> Built {
    let mut e = Ent::new(&c.entropy);
    let mut ctx = ExprCtx::default();
    let mut body: Vec<Stmt> = vec![];
    // constants
    let nk = 1 + e.below(4);
    for i in 0..nk {
        let name = format!("k{}q", i);
        let v = match e.below(4) {
            0 => *e.pick(&crate::gen::exprgen::BOUNDARY),
            1 => e.range(0, 0xffff),
            2 => e.range(0, 40),
            _ => e.range(0, 0x7fff_ffff),
        };
        body.push(Stmt::Const { name: name.clone(), e: Expr::Num { v, radix: *e.pick(&[10u8, 16, 2]), zeros: 0 } });
        ctx.nums.push((vec![name], v));
    }
    let ns = e.below(3);
    for i in 0..ns {
        let name = format!("z{}s", i);
        let v = *e.pick(&["ab", "Hello", "x", "", "m 6"][..]);
        body.push(Stmt::Const { name: name.clone(), e: Expr::str(v) });
        ctx.strs.push((name, v.to_string()));
    }
    ctx.undefined = vec!["nodef1".into(), "nodef2".into()];
    // labels at known addresses
    let mut pc = 0x2000i64;
    body.push(Stmt::Label { name: "ga".into(), block: None });
    ctx.nums.push((vec!["ga".into()], pc));
    body.push(Stmt::Data { size: DataSize::Byte, vals: vec![Expr::num(0), Expr::num(0), Expr::num(0)] });
    pc += 3;
    body.push(Stmt::Label { name: "gb".into(), block: Some(vec![Stmt::Label { name: "gc".into(), block: None }, Stmt::Instr { mn: "nop".into(), form: crate::model::isa::Form::None, operand: None }]) });
    ctx.nums.push((vec!["gb".into()], pc));
    ctx.nums.push((vec!["gb".into(), "gc".into()], pc));
    pc += 1;

    let mut out = Built { prog: Program::default(), exprs: vec![], max_depth: 0, bare: 0, ops: 0, has_modifier: false, has_string: false, negative_intermediate: false, excluded: 0, neg_nonalnum_used: false };
    let n = 1 + e.below(5);
    for _ in 0..n {
        let depth = 2 + e.below(4);
        match e.below(8) {
            0 => {
                // .text <string expr>
                let (ex, v) = gen_str(&mut e, &mut ctx, 2);
                let enc = *e.pick(&[Encoding::Default, Encoding::Ascii, Encoding::Petscii, Encoding::Petscreen]);
                let ok = crate::model::eval::encode_options(&v, enc).is_some();
                let enc = if ok { enc } else { Encoding::Ascii };
                pc += v.len() as i64;
                out.has_string = true;
                out.exprs.push((ex.clone(), format!("{:?}", v)));
                body.push(Stmt::Text { enc, e: ex });
            }
            1 => {
                // lda #<t with t = e
                ctx.pc = Some(pc);
                let (mut ex, v) = gen_int(&mut e, &mut ctx, depth);
                if c.neg_nonalnum {
                    ex = inject_neg(&mut e, ex, &mut out.neg_nonalnum_used);
                }
                let name = format!("t{}", body.len());
                out.record(&ex, v);
                body.push(Stmt::Const { name: name.clone(), e: ex });
                body.push(Stmt::Instr { mn: "lda".into(), form: crate::model::isa::Form::Imm, operand: Some(Expr::Id { path: vec![name], modifier: Some('<') }) });
                pc += 2;
            }
            _ => {
                let size = *e.pick(&[DataSize::Dword, DataSize::Dword, DataSize::Word, DataSize::Byte]);
                let k = 1 + e.below(2);
                let mut vals = vec![];
                for _ in 0..k {
                    ctx.pc = Some(pc);
                    let (mut ex, v) = gen_int(&mut e, &mut ctx, depth);
                    if c.neg_nonalnum {
                        ex = inject_neg(&mut e, ex, &mut out.neg_nonalnum_used);
                    }
                    out.record(&ex, v);
                    vals.push(ex);
                    pc += size.bytes() as i64;
                }
                body.push(Stmt::Data { size, vals });
            }
        }
    }
    out.excluded = ctx.excluded_by_guard;
    out.prog = Program::single(body);
    out
}

/// feature: replace one `Neg(decimal literal)` by a unary minus in front of a hex literal / parenthesis
fn inject_neg(e: &mut Ent, ex: Expr, used: &mut bool) -> Expr {
    fn go(e: &mut Ent, ex: Expr, used: &mut bool) -> Expr {
        match ex {
            Expr::Neg(inner) if !*used => match *inner {
                Expr::Num { v, .. } => {
                    *used = true;
                    if e.chance(1, 2) {
                        Expr::Neg(Box::new(Expr::Num { v, radix: 16, zeros: 0 }))
                    } else {
                        Expr::Neg(Box::new(Expr::Paren(Box::new(Expr::num(v)))))
                    }
                }
                other => Expr::Neg(Box::new(other)),
            },
            Expr::Bin(l, op, r) => {
                let l2 = go(e, *l, used);
                let r2 = go(e, *r, used);
                Expr::Bin(Box::new(l2), op, Box::new(r2))
            }
            Expr::Paren(i) => Expr::Paren(Box::new(go(e, *i, used))),
            Expr::Not(i) => Expr::Not(Box::new(go(e, *i, used))),
            o => o,
        }
    }
    go(e, ex, used)
}

impl Built {
    fn record(&mut self, ex: &Expr, v: i64) {
        self.max_depth = self.max_depth.max(ex.depth());
        self.bare += bare_decisions(ex);
        self.ops += ex.count_ops();
        self.has_modifier |= has_modifier(ex);
        self.negative_intermediate |= has_neg(ex) || v < 0;
        self.exprs.push((ex.clone(), v.to_string()));
    }
}

pub fn prop(c: &Case, log: &mut CaseLog) -> Verdict {
    let b = build(c);
    let (proj, _) = b.prog.render();
    let text = proj.main_text().to_string();
    let a = match guarded(|| assemble(&proj, AsmOptions::default())) {
        Ok(a) => a,
        Err(p) => return Verdict::fail(p.signature(), format!("{}\n{:?}", text, p)),
    };
    log.label(format!("depth:{}", b.max_depth.min(5)));
    log.label_if(b.bare > 0, "bare-precedence-decision");
    log.label_if(b.has_modifier, "modifier");
    log.label_if(b.has_string, "string-expr");
    log.label_if(b.negative_intermediate, "negative-value");
    log.nontrivial = b.ops >= 2 && (b.bare > 0 || b.negative_intermediate || b.has_modifier);
    let feature = if b.neg_nonalnum_used { "|feature=unary_minus_before_non_alphanumeric" } else { "" };
    if !a.ok() {
        return Verdict::fail(
            format!("valid-expression-rejected{}", feature),
            format!("{}\ndiagnostics: {:?}\nexpected values: {:?}", text, a.all_diags(), b.exprs.iter().map(|x| &x.1).collect::<Vec<_>>()),
        );
    }
    match check_image_all(&b.prog, &a.segments(), 0x2000) {
        Ok(_) => Verdict::Pass,
        Err(CheckErr::Unsupported(w)) => {
            log.label("model-unsupported");
            Verdict::fail("harness-model-unsupported", format!("{}\n{}", text, w))
        }
        Err(CheckErr::Mismatch { kind, detail }) => Verdict::fail(
            format!("wrong-value|{}{}", kind, feature),
            format!("{}\n{}\nexpected values: {:?}\nimage: {:02x?}", text, detail, b.exprs.iter().map(|x| (render_expr(&x.0), &x.1)).collect::<Vec<_>>(), a.default_bytes()),
        ),
    }
}

pub fn to_json(c: &Case) -> serde_json::Value {
    let b = build(c);
    json!({"entropy": c.entropy, "neg_nonalnum": c.neg_nonalnum, "program": b.prog.text(), "values": b.exprs.iter().map(|x| x.1.clone()).collect::<Vec<_>>()})
}

pub fn strategy(neg: bool) -> impl Strategy<Value = Case> {
    proptest::collection::vec(any::<u32>(), 4..160).prop_map(move |entropy| Case { entropy, neg_nonalnum: neg })
}

pub fn run_check(ctx: &mut Ctx) {
    ctx.rule = "expression trees (depth <= 5) over literals in 3 radixes with leading zeros, true/false, constants, labels (plain, dotted), `<`/`>` modifiers, `*`, all 16 binary operators, unary - and !, defined(), string concat/compare/interpolation, placed in .byte/.word/.dword/.text/`lda #<t`; values kept inside the guarded domain by construction (64-bit, non-zero divisors, shifts 0..31, / % >> on non-negative operands); mixed operator classes parenthesised where the documentation fixes no precedence. oracle: reference evaluator + layout walk. non-trivial = >= 2 operators and (a bare precedence/associativity decision, a negative value or a modifier)".into();
    ctx.assumptions.push("model/eval.rs reference evaluator; / and % truncate (only generated where every convention agrees)".into());
    let n = ctx.tier.pick(20_000, 400_000);
    ctx.campaign("clean-domain", n, strategy(false), prop, to_json);
    let n2 = ctx.tier.pick(2000, 20_000);
    ctx.campaign("feature:unary_minus_before_non_alphanumeric", n2, strategy(true), prop, to_json);
    let total = ctx.evaluations.max(1);
    let bare = ctx.label_count("bare-precedence-decision");
    ctx.health(bare * 100 / total >= 30, format!("bare decisions in {}% of cases", bare * 100 / total));
}

pub fn replay(ctx: &mut Ctx, case: &serde_json::Value) {
    let c: Case = match serde_json::from_value(json!({"entropy": case["entropy"], "neg_nonalnum": case["neg_nonalnum"]})) {
        Ok(c) => c,
        Err(e) => {
            ctx.health(false, format!("replay case does not deserialize: {}", e));
            return;
        }
    };
    ctx.replay_one(&c, prop, case.clone());
}
