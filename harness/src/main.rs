use mosverif::engine::{Ctx, Tier};
use mosverif::props;

fn usage() -> ! {
    eprintln!("usage: mv <C01..C20> [--tier quick|thorough] [--seed N] [--replay FILE]");
    std::process::exit(2);
}

fn main() {
    let args: Vec<String> = std::env::args().skip(1).collect();
    if args.is_empty() {
        usage();
    }
    let id = args[0].clone();
    if id == "selftest" {
        let mut bad = 0;
        for (name, r) in [("isa", mosverif::model::isa::self_test()), ("cpu", mosverif::model::cpu::self_test())] {
            match r {
                Ok(()) => println!("selftest {}: ok", name),
                Err(e) => {
                    println!("selftest {}: FAILED {}", name, e);
                    bad += 1;
                }
            }
        }
        std::process::exit(if bad > 0 { 2 } else { 0 });
    }
    let mut tier = match std::env::var("VERIF_TIER").ok().as_deref() {
        Some("thorough") => Tier::Thorough,
        _ => Tier::Quick,
    };
    let mut seed: u64 = std::env::var("VERIF_SEED")
        .ok()
        .and_then(|s| s.parse::<i64>().ok())
        .map(|v| v as u64)
        .unwrap_or(0);
    let mut replay: Option<String> = None;
    let mut i = 1;
    while i < args.len() {
        match args[i].as_str() {
            "--tier" => {
                i += 1;
                tier = match args.get(i).map(|s| s.as_str()) {
                    Some("quick") => Tier::Quick,
                    Some("thorough") => Tier::Thorough,
                    _ => usage(),
                };
            }
            "--seed" => {
                i += 1;
                seed = args.get(i).and_then(|s| s.parse().ok()).unwrap_or_else(|| usage());
            }
            "--replay" => {
                i += 1;
                replay = Some(args.get(i).cloned().unwrap_or_else(|| usage()));
            }
            "--worker" => {
                match id.as_str() {
                    "C06" => props::c06::worker_main(),
                    _ => {}
                }
                std::process::exit(0);
            }
            "quick" => tier = Tier::Quick,
            "thorough" => tier = Tier::Thorough,
            _ => usage(),
        }
        i += 1;
    }
    if seed == 0 {
        seed = 0x5eed_0001;
    }
    let mut ctx = Ctx::new(&id, tier, seed);
    if let Some(path) = replay {
        let text = std::fs::read_to_string(&path).unwrap_or_else(|e| {
            eprintln!("cannot read {}: {}", path, e);
            std::process::exit(2)
        });
        let v: serde_json::Value = serde_json::from_str(&text).unwrap_or_else(|e| {
            eprintln!("bad replay file: {}", e);
            std::process::exit(2)
        });
        let case = v.get("case").cloned().unwrap_or(v.clone());
        props::replay(&mut ctx, &case);
        ctx.rule = "replay of one stored case".into();
        // replay: evidence is not rewritten with a single case unless it is the only thing run
        let code = ctx.finish_replay();
        std::process::exit(code);
    }
    props::run(&mut ctx);
    std::process::exit(ctx.finish());
}
