pub mod engine;
pub mod gen;
pub mod model;
pub mod props;
pub mod sut;
