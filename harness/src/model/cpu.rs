//! Minimal NMOS 6502 interpreter for the modelled instruction subset (C18), written from the ISA.
//! Self-tested differentially against the third-party `emulator_6502` crate.

use crate::model::isa::{self, Mode};

#[derive(Clone, Debug, PartialEq, Eq)]
pub struct Cpu {
    pub a: u8,
    pub x: u8,
    pub y: u8,
    pub sp: u8,
    pub pc: u16,
    /// N V - B D I Z C
    pub p: u8,
    pub mem: Vec<u8>,
    pub cycles: u64,
}

pub const C: u8 = 1;
pub const Z: u8 = 2;
pub const I: u8 = 4;
pub const D: u8 = 8;
pub const B: u8 = 16;
pub const V: u8 = 64;
pub const N: u8 = 128;

#[derive(Clone, Debug, PartialEq, Eq)]
pub enum Step {
    Ok,
    /// BRK reached
    Brk,
    /// opcode outside the modelled subset
    Unmodelled(u8),
}

fn decode(op: u8) -> Option<(&'static str, Mode)> {
    isa::decode(op)
}

impl Cpu {
    pub fn new(pc: u16) -> Cpu {
        Cpu { a: 0, x: 0, y: 0, sp: 0xfd, pc, p: 0x24, mem: vec![0; 65536], cycles: 0 }
    }

    fn rd(&self, a: u16) -> u8 {
        self.mem[a as usize]
    }
    fn wr(&mut self, a: u16, v: u8) {
        self.mem[a as usize] = v;
    }
    fn rd16(&self, a: u16) -> u16 {
        self.rd(a) as u16 | ((self.rd(a.wrapping_add(1)) as u16) << 8)
    }
    fn flag(&mut self, f: u8, on: bool) {
        if on {
            self.p |= f
        } else {
            self.p &= !f
        }
    }
    fn nz(&mut self, v: u8) {
        self.flag(Z, v == 0);
        self.flag(N, v & 0x80 != 0);
    }
    fn push(&mut self, v: u8) {
        self.wr(0x100 + self.sp as u16, v);
        self.sp = self.sp.wrapping_sub(1);
    }
    fn pull(&mut self) -> u8 {
        self.sp = self.sp.wrapping_add(1);
        self.rd(0x100 + self.sp as u16)
    }

    /// effective address and whether a page boundary was crossed
    fn ea(&self, mode: Mode) -> (u16, bool) {
        let pc = self.pc;
        match mode {
            Mode::Zp => (self.rd(pc.wrapping_add(1)) as u16, false),
            Mode::Zpx => (self.rd(pc.wrapping_add(1)).wrapping_add(self.x) as u16, false),
            Mode::Zpy => (self.rd(pc.wrapping_add(1)).wrapping_add(self.y) as u16, false),
            Mode::Abs => (self.rd16(pc.wrapping_add(1)), false),
            Mode::Abx => {
                let b = self.rd16(pc.wrapping_add(1));
                let a = b.wrapping_add(self.x as u16);
                (a, (a & 0xff00) != (b & 0xff00))
            }
            Mode::Aby => {
                let b = self.rd16(pc.wrapping_add(1));
                let a = b.wrapping_add(self.y as u16);
                (a, (a & 0xff00) != (b & 0xff00))
            }
            Mode::Izx => {
                let z = self.rd(pc.wrapping_add(1)).wrapping_add(self.x);
                (self.rd(z as u16) as u16 | ((self.rd(z.wrapping_add(1) as u16) as u16) << 8), false)
            }
            Mode::Izy => {
                let z = self.rd(pc.wrapping_add(1));
                let b = self.rd(z as u16) as u16 | ((self.rd(z.wrapping_add(1) as u16) as u16) << 8);
                let a = b.wrapping_add(self.y as u16);
                (a, (a & 0xff00) != (b & 0xff00))
            }
            Mode::Imm => (pc.wrapping_add(1), false),
            _ => (0, false),
        }
    }

    fn len(mode: Mode) -> u16 {
        match mode {
            Mode::Imp => 1,
            Mode::Abs | Mode::Abx | Mode::Aby | Mode::Ind => 3,
            _ => 2,
        }
    }

    pub fn step(&mut self) -> Step {
        let op = self.rd(self.pc);
        if op == 0 {
            return Step::Brk;
        }
        let (mn, mode) = match decode(op) {
            Some(x) => x,
            None => return Step::Unmodelled(op),
        };
        let (ea, crossed) = self.ea(mode);
        let next = self.pc.wrapping_add(Self::len(mode));
        let base_cycles: u64 = match mode {
            Mode::Imp => 2,
            Mode::Imm => 2,
            Mode::Zp => 3,
            Mode::Zpx | Mode::Zpy => 4,
            Mode::Abs => 4,
            Mode::Abx | Mode::Aby => 4,
            Mode::Izx => 6,
            Mode::Izy => 5,
            Mode::Ind => 5,
            Mode::Rel => 2,
        };
        let mut cycles = base_cycles;
        let read_op = matches!(mn, "lda" | "ldx" | "ldy" | "and" | "ora" | "eor" | "adc" | "sbc" | "cmp" | "cpx" | "cpy" | "bit");
        if read_op && crossed {
            cycles += 1;
        }
        let mut new_pc = next;
        match mn {
            "lda" => {
                self.a = self.rd(ea);
                self.nz(self.a)
            }
            "ldx" => {
                self.x = self.rd(ea);
                self.nz(self.x)
            }
            "ldy" => {
                self.y = self.rd(ea);
                self.nz(self.y)
            }
            "sta" | "stx" | "sty" => {
                let v = match mn {
                    "sta" => self.a,
                    "stx" => self.x,
                    _ => self.y,
                };
                self.wr(ea, v);
                if matches!(mode, Mode::Abx | Mode::Aby) {
                    cycles = 5;
                }
                if mode == Mode::Izy {
                    cycles = 6;
                }
            }
            "tax" => {
                self.x = self.a;
                self.nz(self.x)
            }
            "tay" => {
                self.y = self.a;
                self.nz(self.y)
            }
            "txa" => {
                self.a = self.x;
                self.nz(self.a)
            }
            "tya" => {
                self.a = self.y;
                self.nz(self.a)
            }
            "tsx" => {
                self.x = self.sp;
                self.nz(self.x)
            }
            "txs" => self.sp = self.x,
            "inx" => {
                self.x = self.x.wrapping_add(1);
                self.nz(self.x)
            }
            "iny" => {
                self.y = self.y.wrapping_add(1);
                self.nz(self.y)
            }
            "dex" => {
                self.x = self.x.wrapping_sub(1);
                self.nz(self.x)
            }
            "dey" => {
                self.y = self.y.wrapping_sub(1);
                self.nz(self.y)
            }
            "inc" | "dec" => {
                let v = if mn == "inc" { self.rd(ea).wrapping_add(1) } else { self.rd(ea).wrapping_sub(1) };
                self.wr(ea, v);
                self.nz(v);
                cycles = match mode {
                    Mode::Zp => 5,
                    Mode::Zpx | Mode::Abs => 6,
                    _ => 7,
                };
            }
            "and" => {
                self.a &= self.rd(ea);
                self.nz(self.a)
            }
            "ora" => {
                self.a |= self.rd(ea);
                self.nz(self.a)
            }
            "eor" => {
                self.a ^= self.rd(ea);
                self.nz(self.a)
            }
            "bit" => {
                let v = self.rd(ea);
                self.flag(Z, self.a & v == 0);
                self.flag(N, v & 0x80 != 0);
                self.flag(V, v & 0x40 != 0);
            }
            "asl" | "lsr" | "rol" | "ror" => {
                let acc = mode == Mode::Imp;
                let v = if acc { self.a } else { self.rd(ea) };
                let c_in = self.p & C;
                let (r, c_out) = match mn {
                    "asl" => (v << 1, v & 0x80 != 0),
                    "lsr" => (v >> 1, v & 1 != 0),
                    "rol" => ((v << 1) | c_in, v & 0x80 != 0),
                    _ => ((v >> 1) | (c_in << 7), v & 1 != 0),
                };
                self.flag(C, c_out);
                self.nz(r);
                if acc {
                    self.a = r;
                } else {
                    self.wr(ea, r);
                    cycles = match mode {
                        Mode::Zp => 5,
                        Mode::Zpx | Mode::Abs => 6,
                        _ => 7,
                    };
                }
            }
            "adc" | "sbc" => {
                if self.p & D != 0 {
                    return Step::Unmodelled(op);
                }
                let m = if mn == "adc" { self.rd(ea) } else { !self.rd(ea) };
                let sum = self.a as u16 + m as u16 + (self.p & C) as u16;
                let r = sum as u8;
                self.flag(C, sum > 0xff);
                self.flag(V, (!(self.a ^ m) & (self.a ^ r) & 0x80) != 0);
                self.a = r;
                self.nz(r);
            }
            "cmp" | "cpx" | "cpy" => {
                let reg = match mn {
                    "cmp" => self.a,
                    "cpx" => self.x,
                    _ => self.y,
                };
                let m = self.rd(ea);
                self.flag(C, reg >= m);
                self.nz(reg.wrapping_sub(m));
            }
            "clc" => self.flag(C, false),
            "sec" => self.flag(C, true),
            "clv" => self.flag(V, false),
            "cli" => self.flag(I, false),
            "sei" => self.flag(I, true),
            "cld" => self.flag(D, false),
            "nop" => {}
            "pha" => {
                self.push(self.a);
                cycles = 3;
            }
            "php" => {
                self.push(self.p | B | 0x20);
                cycles = 3;
            }
            "pla" => {
                self.a = self.pull();
                self.nz(self.a);
                cycles = 4;
            }
            "plp" => {
                self.p = (self.pull() & !B) | 0x20;
                cycles = 4;
            }
            "jmp" => {
                if mode == Mode::Ind {
                    return Step::Unmodelled(op);
                }
                new_pc = self.rd16(self.pc.wrapping_add(1));
                cycles = 3;
            }
            "jsr" => {
                let ret = self.pc.wrapping_add(2);
                self.push((ret >> 8) as u8);
                self.push(ret as u8);
                new_pc = self.rd16(self.pc.wrapping_add(1));
                cycles = 6;
            }
            "rts" => {
                let lo = self.pull() as u16;
                let hi = self.pull() as u16;
                new_pc = ((hi << 8) | lo).wrapping_add(1);
                cycles = 6;
            }
            "bcc" | "bcs" | "beq" | "bne" | "bmi" | "bpl" | "bvc" | "bvs" => {
                let take = match mn {
                    "bcc" => self.p & C == 0,
                    "bcs" => self.p & C != 0,
                    "beq" => self.p & Z != 0,
                    "bne" => self.p & Z == 0,
                    "bmi" => self.p & N != 0,
                    "bpl" => self.p & N == 0,
                    "bvc" => self.p & V == 0,
                    _ => self.p & V != 0,
                };
                if take {
                    let off = self.rd(self.pc.wrapping_add(1)) as i8;
                    let target = next.wrapping_add(off as u16);
                    cycles += 1;
                    if (target & 0xff00) != (next & 0xff00) {
                        cycles += 1;
                    }
                    new_pc = target;
                }
            }
            _ => return Step::Unmodelled(op),
        }
        self.pc = new_pc;
        self.cycles += cycles;
        Step::Ok
    }
}

struct Ram<'a>(&'a mut Vec<u8>);
impl<'a> emulator_6502::Interface6502 for Ram<'a> {
    fn read(&mut self, address: u16) -> u8 {
        self.0[address as usize]
    }
    fn write(&mut self, address: u16, data: u8) {
        self.0[address as usize] = data;
    }
}

/// Differential self test against emulator_6502 on pseudo-random straight-line programs.
pub fn self_test() -> Result<(), String> {
    use emulator_6502::MOS6502;
    let subset: Vec<(&str, Mode, u8)> = isa::table()
        .into_iter()
        .flat_map(|(mn, modes)| modes.into_iter().map(move |(m, o)| (mn, m, o)))
        .filter(|(mn, m, _)| !matches!(*mn, "brk" | "rti" | "sed" | "jmp" | "jsr" | "rts" | "txs") && *m != Mode::Rel && *m != Mode::Ind)
        .collect();
    let mut seed: u64 = 0x1234_5678_9abc_def1;
    let mut rnd = move || {
        seed ^= seed << 13;
        seed ^= seed >> 7;
        seed ^= seed << 17;
        seed
    };
    for prog in 0..300 {
        let mut mem = vec![0u8; 65536];
        for k in 0..0x400 {
            mem[k] = rnd() as u8;
        }
        let mut pc = 0x2000usize;
        let n = 40;
        for _ in 0..n {
            let (_, m, o) = subset[(rnd() % subset.len() as u64) as usize];
            mem[pc] = o;
            let l = Cpu::len(m) as usize;
            if l >= 2 {
                mem[pc + 1] = rnd() as u8;
            }
            if l == 3 {
                // keep absolute operands inside $0000-$03ff so that code is not overwritten
                mem[pc + 2] = (rnd() % 3) as u8;
            }
            pc += l;
        }
        mem[pc] = 0;
        let mut mine = Cpu::new(0x2000);
        mine.mem = mem.clone();
        let mut theirs = MOS6502::new();
        theirs.set_program_counter(0x2000);
        let mut tmem = mem.clone();
        let mut their_cycles: u64 = 0;
        for stepno in 0..n {
            let op = mine.rd(mine.pc);
            match mine.step() {
                Step::Ok => {}
                Step::Brk => break,
                Step::Unmodelled(o) => {
                    if mine.p & D != 0 {
                        // decimal mode (set through plp of random data) is outside the modelled subset
                        break;
                    }
                    return Err(format!("unmodelled opcode {:02x}", o));
                }
            }
            {
                let mut r = Ram(&mut tmem);
                theirs.cycle(&mut r);
                their_cycles += 1 + theirs.get_remaining_cycles() as u64;
                theirs.execute_instruction(&mut r);
            }
            let same = mine.a == theirs.get_accumulator()
                && mine.x == theirs.get_x_register()
                && mine.y == theirs.get_y_register()
                && mine.sp == theirs.get_stack_pointer()
                && mine.pc == theirs.get_program_counter()
                && (mine.p | 0x30) == (theirs.get_status_register() | 0x30)
                && mine.mem[..0x400] == tmem[..0x400];
            if !same {
                return Err(format!(
                    "program {} step {} opcode {:02x}: mine a={:02x} x={:02x} y={:02x} sp={:02x} pc={:04x} p={:02x}; emulator_6502 a={:02x} x={:02x} y={:02x} sp={:02x} pc={:04x} p={:02x}",
                    prog, stepno, op, mine.a, mine.x, mine.y, mine.sp, mine.pc, mine.p,
                    theirs.get_accumulator(), theirs.get_x_register(), theirs.get_y_register(), theirs.get_stack_pointer(), theirs.get_program_counter(), theirs.get_status_register()
                ));
            }
            // cycle counts are not compared: they do not matter for C18, and C19 takes them from emulator_6502 itself
            let _ = their_cycles;
        }
    }
    Ok(())
}
