//! Reference layout model / image checker (DESIGN.md §3). Walks the program AST in emission order.
//! Instruction sizes for operands that admit a zero-page and an absolute encoding are *read from the
//! image under test* (so no fixed point has to be computed and every self-consistent image is accepted);
//! every byte, label address and operand value is then recomputed independently and compared.

use crate::gen::ast::*;
use crate::model::eval::{self, Env, EvalErr, Value};
use crate::model::isa::{self, Form, Mode};
use crate::sut::core::SegOut;
use std::collections::{BTreeMap, HashMap};

#[derive(Clone, Debug)]
pub enum CheckErr {
    Mismatch { kind: String, detail: String },
    /// the model cannot handle this program (generator bug / outside the modelled domain)
    Unsupported(String),
}

fn mismatch<T>(kind: &str, detail: String) -> Result<T, CheckErr> {
    Err(CheckErr::Mismatch { kind: kind.to_string(), detail })
}

fn unsupported<T>(s: impl Into<String>) -> Result<T, CheckErr> {
    Err(CheckErr::Unsupported(s.into()))
}

impl From<EvalErr> for CheckErr {
    fn from(e: EvalErr) -> Self {
        CheckErr::Unsupported(format!("model evaluation: {:?}", e))
    }
}

#[derive(Clone, Debug, PartialEq, Eq)]
pub enum SymKind {
    Label,
    Const,
    Var,
    MacroArg,
    Macro,
    Index,
}

#[derive(Clone, Debug)]
enum SymState<'a> {
    Known(Value),
    Lazy { expr: Expr, scope: usize, pc: Option<i64> },
    InProgress,
    Macro { params: Vec<String>, body: &'a [Stmt], file: String },
}

#[derive(Clone, Debug)]
struct Sym<'a> {
    kind: SymKind,
    state: SymState<'a>,
}

#[derive(Clone, Debug)]
struct Node {
    parent: Option<usize>,
    name: String,
    children: BTreeMap<String, usize>,
    sym: Option<usize>,
}

#[derive(Clone, Debug)]
pub struct SegM {
    pub name: String,
    /// configured emission start
    pub initial_pc: i64,
    /// target - emission
    pub offset: i64,
    pub pc: i64,
    pub write: bool,
    pub bank: Option<String>,
    pub data: Vec<u8>,
    pub touched: bool,
    pub lo: i64,
    pub hi: i64,
    pub start_expr: Option<(Expr, usize)>,
    pub pc_expr: Option<(Expr, usize)>,
}

impl SegM {
    fn new(name: &str, initial_pc: i64, target: i64) -> SegM {
        SegM {
            name: name.to_string(),
            initial_pc,
            offset: target - initial_pc,
            pc: initial_pc,
            write: true,
            bank: None,
            data: vec![],
            touched: false,
            lo: initial_pc,
            hi: initial_pc,
            start_expr: None,
            pc_expr: None,
        }
    }
    pub fn range(&self) -> (i64, i64) {
        (self.lo, self.hi)
    }
    pub fn range_data(&self) -> &[u8] {
        if !self.touched {
            &[]
        } else {
            &self.data[self.lo as usize..self.hi as usize]
        }
    }
    fn emit(&mut self, addr: i64, bytes: &[u8]) -> Result<(), CheckErr> {
        let end = addr + bytes.len() as i64;
        if addr < 0 || addr > 0xffff || end > 0x10000 {
            return unsupported(format!("emission outside $0000-$FFFF at {:x}", addr));
        }
        if !self.touched || addr < self.lo {
            self.lo = addr;
        }
        if !self.touched || end > self.hi {
            self.hi = end;
        }
        if !self.touched {
            self.data = vec![0; 65536];
            self.touched = true;
        }
        self.data[addr as usize..end as usize].copy_from_slice(bytes);
        Ok(())
    }
}

#[derive(Clone, Debug)]
pub enum SiteKind {
    Instr { mn: String, form: Form, expr: Option<Expr>, len: usize },
    Data { size: DataSize, expr: Expr },
    Text { enc: Encoding, expr: Expr },
    Pad { len: usize },
}

#[derive(Clone, Debug)]
pub struct Site {
    pub seg: usize,
    /// emission address
    pub addr: i64,
    /// value of `*` (target address)
    pub pc: i64,
    pub len: usize,
    pub scope: usize,
    pub kind: SiteKind,
    /// file and statement number (render pre-order) that emitted this site; value index for data
    pub file: String,
    pub stmt: usize,
    pub value_idx: usize,
    /// invocation chain (file, stmt) of the macro calls this site was emitted under, outermost first
    pub via: Vec<(String, usize)>,
    pub bytes: Vec<u8>,
}

#[derive(Clone, Debug)]
pub struct LabelOut {
    /// scope path from the root; anonymous scopes are rendered as "$"
    pub path: Vec<String>,
    pub value: i64,
    pub kind: SymKind,
}

#[derive(Clone, Debug, Default)]
pub struct ModelOut {
    pub segs: Vec<SegM>,
    pub sites: Vec<Site>,
    pub labels: Vec<LabelOut>,
    pub aligned_aligns: usize,
    pub size_reads: usize,
    pub zp_chosen: usize,
    pub abs_chosen_low_class: usize,
    pub asserts: Vec<AssertSite>,
    /// (test name, address of its first instruction, segment index)
    pub tests: Vec<(String, i64, usize)>,
}

#[derive(Clone, Debug)]
pub struct AssertSite {
    pub pc: i64,
    pub expr: Expr,
    pub msg: Option<String>,
    pub scope: usize,
    pub file: String,
    pub stmt: usize,
    /// index of the segment the assertion stands in
    pub seg: Option<usize>,
}

#[derive(Default)]
pub struct Options {
    pub active_test: Option<String>,
    pub default_pc: i64,
    /// model `* = e` in a relocated segment as documented (e is the program counter) when true
    pub align_choices: Vec<bool>,
}

struct Walker<'a> {
    prog: &'a Program,
    image: &'a [SegOut],
    nodes: Vec<Node>,
    syms: Vec<Sym<'a>>,
    segs: Vec<SegM>,
    cur_seg: Option<usize>,
    sites: Vec<Site>,
    anon: usize,
    stmt_ids: HashMap<usize, (String, usize)>,
    cur_file: String,
    via: Vec<(String, usize)>,
    align_choices: Vec<bool>,
    aligned_aligns: usize,
    size_reads: usize,
    default_pc: i64,
    depth: usize,
    active_test: Option<String>,
    asserts: Vec<AssertSite>,
    tests: Vec<(String, i64, usize)>,
}

struct WEnv<'w, 'a> {
    w: &'w mut Walker<'a>,
    scope: usize,
    pc: Option<i64>,
}

impl<'w, 'a> Env for WEnv<'w, 'a> {
    fn lookup(&mut self, path: &[String]) -> Result<Value, EvalErr> {
        self.w.lookup_value(self.scope, path)
    }
    fn defined(&mut self, path: &[String]) -> Result<bool, EvalErr> {
        Ok(match self.w.resolve(self.scope, path) {
            Some(n) => self.w.nodes[n].sym.is_some(),
            None => false,
        })
    }
    fn pc(&mut self) -> Result<i64, EvalErr> {
        self.pc.ok_or(EvalErr::Unsupported("no pc".into()))
    }
}

impl<'a> Walker<'a> {
    fn new_node(&mut self, parent: Option<usize>, name: &str) -> usize {
        self.nodes.push(Node { parent, name: name.to_string(), children: BTreeMap::new(), sym: None });
        self.nodes.len() - 1
    }

    fn child(&mut self, scope: usize, name: &str) -> usize {
        if let Some(&c) = self.nodes[scope].children.get(name) {
            return c;
        }
        let n = self.new_node(Some(scope), name);
        self.nodes[scope].children.insert(name.to_string(), n);
        n
    }

    fn anon_scope(&mut self, scope: usize, prefix: &str) -> usize {
        self.anon += 1;
        let name = format!("${}{}", prefix, self.anon);
        self.child(scope, &name)
    }

    fn try_index(&self, from: usize, path: &[String]) -> Option<usize> {
        let mut cur = from;
        for comp in path {
            if comp.eq_ignore_ascii_case("super") {
                cur = self.nodes[cur].parent?;
            } else {
                cur = *self.nodes[cur].children.get(comp)?;
            }
        }
        Some(cur)
    }

    /// documented lookup: from the innermost scope outward; `super` steps out explicitly
    fn resolve(&self, from: usize, path: &[String]) -> Option<usize> {
        let has_super = path.iter().any(|c| c.eq_ignore_ascii_case("super"));
        let mut cur = Some(from);
        while let Some(c) = cur {
            if let Some(n) = self.try_index(c, path) {
                return Some(n);
            }
            if has_super {
                return None;
            }
            cur = self.nodes[c].parent;
        }
        None
    }

    fn define(&mut self, scope: usize, name: &str, kind: SymKind, state: SymState<'a>) -> Result<usize, CheckErr> {
        let n = self.child(scope, name);
        if let Some(s) = self.nodes[n].sym {
            // redefinition: only variables may be redefined
            if self.syms[s].kind == SymKind::Var && kind == SymKind::Var {
                self.syms[s].state = state;
                return Ok(n);
            }
            return unsupported(format!("model: redefinition of {}", name));
        }
        self.syms.push(Sym { kind, state });
        self.nodes[n].sym = Some(self.syms.len() - 1);
        Ok(n)
    }

    fn lookup_value(&mut self, scope: usize, path: &[String]) -> Result<Value, EvalErr> {
        // segments.<name>.start|end
        if path.len() == 3 && path[0] == "segments" && self.resolve(scope, &path[..1]).is_none() {
            if let Some(s) = self.segs.iter().find(|s| s.name == path[1]) {
                let (lo, hi) = if s.touched { (s.lo, s.hi) } else { (s.initial_pc, s.initial_pc) };
                return match path[2].as_str() {
                    "start" => Ok(Value::Int(lo)),
                    "end" => Ok(Value::Int(hi)),
                    _ => Err(EvalErr::Undefined(path.to_vec())),
                };
            }
        }
        let n = self.resolve(scope, path).ok_or_else(|| EvalErr::Undefined(path.to_vec()))?;
        let s = self.nodes[n].sym.ok_or_else(|| EvalErr::Undefined(path.to_vec()))?;
        self.sym_value(s)
    }

    fn sym_value(&mut self, s: usize) -> Result<Value, EvalErr> {
        match self.syms[s].state.clone() {
            SymState::Known(v) => Ok(v),
            SymState::InProgress => Err(EvalErr::Cycle),
            SymState::Macro { .. } => Err(EvalErr::Type("macro used as value".into())),
            SymState::Lazy { expr, scope, pc } => {
                self.syms[s].state = SymState::InProgress;
                let r = {
                    let mut env = WEnv { w: self, scope, pc };
                    eval::eval(&expr, &mut env)
                };
                match r {
                    Ok(v) => {
                        self.syms[s].state = SymState::Known(v.clone());
                        Ok(v)
                    }
                    Err(e) => {
                        self.syms[s].state = SymState::Lazy { expr, scope, pc };
                        Err(e)
                    }
                }
            }
        }
    }

    fn eval_now(&mut self, e: &Expr, scope: usize) -> Result<Value, CheckErr> {
        let pc = self.target_pc();
        let mut env = WEnv { w: self, scope, pc };
        Ok(eval::eval(e, &mut env)?)
    }

    fn eval_int_now(&mut self, e: &Expr, scope: usize) -> Result<i64, CheckErr> {
        match self.eval_now(e, scope)? {
            Value::Int(n) => Ok(n),
            Value::Str(_) => unsupported("string where integer expected"),
        }
    }

    fn target_pc(&self) -> Option<i64> {
        self.cur_seg.map(|s| self.segs[s].pc + self.segs[s].offset)
    }

    /// replace uses of variables by their current value (variables are sequential)
    fn close_vars(&mut self, e: &Expr, scope: usize) -> Result<Expr, CheckErr> {
        Ok(match e {
            Expr::Id { path, modifier } => {
                if let Some(n) = self.resolve(scope, path) {
                    if let Some(s) = self.nodes[n].sym {
                        if self.syms[s].kind == SymKind::Var {
                            let v = self.sym_value(s)?;
                            return Ok(match v {
                                Value::Int(n) => {
                                    let n = match modifier {
                                        Some('<') => n & 0xff,
                                        Some('>') => (n >> 8) & 0xff,
                                        _ => n,
                                    };
                                    if n < 0 {
                                        Expr::Neg(Box::new(Expr::num(-n)))
                                    } else {
                                        Expr::num(n)
                                    }
                                }
                                Value::Str(s) => Expr::str(&s),
                            });
                        }
                    }
                }
                e.clone()
            }
            Expr::Bin(l, op, r) => Expr::Bin(Box::new(self.close_vars(l, scope)?), *op, Box::new(self.close_vars(r, scope)?)),
            Expr::Paren(i) => Expr::Paren(Box::new(self.close_vars(i, scope)?)),
            Expr::Neg(i) => {
                // Neg(var) -> evaluate
                let c = self.close_vars(i, scope)?;
                match c {
                    Expr::Num { v, .. } if !matches!(**i, Expr::Num { .. }) => Expr::Paren(Box::new(Expr::Bin(Box::new(Expr::num(0)), BinOp::Sub, Box::new(Expr::num(v))))),
                    other => Expr::Neg(Box::new(other)),
                }
            }
            Expr::Not(i) => Expr::Not(Box::new(self.close_vars(i, scope)?)),
            Expr::Str(parts) => {
                let mut out = vec![];
                for p in parts {
                    match p {
                        StrPart::Interp(path) => {
                            let mut done = false;
                            if let Some(n) = self.resolve(scope, path) {
                                if let Some(s) = self.nodes[n].sym {
                                    if self.syms[s].kind == SymKind::Var {
                                        let v = self.sym_value(s)?;
                                        out.push(StrPart::Lit(match v {
                                            Value::Int(n) => n.to_string(),
                                            Value::Str(s) => s,
                                        }));
                                        done = true;
                                    }
                                }
                            }
                            if !done {
                                out.push(p.clone());
                            }
                        }
                        _ => out.push(p.clone()),
                    }
                }
                Expr::Str(out)
            }
            _ => e.clone(),
        })
    }

    fn stmt_id(&self, s: &Stmt) -> (String, usize) {
        self.stmt_ids
            .get(&(s as *const Stmt as usize))
            .cloned()
            .unwrap_or((self.cur_file.clone(), usize::MAX))
    }

    fn image_byte(&self, seg: usize, addr: i64) -> Option<u8> {
        let name = &self.segs[seg].name;
        let s = self.image.iter().find(|s| &s.name == name)?;
        if addr < s.start as i64 || addr >= s.end as i64 {
            return None;
        }
        Some(s.data[(addr as usize) - s.start])
    }

    fn push_site(&mut self, len: usize, scope: usize, kind: SiteKind, stmt: &Stmt, value_idx: usize) -> Result<(), CheckErr> {
        let seg = match self.cur_seg {
            Some(s) => s,
            None => return Ok(()),
        };
        let addr = self.segs[seg].pc;
        let pc = addr + self.segs[seg].offset;
        let (file, stmt_no) = self.stmt_id(stmt);
        self.sites.push(Site { seg, addr, pc, len, scope, kind, file, stmt: stmt_no, value_idx, via: self.via.clone(), bytes: vec![] });
        self.segs[seg].pc += len as i64;
        Ok(())
    }

    fn hoist_macros(&mut self, body: &'a [Stmt], scope: usize) -> Result<(), CheckErr> {
        for s in body {
            if let Stmt::MacroDef { name, params, body } = s {
                let file = self.cur_file.clone();
                self.define(scope, name, SymKind::Macro, SymState::Macro { params: params.clone(), body: &body[..], file })?;
            }
        }
        Ok(())
    }

    fn find_macro(&self, scope: usize, name: &str) -> Option<usize> {
        let mut cur = Some(scope);
        while let Some(c) = cur {
            if let Some(&n) = self.nodes[c].children.get(name) {
                if let Some(s) = self.nodes[n].sym {
                    if matches!(self.syms[s].state, SymState::Macro { .. }) {
                        return Some(s);
                    }
                }
            }
            cur = self.nodes[c].parent;
        }
        None
    }

    fn block(&mut self, body: &'a [Stmt], scope: usize, with_markers: bool) -> Result<(), CheckErr> {
        if with_markers {
            if let Some(pc) = self.target_pc() {
                let _ = self.define(scope, "-", SymKind::Const, SymState::Known(Value::Int(pc)));
            }
        }
        self.hoist_macros(body, scope)?;
        for s in body {
            self.stmt(s, scope)?;
        }
        if with_markers {
            if let Some(pc) = self.target_pc() {
                let _ = self.define(scope, "+", SymKind::Const, SymState::Known(Value::Int(pc)));
            }
        }
        Ok(())
    }

    fn stmt(&mut self, s: &'a Stmt, scope: usize) -> Result<(), CheckErr> {
        self.depth += 1;
        if self.depth > 200 {
            return unsupported("nesting too deep");
        }
        let r = self.stmt_inner(s, scope);
        self.depth -= 1;
        r
    }

    fn stmt_inner(&mut self, s: &'a Stmt, scope: usize) -> Result<(), CheckErr> {
        match s {
            Stmt::Instr { mn, form, operand } => {
                let seg = match self.cur_seg {
                    Some(s) => s,
                    None => return Ok(()),
                };
                let cands = isa::candidates(mn, *form);
                if cands.is_empty() {
                    return unsupported(format!("illegal instruction {} {:?} in model domain", mn, form));
                }
                let len = if cands.iter().all(|c| c.2 == cands[0].2) {
                    cands[0].2
                } else {
                    let addr = self.segs[seg].pc;
                    self.size_reads += 1;
                    match self.image_byte(seg, addr) {
                        Some(b) => match cands.iter().find(|c| c.1 == b) {
                            Some(c) => c.2,
                            None => {
                                return mismatch(
                                    "opcode-not-legal-for-instruction",
                                    format!("{} {:?} at emission address ${:04x}: image has opcode ${:02x}, legal: {:02x?}", mn, form, addr, b, cands.iter().map(|c| c.1).collect::<Vec<_>>()),
                                )
                            }
                        },
                        None => {
                            return mismatch(
                                "image-too-short",
                                format!("{} {:?} expected at emission address ${:04x} of segment {} but the image does not cover it", mn, form, addr, self.segs[seg].name),
                            )
                        }
                    }
                };
                let expr = match operand {
                    Some(e) => Some(self.close_vars(e, scope)?),
                    None => None,
                };
                self.push_site(1 + len, scope, SiteKind::Instr { mn: mn.clone(), form: *form, expr, len }, s, 0)?;
            }
            Stmt::Data { size, vals } => {
                for (i, v) in vals.iter().enumerate() {
                    let expr = self.close_vars(v, scope)?;
                    self.push_site(size.bytes(), scope, SiteKind::Data { size: *size, expr }, s, i)?;
                }
            }
            Stmt::Text { enc, e } => {
                if self.cur_seg.is_none() {
                    return Ok(());
                }
                let expr = self.close_vars(e, scope)?;
                let v = self.eval_now(&expr, scope)?;
                let text = match v {
                    Value::Str(t) => t,
                    Value::Int(_) => return unsupported(".text of integer"),
                };
                let len = match eval::encode_options(&text, *enc) {
                    Some(o) => o.len(),
                    None => return unsupported("text outside the unambiguous PETSCII subset"),
                };
                self.push_site(len, scope, SiteKind::Text { enc: *enc, expr }, s, 0)?;
            }
            Stmt::Label { name, block } => {
                if let Some(pc) = self.target_pc() {
                    self.define(scope, name, SymKind::Label, SymState::Known(Value::Int(pc)))?;
                }
                if let Some(b) = block {
                    let inner = self.child(scope, name);
                    self.block(b, inner, true)?;
                }
            }
            Stmt::Braces(b) => {
                let inner = self.anon_scope(scope, "b");
                self.block(b, inner, true)?;
            }
            Stmt::Const { name, e } => {
                let pc = self.target_pc();
                let expr = self.close_vars(e, scope)?;
                self.define(scope, name, SymKind::Const, SymState::Lazy { expr, scope, pc })?;
            }
            Stmt::Var { name, e } => {
                let expr = self.close_vars(e, scope)?;
                let v = self.eval_now(&expr, scope)?;
                self.define(scope, name, SymKind::Var, SymState::Known(v))?;
            }
            Stmt::SetPc(e) => {
                let v = self.eval_int_now(e, scope)?;
                if let Some(seg) = self.cur_seg {
                    // `* = e` sets the program counter: the value `*` and labels see
                    let off = self.segs[seg].offset;
                    self.segs[seg].pc = v - off;
                }
            }
            Stmt::Align(e) => {
                let n = self.eval_int_now(e, scope)?;
                if n <= 0 {
                    return unsupported("align <= 0");
                }
                if let Some(pc) = self.target_pc() {
                    let rem = pc % n;
                    let pad = if rem == 0 {
                        let i = self.aligned_aligns;
                        self.aligned_aligns += 1;
                        // already aligned: the program counter does not have to move
                        if self.align_choices.get(i).copied().unwrap_or(false) {
                            n
                        } else {
                            0
                        }
                    } else {
                        n - rem
                    };
                    self.push_site(pad as usize, scope, SiteKind::Pad { len: pad as usize }, s, 0)?;
                }
            }
            Stmt::Loop { count, body } => {
                let n = self.eval_int_now(count, scope)?;
                if n > 10_000 {
                    return unsupported("loop count too large for the model");
                }
                for i in 0..n.max(0) {
                    let inner = self.anon_scope(scope, "l");
                    self.define(inner, "index", SymKind::Index, SymState::Known(Value::Int(i)))?;
                    self.block(body, inner, true)?;
                }
            }
            Stmt::If { cond, then, els } => {
                let c = self.eval_int_now(cond, scope)?;
                if c != 0 {
                    self.hoist_macros(then, scope)?;
                    for st in then {
                        self.stmt(st, scope)?;
                    }
                } else if let Some(e) = els {
                    self.hoist_macros(e, scope)?;
                    for st in e {
                        self.stmt(st, scope)?;
                    }
                }
            }
            Stmt::MacroDef { .. } => {}
            Stmt::MacroCall { name, args } => {
                let m = match self.find_macro(scope, name) {
                    Some(m) => m,
                    None => return unsupported(format!("model: unknown macro {}", name)),
                };
                let (params, body, file) = match self.syms[m].state.clone() {
                    SymState::Macro { params, body, file } => (params, body, file),
                    _ => unreachable!(),
                };
                if params.len() != args.len() {
                    return unsupported("macro arity");
                }
                let inner = self.anon_scope(scope, "m");
                let pc = self.target_pc();
                for (p, a) in params.iter().zip(args) {
                    let expr = self.close_vars(a, scope)?;
                    // argument expressions are evaluated in the scope of the call
                    self.define(inner, p, SymKind::MacroArg, SymState::Lazy { expr, scope, pc })?;
                }
                let id = self.stmt_id(s);
                self.via.push(id);
                let old_file = std::mem::replace(&mut self.cur_file, file);
                // the body is looked up by pointer in the definition: re-register ids for the cloned body
                let r = self.block_cloned_macro(body, inner, name);
                self.cur_file = old_file;
                self.via.pop();
                r?;
            }
            Stmt::Segment { name, block } => {
                let idx = match self.segs.iter().position(|s| &s.name == name) {
                    Some(i) => i,
                    None => return unsupported(format!("model: unknown segment {}", name)),
                };
                match block {
                    Some(b) => {
                        let old = self.cur_seg.replace(idx);
                        self.hoist_macros(b, scope)?;
                        for st in b {
                            self.stmt(st, scope)?;
                        }
                        self.cur_seg = old;
                    }
                    None => self.cur_seg = Some(idx),
                }
            }
            Stmt::DefineSegment { name, start, pc, write, bank } => {
                // hypothesis from the image under test, verified after the walk
                let img = match self.image.iter().find(|s| &s.name == name) {
                    Some(i) => i.clone(),
                    None => return mismatch("segment-missing", format!("segment {} not present in the output", name)),
                };
                let mut seg = SegM::new(name, img.initial_pc as i64, img.target_address as i64);
                seg.write = write.unwrap_or(true);
                seg.bank = bank.clone();
                seg.start_expr = start.clone().map(|e| (e, scope));
                seg.pc_expr = pc.clone().map(|e| (e, scope));
                if start.is_none() && img.initial_pc != 0 {
                    return mismatch("segment-start", format!("segment {} has no start option but starts at ${:x}", name, img.initial_pc));
                }
                if img.write != seg.write {
                    return mismatch("segment-write", format!("segment {} write flag", name));
                }
                if self.segs.iter().any(|s| &s.name == name) {
                    return unsupported("segment defined twice");
                }
                self.segs.push(seg);
                if self.cur_seg.is_none() {
                    self.cur_seg = Some(self.segs.len() - 1);
                }
            }
            Stmt::DefineBank { .. } => {}
            Stmt::Import { args, file, block } => {
                let prog: &'a Program = self.prog;
                let body: &'a Vec<Stmt> = match prog.files.get(file) {
                    Some(b) => b,
                    None => return unsupported(format!("model: missing file {}", file)),
                };
                let inner = self.anon_scope(scope, "i");
                if let Some(pc) = self.target_pc() {
                    if block.is_some() {
                        let _ = self.define(inner, "-", SymKind::Const, SymState::Known(Value::Int(pc)));
                    }
                }
                if let Some(b) = block {
                    self.hoist_macros(b, inner)?;
                    for st in b {
                        self.stmt(st, inner)?;
                    }
                }
                let old_file = std::mem::replace(&mut self.cur_file, file.clone());
                self.hoist_macros(body, inner)?;
                for st in body {
                    self.stmt(st, inner)?;
                }
                self.cur_file = old_file;
                if let Some(pc) = self.target_pc() {
                    if block.is_some() {
                        let _ = self.define(inner, "+", SymKind::Const, SymState::Known(Value::Int(pc)));
                    }
                }
                // export
                match args {
                    ImportArgs::All { as_ } => {
                        let target = match as_ {
                            Some(a) => self.child(scope, a),
                            None => scope,
                        };
                        let kids: Vec<(String, usize)> = self.nodes[inner].children.iter().map(|(k, v)| (k.clone(), *v)).collect();
                        for (k, v) in kids {
                            if k == "-" || k == "+" || k.starts_with('$') {
                                continue;
                            }
                            if let Some(&existing) = self.nodes[target].children.get(&k) {
                                if existing != v {
                                    return unsupported(format!("model: import clash on {}", k));
                                }
                            }
                            self.nodes[target].children.insert(k, v);
                        }
                    }
                    ImportArgs::Specific(list) => {
                        for (name, as_) in list {
                            let n = match self.try_index(inner, &[name.clone()]) {
                                Some(n) => n,
                                None => return unsupported(format!("model: import of unknown {}", name)),
                            };
                            let tname = as_.clone().unwrap_or(name.clone());
                            if let Some(&existing) = self.nodes[scope].children.get(&tname) {
                                if existing != n {
                                    return unsupported(format!("model: import clash on {}", tname));
                                }
                            }
                            self.nodes[scope].children.insert(tname, n);
                        }
                    }
                }
            }
            Stmt::Test { name, body } => {
                if let (Some(pc), Some(seg)) = (self.target_pc(), self.cur_seg) {
                    self.tests.push((name.clone(), pc, seg));
                    if self.active_test.as_deref() == Some(name.as_str()) {
                        // the body of the active test is emitted in the enclosing scope
                        self.hoist_macros(body, scope)?;
                        for st in body {
                            self.stmt(st, scope)?;
                        }
                    }
                }
            }
            Stmt::Assert { e, msg } => {
                if self.active_test.is_some() {
                    if let Some(pc) = self.target_pc() {
                        let (file, stmt) = self.stmt_id(s);
                        let expr = self.close_vars(e, scope)?;
                        self.asserts.push(AssertSite { pc, expr, msg: msg.clone(), scope, file, stmt, seg: self.cur_seg });
                    }
                }
            }
            Stmt::Trace { .. } => {}
            Stmt::File(_) => return unsupported(".file"),
            Stmt::Raw(_) => return unsupported("raw text"),
        }
        Ok(())
    }

    fn block_cloned_macro(&mut self, body: &'a [Stmt], inner: usize, _name: &str) -> Result<(), CheckErr> {
        // ids of statements in macro bodies: the body stored in the symbol is a clone, so map by structural position
        // the body of a macro is a block like any other: it has a start (`-`) and an end (`+`)
        if let Some(pc) = self.target_pc() {
            let _ = self.define(inner, "-", SymKind::Const, SymState::Known(Value::Int(pc)));
        }
        self.hoist_macros(body, inner)?;
        for st in body {
            self.stmt(st, inner)?;
        }
        if let Some(pc) = self.target_pc() {
            let _ = self.define(inner, "+", SymKind::Const, SymState::Known(Value::Int(pc)));
        }
        Ok(())
    }
}

fn number_stmts(prog: &Program) -> HashMap<usize, (String, usize)> {
    let mut m = HashMap::new();
    for (file, body) in &prog.files {
        let mut n = 0usize;
        visit_stmts(body, &mut |s| {
            m.insert(s as *const Stmt as usize, (file.clone(), n));
            n += 1;
        });
    }
    m
}

/// Run the reference walk against an image. On success returns the model's view (sites with their
/// expected bytes, labels, segments).
pub fn check_image(prog: &Program, image: &[SegOut], opts: &Options) -> Result<ModelOut, CheckErr> {
    let has_segdef = {
        let mut found = false;
        for body in prog.files.values() {
            visit_stmts(body, &mut |s| {
                if matches!(s, Stmt::DefineSegment { .. }) {
                    found = true;
                }
                if let Stmt::DefineBank { create_segment: Some(true), .. } = s {
                    found = true;
                }
            });
        }
        found
    };
    let mut w = Walker {
        prog,
        image,
        nodes: vec![],
        syms: vec![],
        segs: vec![],
        cur_seg: None,
        sites: vec![],
        anon: 0,
        stmt_ids: number_stmts(prog),
        cur_file: prog.entry.clone(),
        via: vec![],
        align_choices: opts.align_choices.clone(),
        aligned_aligns: 0,
        size_reads: 0,
        default_pc: opts.default_pc,
        depth: 0,
        active_test: opts.active_test.clone(),
        asserts: vec![],
        tests: vec![],
    };
    let root = w.new_node(None, "");
    if !has_segdef {
        w.segs.push(SegM::new("default", w.default_pc, w.default_pc));
        w.cur_seg = Some(0);
    }
    let main: &Vec<Stmt> = prog.main();
    w.hoist_macros(main, root)?;
    for s in main {
        w.stmt(s, root)?;
    }

    // ---- second phase: every site's bytes from final symbol values
    let mut out = ModelOut::default();
    let nsites = w.sites.len();
    for i in 0..nsites {
        let site = w.sites[i].clone();
        let bytes: Vec<u8> = match &site.kind {
            SiteKind::Pad { len } => vec![0; *len],
            SiteKind::Data { size, expr } => {
                let v = {
                    let mut env = WEnv { w: &mut w, scope: site.scope, pc: Some(site.pc) };
                    eval::eval(expr, &mut env)?
                };
                match v {
                    Value::Int(n) => eval::low_bytes(n, size.bytes()),
                    Value::Str(_) => return unsupported("string in data"),
                }
            }
            SiteKind::Text { enc, expr } => {
                let v = {
                    let mut env = WEnv { w: &mut w, scope: site.scope, pc: Some(site.pc) };
                    eval::eval(expr, &mut env)?
                };
                let text = match v {
                    Value::Str(t) => t,
                    _ => return unsupported("text"),
                };
                let opts = eval::encode_options(&text, *enc).ok_or(CheckErr::Unsupported("petscii".into()))?;
                if opts.len() != site.len {
                    return unsupported("text length changed between phases");
                }
                // where two encodings are correct take the one the image has
                opts.iter()
                    .enumerate()
                    .map(|(k, o)| {
                        let got = w.image_byte(site.seg, site.addr + k as i64);
                        match got {
                            Some(g) if o.contains(&g) => g,
                            _ => o[0],
                        }
                    })
                    .collect()
            }
            SiteKind::Instr { mn, form, expr, len } => {
                let value = match expr {
                    Some(e) => {
                        let v = {
                            let mut env = WEnv { w: &mut w, scope: site.scope, pc: Some(site.pc) };
                            eval::eval(e, &mut env)?
                        };
                        match v {
                            Value::Int(n) => n,
                            _ => return unsupported("string operand"),
                        }
                    }
                    None => 0,
                };
                if value < 0 {
                    return unsupported("negative operand");
                }
                match isa::encode(mn, *form, value, site.pc) {
                    isa::Expect::Bytes(b) => {
                        if b.len() != 1 + len {
                            let is_zp = b.len() == 2;
                            return mismatch(
                                "zp-abs-choice-inconsistent-with-final-value",
                                format!(
                                    "{} {:?} at ${:04x}: final operand value is {} (${:x}) which requires the {} form, but the image holds a {}-byte instruction",
                                    mn, form, site.pc, value, value, if is_zp { "zero-page" } else { "absolute" }, 1 + len
                                ),
                            );
                        }
                        if b.len() == 2 && isa::opcode(mn, Mode::Rel).is_none() && matches!(form, Form::Plain | Form::PlainX | Form::PlainY) {
                            out.zp_chosen += 1;
                        }
                        b
                    }
                    isa::Expect::Reject => {
                        return unsupported(format!("model: {} {:?} with value {} must be rejected, program not in the valid domain", mn, form, value));
                    }
                    isa::Expect::RejectOr(_) => return unsupported("operand above $FFFF"),
                }
            }
        };
        w.sites[i].bytes = bytes.clone();
        let seg = site.seg;
        w.segs[seg].emit(site.addr, &bytes)?;
    }

    // ---- segment start / pc options under final values
    for i in 0..w.segs.len() {
        if let Some((e, scope)) = w.segs[i].start_expr.clone() {
            let v = {
                let mut env = WEnv { w: &mut w, scope, pc: None };
                eval::eval(&e, &mut env)?
            };
            if v != Value::Int(w.segs[i].initial_pc) {
                return mismatch(
                    "segment-start",
                    format!("segment {}: start option evaluates to {:?} under the final layout but the segment was placed at ${:x}", w.segs[i].name, v, w.segs[i].initial_pc),
                );
            }
        }
        let target = w.segs[i].initial_pc + w.segs[i].offset;
        match w.segs[i].pc_expr.clone() {
            Some((e, scope)) => {
                let v = {
                    let mut env = WEnv { w: &mut w, scope, pc: None };
                    eval::eval(&e, &mut env)?
                };
                if v != Value::Int(target) {
                    return mismatch("segment-pc", format!("segment {}: pc option evaluates to {:?}, image uses ${:x}", w.segs[i].name, v, target));
                }
            }
            None => {
                if w.segs[i].offset != 0 {
                    return mismatch("segment-pc", format!("segment {} has no pc option but is relocated by {}", w.segs[i].name, w.segs[i].offset));
                }
            }
        }
    }

    // ---- compare images
    for seg in &w.segs {
        let img = match image.iter().find(|s| s.name == seg.name) {
            Some(i) => i,
            None => return mismatch("segment-missing", format!("segment {} missing from the output", seg.name)),
        };
        let (lo, hi) = if seg.touched { (seg.lo, seg.hi) } else { (seg.initial_pc, seg.initial_pc) };
        if seg.touched && (img.start as i64 != lo || img.end as i64 != hi) {
            return mismatch(
                "segment-range",
                format!("segment {}: model range ${:04x}-${:04x}, image ${:04x}-${:04x}", seg.name, lo, hi, img.start, img.end),
            );
        }
        if seg.touched && img.data != seg.range_data() {
            let exp = seg.range_data();
            let pos = img.data.iter().zip(exp.iter()).position(|(a, b)| a != b).unwrap_or(0);
            let addr = lo + pos as i64;
            // which site covers it
            let site = w.sites.iter().rev().find(|s| w.segs[s.seg].name == seg.name && addr >= s.addr && addr < s.addr + s.len as i64);
            return mismatch(
                "image-byte-differs",
                format!(
                    "segment {} emission address ${:04x}: image ${:02x}, expected ${:02x}; site: {:?}",
                    seg.name,
                    addr,
                    img.data[pos],
                    exp[pos],
                    site.map(|s| (&s.kind, s.pc, &s.file, s.stmt))
                ),
            );
        }
        if !seg.touched && !img.data.is_empty() {
            return mismatch("segment-range", format!("segment {}: model emits nothing, image has {} bytes", seg.name, img.data.len()));
        }
    }
    for img in image {
        if !w.segs.iter().any(|s| s.name == img.name) {
            return mismatch("segment-unexpected", format!("output has segment {} unknown to the model", img.name));
        }
    }

    // ---- labels
    let mut labels = vec![];
    fn collect(w: &Walker, n: usize, path: &mut Vec<String>, out: &mut Vec<LabelOut>, seen: &mut Vec<usize>) {
        let kids: Vec<(String, usize)> = w.nodes[n].children.iter().map(|(k, v)| (k.clone(), *v)).collect();
        for (k, c) in kids {
            path.push(if k.starts_with('$') { "$".to_string() } else { k.clone() });
            if let Some(s) = w.nodes[c].sym {
                if let SymState::Known(Value::Int(v)) = &w.syms[s].state {
                    out.push(LabelOut { path: path.clone(), value: *v, kind: w.syms[s].kind.clone() });
                }
            }
            // aliases (imports) point to nodes whose parent is elsewhere: descend only through real children
            if w.nodes[c].parent == Some(n) && !seen.contains(&c) {
                seen.push(c);
                collect(w, c, path, out, seen);
            }
            path.pop();
        }
    }
    let mut seen = vec![];
    // force evaluation of lazy constants so that they appear with values
    for s in 0..w.syms.len() {
        if matches!(w.syms[s].state, SymState::Lazy { .. }) {
            let _ = w.sym_value(s);
        }
    }
    collect(&w, root, &mut vec![], &mut labels, &mut seen);

    out.segs = w.segs.clone();
    out.sites = w.sites.clone();
    out.labels = labels;
    out.asserts = w.asserts.clone();
    out.tests = w.tests.clone();
    out.aligned_aligns = w.aligned_aligns;
    out.size_reads = w.size_reads;
    Ok(out)
}

/// check_image with the `.align`-at-aligned-address ambiguity resolved by trying both readings
pub fn check_image_all(prog: &Program, image: &[SegOut], default_pc: i64) -> Result<ModelOut, CheckErr> {
    let first = check_image(prog, image, &Options { default_pc, align_choices: vec![], active_test: None });
    // (until `.align` at an aligned address stopped emitting n bytes, both readings were accepted here)
    let accept_full_padding = false;
    let k = match &first {
        Ok(m) => return Ok(m.clone()),
        Err(CheckErr::Unsupported(_)) => return first,
        Err(_) => {
            // how many aligned aligns were met? re-run counting
            count_aligned(prog, image, default_pc)
        }
    };
    if !accept_full_padding || k == 0 || k > 8 {
        return first;
    }
    for bits in 1u32..(1 << k) {
        let choices: Vec<bool> = (0..k).map(|i| bits & (1 << i) == 0).collect();
        if let Ok(m) = check_image(prog, image, &Options { default_pc, align_choices: choices, active_test: None }) {
            return Ok(m);
        }
    }
    first
}

fn count_aligned(prog: &Program, _image: &[SegOut], _default_pc: i64) -> usize {
    let mut n = 0;
    for body in prog.files.values() {
        visit_stmts(body, &mut |s| {
            if matches!(s, Stmt::Align(_)) {
                n += 1;
            }
        });
    }
    n.min(8)
}
