//! Reference NMOS 6502 opcode table (written from the ISA, DESIGN.md appendix E). No mos code.

use serde::{Deserialize, Serialize};

#[derive(Clone, Copy, Debug, PartialEq, Eq, Hash, Serialize, Deserialize, PartialOrd, Ord)]
pub enum Mode {
    Imp,
    Imm,
    Zp,
    Zpx,
    Zpy,
    Abs,
    Abx,
    Aby,
    Izx,
    Izy,
    Ind,
    Rel,
}

const TABLE: &str = "
adc: imm=69 zp=65 zpx=75 abs=6d abx=7d aby=79 izx=61 izy=71
and: imm=29 zp=25 zpx=35 abs=2d abx=3d aby=39 izx=21 izy=31
asl: imp=0a zp=06 zpx=16 abs=0e abx=1e
bcc: rel=90
bcs: rel=b0
beq: rel=f0
bit: zp=24 abs=2c
bmi: rel=30
bne: rel=d0
bpl: rel=10
brk: imp=00
bvc: rel=50
bvs: rel=70
clc: imp=18
cld: imp=d8
cli: imp=58
clv: imp=b8
cmp: imm=c9 zp=c5 zpx=d5 abs=cd abx=dd aby=d9 izx=c1 izy=d1
cpx: imm=e0 zp=e4 abs=ec
cpy: imm=c0 zp=c4 abs=cc
dec: zp=c6 zpx=d6 abs=ce abx=de
dex: imp=ca
dey: imp=88
eor: imm=49 zp=45 zpx=55 abs=4d abx=5d aby=59 izx=41 izy=51
inc: zp=e6 zpx=f6 abs=ee abx=fe
inx: imp=e8
iny: imp=c8
jmp: abs=4c ind=6c
jsr: abs=20
lda: imm=a9 zp=a5 zpx=b5 abs=ad abx=bd aby=b9 izx=a1 izy=b1
ldx: imm=a2 zp=a6 zpy=b6 abs=ae aby=be
ldy: imm=a0 zp=a4 zpx=b4 abs=ac abx=bc
lsr: imp=4a zp=46 zpx=56 abs=4e abx=5e
nop: imp=ea
ora: imm=09 zp=05 zpx=15 abs=0d abx=1d aby=19 izx=01 izy=11
pha: imp=48
php: imp=08
pla: imp=68
plp: imp=28
rol: imp=2a zp=26 zpx=36 abs=2e abx=3e
ror: imp=6a zp=66 zpx=76 abs=6e abx=7e
rti: imp=40
rts: imp=60
sbc: imm=e9 zp=e5 zpx=f5 abs=ed abx=fd aby=f9 izx=e1 izy=f1
sec: imp=38
sed: imp=f8
sei: imp=78
sta: zp=85 zpx=95 abs=8d abx=9d aby=99 izx=81 izy=91
stx: zp=86 zpy=96 abs=8e
sty: zp=84 zpx=94 abs=8c
tax: imp=aa
tay: imp=a8
tsx: imp=ba
txa: imp=8a
txs: imp=9a
tya: imp=98
";

fn parse_mode(s: &str) -> Mode {
    match s {
        "imp" => Mode::Imp,
        "imm" => Mode::Imm,
        "zp" => Mode::Zp,
        "zpx" => Mode::Zpx,
        "zpy" => Mode::Zpy,
        "abs" => Mode::Abs,
        "abx" => Mode::Abx,
        "aby" => Mode::Aby,
        "izx" => Mode::Izx,
        "izy" => Mode::Izy,
        "ind" => Mode::Ind,
        "rel" => Mode::Rel,
        _ => panic!("bad mode {}", s),
    }
}

static TABLE_CACHE: std::sync::OnceLock<Vec<(&'static str, Vec<(Mode, u8)>)>> = std::sync::OnceLock::new();

pub fn table_ref() -> &'static Vec<(&'static str, Vec<(Mode, u8)>)> {
    TABLE_CACHE.get_or_init(parse_table)
}

pub fn table() -> Vec<(&'static str, Vec<(Mode, u8)>)> {
    table_ref().clone()
}

static DECODE_CACHE: std::sync::OnceLock<Vec<Option<(&'static str, Mode)>>> = std::sync::OnceLock::new();

/// opcode byte -> (mnemonic, mode)
pub fn decode(op: u8) -> Option<(&'static str, Mode)> {
    DECODE_CACHE.get_or_init(|| {
        let mut v = vec![None; 256];
        for (mn, modes) in table_ref() {
            for (m, o) in modes {
                v[*o as usize] = Some((*mn, *m));
            }
        }
        v
    })[op as usize]
}

fn parse_table() -> Vec<(&'static str, Vec<(Mode, u8)>)> {
    let mut out = vec![];
    for line in TABLE.lines() {
        let line = line.trim();
        if line.is_empty() {
            continue;
        }
        let (mn, rest) = line.split_once(':').unwrap();
        let mut v = vec![];
        for item in rest.split_whitespace() {
            let (m, op) = item.split_once('=').unwrap();
            v.push((parse_mode(m), u8::from_str_radix(op, 16).unwrap()));
        }
        out.push((mn, v));
    }
    out
}

pub fn mnemonics() -> Vec<&'static str> {
    table().into_iter().map(|(m, _)| m).collect()
}

pub fn opcode(mn: &str, mode: Mode) -> Option<u8> {
    let mn = mn.to_ascii_lowercase();
    for (m, v) in table_ref() {
        if *m == mn {
            return v.iter().find(|(md, _)| *md == mode).map(|(_, o)| *o);
        }
    }
    None
}

pub fn is_branch(mn: &str) -> bool {
    opcode(mn, Mode::Rel).is_some()
}

/// The syntactic operand forms the grammar distinguishes.
#[derive(Clone, Copy, Debug, PartialEq, Eq, Hash, Serialize, Deserialize, PartialOrd, Ord)]
pub enum Form {
    /// no operand
    None,
    /// `#v`
    Imm,
    /// `v`
    Plain,
    /// `v,x`
    PlainX,
    /// `v,y`
    PlainY,
    /// `(v,x)`
    IndX,
    /// `(v),y`
    IndY,
    /// `(v)`
    Ind,
    /// `(v,y)` - never legal
    IndXy,
    /// `(v),x` - never legal
    IndYx,
    /// `#v,x` - never legal
    ImmX,
}

pub const ALL_FORMS: [Form; 11] = [
    Form::None,
    Form::Imm,
    Form::Plain,
    Form::PlainX,
    Form::PlainY,
    Form::IndX,
    Form::IndY,
    Form::Ind,
    Form::IndXy,
    Form::IndYx,
    Form::ImmX,
];

impl Form {
    pub fn render(&self, v: &str) -> String {
        match self {
            Form::None => String::new(),
            Form::Imm => format!("#{}", v),
            Form::Plain => v.to_string(),
            Form::PlainX => format!("{},x", v),
            Form::PlainY => format!("{},y", v),
            Form::IndX => format!("({},x)", v),
            Form::IndY => format!("({}),y", v),
            Form::Ind => format!("({})", v),
            Form::IndXy => format!("({},y)", v),
            Form::IndYx => format!("({}),x", v),
            Form::ImmX => format!("#{},x", v),
        }
    }
}

/// What the ISA prescribes for (mnemonic, form, value, address of the instruction).
#[derive(Clone, Debug, PartialEq, Eq)]
pub enum Expect {
    Bytes(Vec<u8>),
    /// must be rejected with a diagnostic
    Reject,
    /// property names no outcome: a diagnostic, or exactly these bytes
    RejectOr(Vec<u8>),
}

/// `value` >= 0. `pc` = address of the instruction (for branches).
pub fn encode(mn: &str, form: Form, value: i64, pc: i64) -> Expect {
    let le = |op: u8, v: i64| vec![op, (v & 0xff) as u8, ((v >> 8) & 0xff) as u8];
    let pick = |zp: Option<u8>, abs: Option<u8>| -> Expect {
        match (zp, abs) {
            (Some(z), _) if (0..=255).contains(&value) => Expect::Bytes(vec![z, value as u8]),
            (_, Some(a)) => {
                if value <= 0xffff {
                    Expect::Bytes(le(a, value))
                } else {
                    Expect::RejectOr(le(a, value))
                }
            }
            // zero page form only, operand too large
            _ => Expect::Reject,
        }
    };
    match form {
        Form::None => match opcode(mn, Mode::Imp) {
            Some(o) => Expect::Bytes(vec![o]),
            None => Expect::Reject,
        },
        Form::Imm => match opcode(mn, Mode::Imm) {
            Some(o) if (0..=255).contains(&value) => Expect::Bytes(vec![o, value as u8]),
            _ => Expect::Reject,
        },
        Form::Plain => {
            if let Some(o) = opcode(mn, Mode::Rel) {
                let d = value - (pc + 2);
                if (-128..=127).contains(&d) {
                    Expect::Bytes(vec![o, (d & 0xff) as u8])
                } else {
                    Expect::Reject
                }
            } else {
                pick(opcode(mn, Mode::Zp), opcode(mn, Mode::Abs))
            }
        }
        Form::PlainX => pick(opcode(mn, Mode::Zpx), opcode(mn, Mode::Abx)),
        Form::PlainY => pick(opcode(mn, Mode::Zpy), opcode(mn, Mode::Aby)),
        Form::IndX => match opcode(mn, Mode::Izx) {
            Some(o) if (0..=255).contains(&value) => Expect::Bytes(vec![o, value as u8]),
            _ => Expect::Reject,
        },
        Form::IndY => match opcode(mn, Mode::Izy) {
            Some(o) if (0..=255).contains(&value) => Expect::Bytes(vec![o, value as u8]),
            _ => Expect::Reject,
        },
        Form::Ind => match opcode(mn, Mode::Ind) {
            Some(o) if value <= 0xffff => Expect::Bytes(le(o, value)),
            Some(o) => Expect::RejectOr(le(o, value)),
            None => Expect::Reject,
        },
        Form::IndXy | Form::IndYx | Form::ImmX => Expect::Reject,
    }
}

/// All legal (mode, opcode, operand length) candidates for a mnemonic with a syntactic form
pub fn candidates(mn: &str, form: Form) -> Vec<(Mode, u8, usize)> {
    let mut v = vec![];
    let mut add = |m: Mode, len: usize| {
        if let Some(o) = opcode(mn, m) {
            v.push((m, o, len));
        }
    };
    match form {
        Form::None => add(Mode::Imp, 0),
        Form::Imm => add(Mode::Imm, 1),
        Form::Plain => {
            add(Mode::Rel, 1);
            add(Mode::Zp, 1);
            add(Mode::Abs, 2);
        }
        Form::PlainX => {
            add(Mode::Zpx, 1);
            add(Mode::Abx, 2);
        }
        Form::PlainY => {
            add(Mode::Zpy, 1);
            add(Mode::Aby, 2);
        }
        Form::IndX => add(Mode::Izx, 1),
        Form::IndY => add(Mode::Izy, 1),
        Form::Ind => add(Mode::Ind, 2),
        _ => {}
    }
    v
}

/// Self test: literal vectors copied from the ISA (not from mos) + structural checks.
pub fn self_test() -> Result<(), String> {
    let t = table();
    if t.len() != 56 {
        return Err(format!("{} mnemonics", t.len()));
    }
    let mut seen = std::collections::HashSet::new();
    let mut n = 0;
    for (_, v) in &t {
        for (_, o) in v {
            n += 1;
            if !seen.insert(*o) {
                return Err(format!("duplicate opcode {:02x}", o));
            }
        }
    }
    if n != 151 {
        return Err(format!("{} opcodes", n));
    }
    let vectors: &[(&str, Form, i64, &[u8])] = &[
        ("lda", Form::Imm, 0x10, &[0xa9, 0x10]),
        ("lda", Form::Plain, 0x10, &[0xa5, 0x10]),
        ("lda", Form::Plain, 0x1234, &[0xad, 0x34, 0x12]),
        ("sta", Form::PlainY, 0x10, &[0x99, 0x10, 0x00]),
        ("stx", Form::PlainY, 0x10, &[0x96, 0x10]),
        ("ldx", Form::PlainY, 0x1234, &[0xbe, 0x34, 0x12]),
        ("jmp", Form::Ind, 0x1234, &[0x6c, 0x34, 0x12]),
        ("jmp", Form::Plain, 0x10, &[0x4c, 0x10, 0x00]),
        ("jsr", Form::Plain, 0xffff, &[0x20, 0xff, 0xff]),
        ("cpy", Form::Plain, 0xff, &[0xc4, 0xff]),
        ("cpy", Form::Plain, 0x100, &[0xcc, 0x00, 0x01]),
        ("ora", Form::IndX, 0x10, &[0x01, 0x10]),
        ("sbc", Form::IndY, 0xff, &[0xf1, 0xff]),
        ("asl", Form::None, 0, &[0x0a]),
        ("rts", Form::None, 0, &[0x60]),
    ];
    for (mn, f, v, bytes) in vectors {
        if encode(mn, *f, *v, 0) != Expect::Bytes(bytes.to_vec()) {
            return Err(format!("vector {} {:?} {}", mn, f, v));
        }
    }
    if encode("bne", Form::Plain, 0x2000, 0x2000) != Expect::Bytes(vec![0xd0, 0xfe]) {
        return Err("branch".into());
    }
    if encode("bne", Form::Plain, 0x2000 + 2 + 128, 0x2000) != Expect::Reject {
        return Err("branch range".into());
    }
    if encode("stx", Form::PlainY, 0x100, 0) != Expect::Reject {
        return Err("stx abs,y".into());
    }
    Ok(())
}
