//! Hand expansion of constructs (C07): loops, conditionals, macro calls, pure constants. AST -> AST.

use crate::gen::ast::*;
use crate::model::eval::{self, Env, EvalErr, Value};
use std::collections::BTreeMap;

#[derive(Clone, Copy, Debug, PartialEq, Eq, Hash, serde::Serialize, serde::Deserialize)]
pub struct Kinds {
    pub loops: bool,
    pub ifs: bool,
    pub macros: bool,
    pub consts: bool,
}

impl Kinds {
    pub const ALL: Kinds = Kinds { loops: true, ifs: true, macros: true, consts: true };
    pub fn name(&self) -> String {
        let mut v = vec![];
        if self.loops {
            v.push("loops");
        }
        if self.ifs {
            v.push("ifs");
        }
        if self.macros {
            v.push("macros");
        }
        if self.consts {
            v.push("consts");
        }
        v.join("+")
    }
}

struct PureEnv<'a> {
    consts: &'a BTreeMap<String, Value>,
}

impl<'a> Env for PureEnv<'a> {
    fn lookup(&mut self, path: &[String]) -> Result<Value, EvalErr> {
        if path.len() == 1 {
            if let Some(v) = self.consts.get(&path[0]) {
                return Ok(v.clone());
            }
        }
        Err(EvalErr::Undefined(path.to_vec()))
    }
    fn defined(&mut self, path: &[String]) -> Result<bool, EvalErr> {
        Ok(path.len() == 1 && self.consts.contains_key(&path[0]))
    }
    fn pc(&mut self) -> Result<i64, EvalErr> {
        Err(EvalErr::Unsupported("pc".into()))
    }
}

pub struct Expander {
    pub kinds: Kinds,
    /// pure constants and variables with globally unique names (root level), evaluated
    consts: BTreeMap<String, Value>,
    macros: BTreeMap<String, (Vec<String>, Vec<Stmt>)>,
    pub expanded: usize,
    pub nesting: usize,
    fresh: usize,
}

fn lit_of(v: &Value) -> Expr {
    match v {
        Value::Int(n) if *n < 0 => Expr::Paren(Box::new(Expr::Neg(Box::new(Expr::num(-n))))),
        Value::Int(n) => Expr::Paren(Box::new(Expr::num(*n))),
        Value::Str(s) => Expr::str(s),
    }
}

/// replace every use of the bare identifier `name` by `with` (stops at nothing: names are unique)
fn subst_expr(e: &Expr, name: &str, with: &Expr) -> Expr {
    match e {
        Expr::Id { path, modifier } if path.len() == 1 && path[0] == name => match (modifier, with) {
            (None, w) => w.clone(),
            // a modifier applies to an identifier only: compute it when the replacement is a literal
            (Some(m), w) => {
                let v = eval::eval(w, &mut PureEnv { consts: &BTreeMap::new() });
                match v {
                    Ok(Value::Int(n)) => Expr::Paren(Box::new(Expr::num(if *m == '<' { n & 0xff } else { (n >> 8) & 0xff }))),
                    _ => e.clone(),
                }
            }
        },
        // the constant is gone after the substitution, but it was defined
        Expr::Defined(path) if path.len() == 1 && path[0] == name => Expr::Paren(Box::new(Expr::num(1))),
        Expr::Bin(l, op, r) => Expr::Bin(Box::new(subst_expr(l, name, with)), *op, Box::new(subst_expr(r, name, with))),
        Expr::Paren(i) => Expr::Paren(Box::new(subst_expr(i, name, with))),
        Expr::Neg(i) => {
            let inner = subst_expr(i, name, with);
            match inner {
                Expr::Num { .. } | Expr::Id { .. } => Expr::Neg(Box::new(inner)),
                other => Expr::Bin(Box::new(Expr::num(0)), BinOp::Sub, Box::new(other)),
            }
        }
        Expr::Not(i) => Expr::Not(Box::new(subst_expr(i, name, with))),
        Expr::Str(parts) => Expr::Str(
            parts
                .iter()
                .map(|p| match p {
                    StrPart::Interp(path) if path.len() == 1 && path[0] == name => {
                        let v = eval::eval(with, &mut PureEnv { consts: &BTreeMap::new() });
                        match v {
                            Ok(Value::Int(n)) => StrPart::Lit(n.to_string()),
                            Ok(Value::Str(s)) => StrPart::Lit(s),
                            _ => p.clone(),
                        }
                    }
                    _ => p.clone(),
                })
                .collect(),
        ),
        Expr::Call(n, args) => Expr::Call(n.clone(), args.iter().map(|a| subst_expr(a, name, with)).collect()),
        _ => e.clone(),
    }
}

fn add_super(e: &Expr) -> Expr {
    match e {
        Expr::Id { path, modifier } if path.first().map(|c| c == "super").unwrap_or(false) => {
            let mut p = vec!["super".to_string()];
            p.extend(path.clone());
            Expr::Id { path: p, modifier: *modifier }
        }
        Expr::Bin(l, op, r) => Expr::Bin(Box::new(add_super(l)), *op, Box::new(add_super(r))),
        Expr::Paren(i) => Expr::Paren(Box::new(add_super(i))),
        Expr::Neg(i) => Expr::Neg(Box::new(add_super(i))),
        Expr::Not(i) => Expr::Not(Box::new(add_super(i))),
        _ => e.clone(),
    }
}

fn map_exprs(s: &Stmt, f: &dyn Fn(&Expr) -> Expr, into_loops: bool) -> Stmt {
    let mb = |b: &Vec<Stmt>| b.iter().map(|s| map_exprs(s, f, into_loops)).collect::<Vec<_>>();
    match s {
        Stmt::Instr { mn, form, operand } => Stmt::Instr { mn: mn.clone(), form: *form, operand: operand.as_ref().map(f) },
        Stmt::Data { size, vals } => Stmt::Data { size: *size, vals: vals.iter().map(f).collect() },
        Stmt::Text { enc, e } => Stmt::Text { enc: *enc, e: f(e) },
        Stmt::Label { name, block } => Stmt::Label { name: name.clone(), block: block.as_ref().map(mb) },
        Stmt::Braces(b) => Stmt::Braces(mb(b)),
        Stmt::Const { name, e } => Stmt::Const { name: name.clone(), e: f(e) },
        Stmt::Var { name, e } => Stmt::Var { name: name.clone(), e: f(e) },
        Stmt::SetPc(e) => Stmt::SetPc(f(e)),
        Stmt::Align(e) => Stmt::Align(f(e)),
        Stmt::Loop { count, body } => Stmt::Loop { count: f(count), body: if into_loops { mb(body) } else { body.clone() } },
        Stmt::If { cond, then, els } => Stmt::If { cond: f(cond), then: mb(then), els: els.as_ref().map(mb) },
        Stmt::MacroDef { name, params, body } => Stmt::MacroDef { name: name.clone(), params: params.clone(), body: mb(body) },
        Stmt::MacroCall { name, args } => Stmt::MacroCall { name: name.clone(), args: args.iter().map(f).collect() },
        Stmt::Segment { name, block } => Stmt::Segment { name: name.clone(), block: block.as_ref().map(mb) },
        Stmt::Test { name, body } => Stmt::Test { name: name.clone(), body: mb(body) },
        Stmt::Assert { e, msg } => Stmt::Assert { e: f(e), msg: msg.clone() },
        Stmt::Import { args, file, block } => Stmt::Import { args: args.clone(), file: file.clone(), block: block.as_ref().map(mb) },
        other => other.clone(),
    }
}

impl Expander {
    pub fn new(kinds: Kinds) -> Expander {
        Expander { kinds, consts: BTreeMap::new(), macros: BTreeMap::new(), expanded: 0, nesting: 0, fresh: 0 }
    }

    fn eval(&self, e: &Expr) -> Option<Value> {
        eval::eval(e, &mut PureEnv { consts: &self.consts }).ok()
    }

    fn collect(&mut self, body: &[Stmt], top: bool) {
        for s in body {
            match s {
                Stmt::Const { name, e } | Stmt::Var { name, e } if top => {
                    if let Some(v) = self.eval(e) {
                        self.consts.insert(name.clone(), v);
                    }
                }
                Stmt::MacroDef { name, params, body } => {
                    self.macros.insert(name.clone(), (params.clone(), body.clone()));
                }
                _ => {}
            }
        }
    }

    /// expand a block; `depth` counts enclosing expanded constructs
    fn block(&mut self, body: &[Stmt], depth: usize) -> Option<Vec<Stmt>> {
        let mut out = vec![];
        for s in body {
            match s {
                Stmt::Loop { count, body: b } if self.kinds.loops => {
                    let n = match self.eval(count)? {
                        Value::Int(n) => n,
                        _ => return None,
                    };
                    self.expanded += 1;
                    self.nesting = self.nesting.max(depth + 1);
                    for i in 0..n.max(0) {
                        let idx = Expr::num(i);
                        // `index` of this loop: not inside nested loop bodies (they have their own index), but in their counts
                        let sub: Vec<Stmt> = b.iter().map(|st| map_exprs(st, &|e| subst_expr(e, "index", &idx), false)).collect();
                        let inner = self.block(&sub, depth + 1)?;
                        out.push(Stmt::Braces(inner));
                    }
                }
                Stmt::If { cond, then, els } if self.kinds.ifs => {
                    let c = match self.eval(cond)? {
                        Value::Int(n) => n,
                        _ => return None,
                    };
                    self.expanded += 1;
                    self.nesting = self.nesting.max(depth + 1);
                    let chosen: &[Stmt] = if c != 0 {
                        then
                    } else {
                        match els {
                            Some(e) => e,
                            None => &[],
                        }
                    };
                    out.extend(self.block(chosen, depth + 1)?);
                }
                Stmt::MacroCall { name, args } if self.kinds.macros => {
                    let (params, mbody) = self.macros.get(name)?.clone();
                    if params.len() != args.len() {
                        return None;
                    }
                    self.expanded += 1;
                    self.nesting = self.nesting.max(depth + 1);
                    let mut inner: Vec<Stmt> = vec![];
                    for (p, a) in params.iter().zip(args) {
                        // the argument is written in the caller's scope; inside the new braces an explicit `super`
                        // path needs one more step out to mean the same thing
                        inner.push(Stmt::Const { name: p.clone(), e: Expr::Paren(Box::new(add_super(a))) });
                    }
                    // the arguments are evaluated where the invocation stands: a name in an argument must not be captured
                    // by a definition of the macro body, so the body gets a scope of its own inside the parameters'
                    if params.is_empty() {
                        inner.extend(self.block(&mbody, depth + 1)?);
                    } else {
                        inner.push(Stmt::Braces(self.block(&mbody, depth + 1)?));
                    }
                    out.push(Stmt::Braces(inner));
                }
                Stmt::MacroDef { .. } if self.kinds.macros => {
                    // definition no longer needed once every call is expanded
                }
                Stmt::Const { name, .. } if self.kinds.consts && depth == 0 && self.consts.contains_key(name) => {
                    // replaced everywhere by its parenthesised value
                    self.expanded += 1;
                }
                other => {
                    let mut st = other.clone();
                    if self.kinds.consts {
                        let consts = self.consts.clone();
                        st = map_exprs(&st, &|e| {
                            let mut cur = e.clone();
                            for (n, v) in &consts {
                                cur = subst_expr(&cur, n, &lit_of(v));
                            }
                            cur
                        }, true);
                    }
                    // recurse into child blocks
                    st = match st {
                        Stmt::Label { name, block: Some(b) } => Stmt::Label { name, block: Some(self.block(&b, depth)?) },
                        Stmt::Braces(b) => Stmt::Braces(self.block(&b, depth)?),
                        Stmt::Loop { count, body } => Stmt::Loop { count, body: self.block(&body, depth)? },
                        Stmt::If { cond, then, els } => Stmt::If {
                            cond,
                            then: self.block(&then, depth)?,
                            els: match els {
                                Some(e) => Some(self.block(&e, depth)?),
                                None => None,
                            },
                        },
                        Stmt::MacroDef { name, params, body } => Stmt::MacroDef { name, params, body: self.block(&body, depth)? },
                        Stmt::Segment { name, block: Some(b) } => Stmt::Segment { name, block: Some(self.block(&b, depth)?) },
                        o => o,
                    };
                    out.push(st);
                }
            }
        }
        let _ = &mut self.fresh;
        Some(out)
    }
}

/// Expand the selected construct kinds in a single-file program. None = not expandable (e.g. impure count).
pub fn expand(prog: &Program, kinds: Kinds) -> Option<(Program, usize, usize)> {
    let mut ex = Expander::new(kinds);
    let main = prog.main();
    ex.collect(main, true);
    // constants that are defined more than once anywhere (shadowing) are not substituted
    let mut counts: BTreeMap<String, usize> = BTreeMap::new();
    for body in prog.files.values() {
        visit_stmts(body, &mut |s| match s {
            Stmt::Const { name, .. } | Stmt::Var { name, .. } | Stmt::Label { name, .. } => *counts.entry(name.clone()).or_insert(0) += 1,
            Stmt::MacroDef { params, .. } => {
                for p in params {
                    *counts.entry(p.clone()).or_insert(0) += 1;
                }
            }
            _ => {}
        });
    }
    // variables are not substituted (sequential semantics); keep only single-definition constants
    let mut is_var: Vec<String> = vec![];
    visit_stmts(main, &mut |s| {
        if let Stmt::Var { name, .. } = s {
            is_var.push(name.clone());
        }
    });
    if !kinds.consts {
        // values are still needed to evaluate loop counts / conditions
    }
    // a constant that is used through a dotted / `super` path somewhere is left alone
    let mut pathed: Vec<String> = vec![];
    {
        fn scan(b: &[Stmt], out: &mut Vec<String>) {
            for s in b {
                let mut f = |p: &Vec<String>| {
                    if p.len() > 1 {
                        out.push(p.last().unwrap().clone());
                    }
                };
                match s {
                    Stmt::Instr { operand: Some(e), .. } => e.visit_ids(&mut f),
                    Stmt::Data { vals, .. } => vals.iter().for_each(|e| e.visit_ids(&mut f)),
                    Stmt::Text { e, .. } | Stmt::Const { e, .. } | Stmt::Var { e, .. } | Stmt::SetPc(e) | Stmt::Align(e) => e.visit_ids(&mut f),
                    Stmt::Loop { count, .. } => count.visit_ids(&mut f),
                    Stmt::If { cond, .. } => cond.visit_ids(&mut f),
                    Stmt::MacroCall { args, .. } => args.iter().for_each(|e| e.visit_ids(&mut f)),
                    _ => {}
                }
                for c in s.children() {
                    scan(c, out);
                }
            }
        }
        for body in prog.files.values() {
            scan(body, &mut pathed);
        }
    }
    let subst_ok: BTreeMap<String, Value> = ex
        .consts
        .iter()
        .filter(|(n, _)| counts.get(*n) == Some(&1) && !is_var.contains(n) && !pathed.contains(n))
        .map(|(n, v)| (n.clone(), v.clone()))
        .collect();
    let all_consts = ex.consts.clone();
    if kinds.consts {
        ex.consts = subst_ok;
    }
    // evaluation of counts needs every pure value: evaluate with all, substitute with the safe subset
    let mut out_main;
    if kinds.consts {
        // two-stage: first expand everything else with all values known, then substitute
        let mut ex2 = Expander::new(Kinds { consts: false, ..kinds });
        ex2.consts = all_consts;
        ex2.macros = ex.macros.clone();
        out_main = ex2.block(main, 0)?;
        let mut ex3 = Expander::new(Kinds { loops: false, ifs: false, macros: false, consts: true });
        ex3.consts = ex.consts.clone();
        out_main = ex3.block(&out_main, 0)?;
        ex.expanded = ex2.expanded + ex3.expanded;
        ex.nesting = ex2.nesting;
    } else {
        out_main = ex.block(main, 0)?;
    }
    crate::gen::build::separate_ambiguous(&mut out_main);
    let mut p = prog.clone();
    *p.main_mut() = out_main;
    Some((p, ex.expanded, ex.nesting))
}


/// pure (label-free) constants and variables defined at the top level of the main file, evaluated
pub fn pure_consts(prog: &Program) -> BTreeMap<String, Value> {
    let mut ex = Expander::new(Kinds::ALL);
    ex.collect(prog.main(), true);
    ex.consts
}

pub fn eval_with(consts: &BTreeMap<String, Value>, e: &Expr) -> Option<Value> {
    eval::eval(e, &mut PureEnv { consts }).ok()
}
