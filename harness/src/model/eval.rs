//! Reference expression evaluator and text encodings (no mos code).

use crate::gen::ast::{BinOp, Encoding, Expr, StrPart};
use serde::{Deserialize, Serialize};

#[derive(Clone, Debug, PartialEq, Eq, Hash, Serialize, Deserialize)]
pub enum Value {
    Int(i64),
    Str(String),
}

#[derive(Clone, Debug, PartialEq, Eq)]
pub enum EvalErr {
    /// outside the guarded arithmetic domain (overflow, division by zero, shift count)
    OutOfDomain(String),
    Undefined(Vec<String>),
    Type(String),
    Cycle,
    Unsupported(String),
}

pub trait Env {
    fn lookup(&mut self, path: &[String]) -> Result<Value, EvalErr>;
    fn defined(&mut self, path: &[String]) -> Result<bool, EvalErr>;
    fn pc(&mut self) -> Result<i64, EvalErr>;
    fn call(&mut self, name: &str, _args: &[Value]) -> Result<Value, EvalErr> {
        Err(EvalErr::Unsupported(format!("function {}", name)))
    }
}

fn chk(v: i128, what: &str) -> Result<i64, EvalErr> {
    if v > i64::MAX as i128 || v < i64::MIN as i128 {
        Err(EvalErr::OutOfDomain(format!("overflow in {}", what)))
    } else {
        Ok(v as i64)
    }
}

pub fn apply_int(op: BinOp, l: i64, r: i64) -> Result<i64, EvalErr> {
    let (a, b) = (l as i128, r as i128);
    Ok(match op {
        BinOp::Add => chk(a + b, "+")?,
        BinOp::Sub => chk(a - b, "-")?,
        BinOp::Mul => chk(a * b, "*")?,
        BinOp::Div => {
            if r == 0 {
                return Err(EvalErr::OutOfDomain("division by zero".into()));
            }
            // truncating division, as in every mainstream language
            chk(a / b, "/")?
        }
        BinOp::Mod => {
            if r == 0 {
                return Err(EvalErr::OutOfDomain("modulo by zero".into()));
            }
            chk(a % b, "%")?
        }
        BinOp::Shl => {
            if !(0..=31).contains(&r) {
                return Err(EvalErr::OutOfDomain("shift count".into()));
            }
            chk(a << (r as u32), "<<")?
        }
        BinOp::Shr => {
            if !(0..=31).contains(&r) {
                return Err(EvalErr::OutOfDomain("shift count".into()));
            }
            // arithmetic shift (floor division by 2^r)
            chk(a >> (r as u32), ">>")?
        }
        BinOp::Xor => l ^ r,
        BinOp::Eq => (l == r) as i64,
        BinOp::Ne => (l != r) as i64,
        BinOp::Gt => (l > r) as i64,
        BinOp::GtEq => (l >= r) as i64,
        BinOp::Lt => (l < r) as i64,
        BinOp::LtEq => (l <= r) as i64,
        BinOp::And => (l != 0 && r != 0) as i64,
        BinOp::Or => (l != 0 || r != 0) as i64,
    })
}

pub fn eval(e: &Expr, env: &mut dyn Env) -> Result<Value, EvalErr> {
    match e {
        Expr::Num { v, .. } => Ok(Value::Int(*v)),
        Expr::Bool(b) => Ok(Value::Int(*b as i64)),
        Expr::Id { path, modifier } => {
            let v = env.lookup(path)?;
            match (v, modifier) {
                (Value::Int(n), Some('<')) => Ok(Value::Int(n & 0xff)),
                (Value::Int(n), Some('>')) => Ok(Value::Int((n >> 8) & 0xff)),
                (v, None) => Ok(v),
                (Value::Str(_), Some(_)) => Err(EvalErr::Type("modifier on string".into())),
                (_, Some(c)) => Err(EvalErr::Unsupported(format!("modifier {}", c))),
            }
        }
        Expr::Pc => Ok(Value::Int(env.pc()?)),
        Expr::Paren(inner) => eval(inner, env),
        Expr::Neg(inner) => match eval(inner, env)? {
            Value::Int(n) => Ok(Value::Int(chk(-(n as i128), "unary -")?)),
            _ => Err(EvalErr::Type("negating a string".into())),
        },
        Expr::Not(inner) => match eval(inner, env)? {
            Value::Int(n) => Ok(Value::Int((n == 0) as i64)),
            _ => Err(EvalErr::Type("! on a string".into())),
        },
        Expr::Defined(path) => Ok(Value::Int(env.defined(path)? as i64)),
        Expr::Call(name, args) => {
            let mut vals = vec![];
            for a in args {
                vals.push(eval(a, env)?);
            }
            env.call(name, &vals)
        }
        Expr::Bin(l, op, r) => {
            let lv = eval(l, env)?;
            let rv = eval(r, env)?;
            match (lv, rv) {
                (Value::Int(a), Value::Int(b)) => Ok(Value::Int(apply_int(*op, a, b)?)),
                (Value::Str(a), Value::Str(b)) => match op {
                    BinOp::Add => Ok(Value::Str(a + &b)),
                    BinOp::Eq => Ok(Value::Int((a == b) as i64)),
                    BinOp::Ne => Ok(Value::Int((a != b) as i64)),
                    _ => Err(EvalErr::Type(format!("{} on strings", op.text()))),
                },
                _ => Err(EvalErr::Type("mixed string/integer operands".into())),
            }
        }
        Expr::Str(parts) => {
            let mut s = String::new();
            for p in parts {
                match p {
                    StrPart::Lit(l) => s.push_str(l),
                    StrPart::Interp(path) => match env.lookup(path)? {
                        Value::Int(n) => s.push_str(&n.to_string()),
                        Value::Str(t) => s.push_str(&t),
                    },
                }
            }
            Ok(Value::Str(s))
        }
    }
}

/// The characters on which PETSCII is unambiguous (plus upper-case letters, which have two codes).
pub fn petscii_safe(c: char) -> bool {
    c.is_ascii_lowercase()
        || c.is_ascii_digit()
        || c.is_ascii_uppercase()
        || (' '..='?').contains(&c) && c != '"'
        || c == '@'
        || c == '['
        || c == ']'
}

/// For every character the set of acceptable encodings (more than one for upper-case letters).
pub fn encode_options(s: &str, enc: Encoding) -> Option<Vec<Vec<u8>>> {
    match enc {
        Encoding::Default | Encoding::Ascii => Some(s.bytes().map(|b| vec![b]).collect()),
        Encoding::Petscii | Encoding::Petscreen => {
            let mut out = vec![];
            for c in s.chars() {
                if !petscii_safe(c) {
                    return None;
                }
                let pets: Vec<u8> = if c.is_ascii_lowercase() {
                    vec![c as u8 - 0x20]
                } else if c.is_ascii_uppercase() {
                    vec![c as u8 + 0x80, c as u8 + 0x20]
                } else {
                    vec![c as u8]
                };
                if enc == Encoding::Petscii {
                    out.push(pets);
                } else {
                    out.push(
                        pets.into_iter()
                            .map(|p| match p {
                                0x20..=0x3f => p,
                                0x40..=0x5f => p - 0x40,
                                0x60..=0x7f => p - 0x20,
                                0xc0..=0xdf => p - 0x80,
                                _ => p,
                            })
                            .collect(),
                    );
                }
            }
            Some(out)
        }
    }
}

pub fn matches_encoding(bytes: &[u8], s: &str, enc: Encoding) -> Option<bool> {
    let opts = encode_options(s, enc)?;
    if opts.len() != bytes.len() {
        return Some(false);
    }
    Some(opts.iter().zip(bytes).all(|(o, b)| o.contains(b)))
}

pub fn low_bytes(v: i64, n: usize) -> Vec<u8> {
    (0..n).map(|i| ((v >> (8 * i)) & 0xff) as u8).collect()
}
