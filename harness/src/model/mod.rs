pub mod eval;
pub mod isa;
pub mod layout;
pub mod expand;
pub mod cpu;
