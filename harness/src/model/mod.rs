pub mod isa;
