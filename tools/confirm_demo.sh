#!/bin/bash
# usage: tools/confirm_demo.sh <demo dir> [mos sub-command, default build]
# Runs the unchanged mos (/verif/target/sut) and the changed one (scratch copy of tools/seeded.sh) on every project
# (directory with a mos.toml) below the demo directory and shows whether exit status, messages or output files differ.
DEMO="$1"; CMD="${2:-build}"
A=/verif/target/sut/debug/mos; B=${COPY:-/tmp/mosmut}/target-sut/debug/mos
for t in $(find "$DEMO" -name mos.toml | sort); do
  d=$(dirname $t)
  for side in A B; do
    w=/tmp/confirm_$side; rm -rf $w; cp -r $d $w; rm -rf $w/target
    bin=$A; [ $side = B ] && bin=$B
    ( cd $w && $bin $CMD > out.txt 2>&1; echo "exit=$?" >> out.txt; find target -type f 2>/dev/null | sort | while read f; do echo "$f $(xxd -p $f | tr -d '\n' | cut -c1-200)"; done >> out.txt )
  done
  if diff -q /tmp/confirm_A/out.txt /tmp/confirm_B/out.txt >/dev/null; then echo "SAME   $d"; else echo "DIFFER $d"; diff /tmp/confirm_A/out.txt /tmp/confirm_B/out.txt | sed 's/\x1b\[[0-9;]*m//g' | cut -c1-160 | head -8; fi
done
rm -rf /tmp/confirm_A /tmp/confirm_B
