#!/bin/bash
# usage: tools/mutant.sh <check-id> <file-relative-to-repo> <python-replace-old> <python-replace-new> [extra check ids...]
# Applies one textual mutation to a scratch copy of /repo, runs the repository's own tests there
# (a mutant the suite kills is reported as such), then runs the quick check(s) against the copy.
set -u
ID="$1"; FILE="$2"; OLD="$3"; NEW="$4"; shift 4
COPY=/tmp/mosmut
mkdir -p $COPY
rsync -rlpc --delete --exclude target --exclude .git /repo/ $COPY/repo/
touch $COPY/repo/mos-core/src/lib.rs $COPY/repo/mos/src/main.rs
python3 - "$COPY/repo/$FILE" "$OLD" "$NEW" <<'PY'
import sys
p,old,new=sys.argv[1:4]
s=open(p).read()
n=s.count(old)
if n!=1:
    print("MUTATION PATTERN COUNT",n); sys.exit(3)
open(p,'w').write(s.replace(old,new,1))
PY
[ $? -eq 0 ] || exit 3
if [ "${SKIP_SUITE:-0}" != "1" ]; then
  ( cd $COPY/repo && cargo test --workspace --no-fail-fast --offline --target-dir $COPY/target-suite 2>&1 | grep -E "^test result|FAILED" | head -5 )
fi
export VERIF_DIR=$COPY/verif
mkdir -p $VERIF_DIR
cp /verif/known-findings.jsonl $VERIF_DIR/
rm -rf $VERIF_DIR/corpus; [ -d /verif/corpus ] && cp -r /verif/corpus $VERIF_DIR/
export RUSTFLAGS="--cfg mos_verif"
( cd /verif/harness && cargo build --release --offline --config "paths=[\"$COPY/repo/mos-core\"]" --target-dir $COPY/target-harness 2>&1 | grep -E "^error" -A5 | head -20 )
( cargo build --offline -p mos --manifest-path $COPY/repo/Cargo.toml --target-dir $COPY/target-sut 2>&1 | grep -E "^error" -A5 | head )
export MOS_BIN=$COPY/target-sut/debug/mos
for id in $ID "$@"; do
  $COPY/target-harness/release/mv $id --tier quick 2>&1 | grep -E "VIOLATION|signature|^C[0-9]+ quick|HEALTH" | head -8
  echo "exit=$?"
done
