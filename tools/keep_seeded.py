#!/usr/bin/env python3
"""usage: tools/keep_seeded.py <id> <srcdir(_out)> <name> '<json: results>'
Copies a confirmed seeded change to /verif/seeded/<name>/ and records which checks caught it."""
import sys, json, shutil, os
pid, src, name, res = sys.argv[1:5]
dst = f'/verif/seeded/{name}'
if os.path.exists(dst): shutil.rmtree(dst)
os.makedirs(dst)
shutil.copy(f'{src}/patch.diff', dst)
if os.path.isdir(f'{src}/demo'): shutil.copytree(f'{src}/demo', f'{dst}/demo', ignore=shutil.ignore_patterns('target'))
meta = json.load(open(f'{src}/meta.json'))
meta['written_for'] = pid
meta['results'] = json.loads(res)
json.dump(meta, open(f'{dst}/meta.json', 'w'), indent=1)
print('kept', dst)
