#!/usr/bin/env python3
"""Runs every textual mutant of tools/mutants.json and every seeded change under seeded/ against the quick checks,
each in a scratch copy of /repo (never in /repo), and writes seeded/RESULTS.json + prints a table.
usage: tools/sensitivity.py [mutants|seeded|all] [ids...]
"""
import json, os, subprocess, sys, glob, re, time
V = '/verif'
COPY = os.environ.get('COPY', '/tmp/mossens')
def sh(cmd, **kw):
    return subprocess.run(cmd, shell=True, capture_output=True, text=True, **kw)
def snapshot():
    # one snapshot of the repository and of the harness sources: later edits of either do not leak into a running batch
    os.makedirs(COPY, exist_ok=True)
    sh(f"rsync -rlpc --delete --exclude target --exclude .git --exclude _out /repo/ {COPY}/repo-orig/")
    sh(f"rsync -rlpc --delete --exclude fuzz {V}/harness/ {COPY}/harness-src/")
    sh(f"rm -rf {COPY}/verif-orig; mkdir -p {COPY}/verif-orig; cp {V}/known-findings.jsonl {COPY}/verif-orig/; cp -r {V}/corpus {COPY}/verif-orig/")
def prepare():
    sh(f"rsync -rlpc --delete {COPY}/repo-orig/ {COPY}/repo/")
    sh(f"touch {COPY}/repo/mos-core/src/lib.rs {COPY}/repo/mos/src/main.rs")
def suite():
    r = sh(f"cd {COPY}/repo && cargo test --workspace --no-fail-fast --offline --target-dir {COPY}/target-suite 2>&1")
    out = r.stdout
    failed = re.findall(r"^test (\S+) \.\.\. FAILED", out, re.M)
    compiled = 'error: could not compile' not in out and 'error[' not in out
    return compiled, [f for f in failed if 'vice::tests::stop_resume' not in f]
def build():
    env = f'RUSTFLAGS="--cfg mos_verif" CARGO_NET_OFFLINE=true'
    r1 = sh(f'cd {COPY}/harness-src && {env} cargo build --release --offline --config \'paths=["{COPY}/repo/mos-core"]\' --target-dir {COPY}/target-harness 2>&1')
    r2 = sh(f'{env} cargo build --offline -p mos --manifest-path {COPY}/repo/Cargo.toml --target-dir {COPY}/target-sut 2>&1')
    return r1.returncode == 0 and r2.returncode == 0
def check(cid, seed=1):
    vd = f"{COPY}/verif"
    sh(f"rm -rf {vd}; cp -r {COPY}/verif-orig {vd}")
    t0 = time.time()
    r = sh(f'VERIF_DIR={vd} MOS_BIN={COPY}/target-sut/debug/mos VERIF_SEED={seed} {COPY}/target-harness/release/mv {cid} --tier quick 2>&1')
    sigs = sorted(set(re.findall(r"signature: (.*)", r.stdout)))
    return {"exit": r.returncode, "signatures": sigs[:4], "secs": round(time.time() - t0, 1)}
def run_one(kind, ident, apply, checks):
    prepare()
    ok = apply()
    if not ok:
        return {"id": ident, "kind": kind, "applied": False}
    compiled, failed = suite()
    res = {"id": ident, "kind": kind, "applied": True, "compiles": compiled, "suite_failures": failed, "checks": {}}
    if compiled and not failed and build():
        for c in checks:
            res["checks"][c] = check(c)
    return res
def main():
    what = sys.argv[1] if len(sys.argv) > 1 else 'all'
    only = set(sys.argv[2:])
    snapshot()
    results = []
    if what in ('mutants', 'all'):
        for m in json.load(open(f'{V}/tools/mutants.json')):
            if only and m['id'] not in only: continue
            def apply(m=m):
                p = f"{COPY}/repo/{m['file']}"; s = open(p).read()
                if s.count(m['old']) != 1: return False
                open(p, 'w').write(s.replace(m['old'], m['new'], 1)); return True
            r = run_one('mutant', m['id'], apply, m['checks']); r['what'] = m['what']; results.append(r); print(json.dumps(r), flush=True)
    if what in ('seeded', 'all'):
        for d in sorted(glob.glob(f'{V}/seeded/*/patch.diff')):
            ident = os.path.basename(os.path.dirname(d))
            if only and ident not in only: continue
            def apply(d=d):
                return sh(f"cd {COPY}/repo && patch -p1 --no-backup-if-mismatch < {d}").returncode == 0
            meta = json.load(open(os.path.dirname(d) + '/meta.json'))
            r = run_one('seeded', ident, apply, [meta.get('written_for', ident)]); r['what'] = meta['summary']; results.append(r); print(json.dumps(r), flush=True)
    out = f'{V}/seeded/RESULTS.json'
    old = []
    if os.path.exists(out) and only:
        old = [r for r in json.load(open(out)) if r['id'] not in {x['id'] for x in results}]
    elif os.path.exists(out) and what != 'all':
        old = [r for r in json.load(open(out)) if r['kind'] != results[0]['kind']] if results else json.load(open(out))
    json.dump(old + results, open(out, 'w'), indent=1)
main()
