#!/bin/bash
# usage: tools/seeded.sh <patch.diff> <check-id> [more check ids...]
# Applies a seeded change (a git diff) to a scratch copy of /repo (never to /repo itself), runs the repository's own
# suite there unless SKIP_SUITE=1, builds the harness and the mos binary against the copy and runs the quick checks.
# Env: COPY (scratch dir, default /tmp/mosmut), TIER (default quick), SEEDS (default "1")
set -u
PATCH="$1"; shift
COPY=${COPY:-/tmp/mosmut}
TIER=${TIER:-quick}
SEEDS=${SEEDS:-1}
mkdir -p $COPY
# (checksum-based and without preserving times: a file that is restored after a previous patch gets a new mtime, so that
# cargo rebuilds the crate it belongs to instead of reusing an artifact that still contains the previous patch)
rsync -rlpc --delete --exclude target --exclude .git --exclude _out /repo/ $COPY/repo/
# always rebuild both crates from what is in the copy now
touch $COPY/repo/mos-core/src/lib.rs $COPY/repo/mos/src/main.rs
( cd $COPY/repo && patch -p1 --no-backup-if-mismatch < "$PATCH" ) || { echo "PATCH DID NOT APPLY"; exit 3; }
if [ "${SKIP_SUITE:-0}" != "1" ]; then
  ( cd $COPY/repo && cargo test --workspace --no-fail-fast --offline --target-dir $COPY/target-suite 2>&1 | grep -E "^test result|FAILED|^error" | head -8 )
fi
export VERIF_DIR=$COPY/verif
mkdir -p $VERIF_DIR
cp /verif/known-findings.jsonl $VERIF_DIR/
rm -rf $VERIF_DIR/corpus $VERIF_DIR/replay; [ -d /verif/corpus ] && cp -r /verif/corpus $VERIF_DIR/
export RUSTFLAGS="--cfg mos_verif"
( cd /verif/harness && cargo build --release --offline --config "paths=[\"$COPY/repo/mos-core\"]" --target-dir $COPY/target-harness 2>&1 | grep -E "^error" -A5 | head -20 )
( cargo build --offline -p mos --manifest-path $COPY/repo/Cargo.toml --target-dir $COPY/target-sut 2>&1 | grep -E "^error" -A5 | head )
export MOS_BIN=$COPY/target-sut/debug/mos
for id in "$@"; do
  for seed in $SEEDS; do
    out=$(VERIF_SEED=$seed $COPY/target-harness/release/mv $id --tier $TIER 2>&1); code=$?
    echo "$id seed=$seed exit=$code $(echo "$out" | grep -E "^C[0-9]+ $TIER" | tail -1)"
    echo "$out" | grep -E "^VIOLATION|signature|HEALTH" | head -8
  done
done
