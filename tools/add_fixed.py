#!/usr/bin/env python3
"""usage: tools/add_fixed.py <property> <signature> <commit> <what failed>   (appends a 'fixed' entry to known-findings.jsonl)"""
import json, sys
prop, sig, commit, what = sys.argv[1:5]
line = {"property": prop, "signature": sig, "status": "fixed", "commit": commit,
        "what": "fixed: property=%s %s %s" % (prop, commit, what)}
with open('/verif/known-findings.jsonl', 'a') as f:
    f.write(json.dumps(line) + "\n")
