#!/bin/bash
# usage: tools/fuzz_run.sh <C05|C06> [runs]
# Coverage-guided companion of the C05/C06 thorough tier: builds the libFuzzer target harness/fuzz (target `pipeline`,
# oracles of C05 and C06 inside) from /repo's working tree and runs it for a fixed number of executions from a fresh
# corpus seeded with the repository's example sources. A crash artifact that the target attributes to this property is
# turned into a replay file of ./check and reported as a violation; time-outs and out-of-memory are ignored
# (inconclusive, never a violation). Appends a `fuzz` section to evidence/<id>.json.
set -u
ID="$1"; RUNS="${2:-600000}"
V="$(cd "$(dirname "$0")/.." && pwd)"
export CARGO_NET_OFFLINE=true RUSTFLAGS="--cfg mos_verif"
LOG="$V/target/fuzz-build.log"
( cd "$V/harness/fuzz" && cp ../Cargo.lock . 2>/dev/null; CARGO_TARGET_DIR="$V/target/fuzz" cargo +nightly fuzz build -s none ) >"$LOG" 2>&1 || { echo "fuzz target build failed (see $LOG)" >&2; tail -20 "$LOG" >&2; exit 2; }
BIN="$V/target/fuzz/x86_64-unknown-linux-gnu/release/pipeline"
W="$V/target/fuzz-work/$ID"; rm -rf "$W"; mkdir -p "$W/corpus" "$W/art"
find /repo/examples /repo/mos/test-data /repo/mos-core/test-data -name '*.asm' -size -4k 2>/dev/null | sort | head -60 | while read f; do cp "$f" "$W/corpus/$(echo "$f" | md5sum | cut -c1-10).asm"; done
for f in "$V"/corpus/C05/*.json; do jq -r '.case.raw_text // empty' "$f" > "$W/corpus/c05-$(basename "$f" .json).asm" 2>/dev/null; done
SEED="${VERIF_SEED:-1}"; [ "$SEED" = "0" ] && SEED=1
T0=$(date +%s)
( cd "$W" && "$BIN" corpus -runs="$RUNS" -seed="$SEED" -max_len=2048 -timeout=25 -rss_limit_mb=4096 -fork=16 -ignore_timeouts=1 -ignore_ooms=1 -ignore_crashes=1 -artifact_prefix="$W/art/" ) > "$W/fuzz.log" 2>&1
T1=$(date +%s)
STATS=$(grep -E "^#[0-9]+: cov:" "$W/fuzz.log" | tail -1)
EXECS=$(echo "$STATS" | sed -E 's/^#([0-9]+):.*/\1/'); COV=$(echo "$STATS" | sed -E 's/.*cov: ([0-9]+).*/\1/'); CORP=$(echo "$STATS" | sed -E 's/.*corp: ([0-9]+).*/\1/')
RC=0; NV=0; SEEN=""
mkdir -p "$V/replay/$ID"
for a in "$W"/art/crash-*; do
  [ -f "$a" ] || continue
  OUT=$("$BIN" "$a" 2>&1 | grep -A3 "^FUZZ-FAILURE" | head -4)
  PROP=$(echo "$OUT" | sed -nE 's/^FUZZ-FAILURE property=(C[0-9]+).*/\1/p' | head -1)
  KIND=$(echo "$OUT" | sed -nE 's/^FUZZ-FAILURE property=C[0-9]+ kind=(.*)/\1/p' | head -1)
  # (a crash without a FUZZ-FAILURE line is an abort of the code under test itself, e.g. a stack overflow: C06's)
  [ -z "$PROP" ] && PROP=C06 && KIND="process-aborted"
  [ "$PROP" = "$ID" ] || continue
  # one report per failure kind
  echo "$SEEN" | grep -qxF "$KIND" && continue
  SEEN="$SEEN
$KIND"
  R="$V/replay/$ID/fuzz-$(basename "$a").json"
  if [ "$ID" = "C05" ]; then jq -Rs '{case: {raw_text: .}, signature: ("C05|" + $k), detail: "found by the coverage-guided target"}' --arg k "$KIND" "$a" > "$R"
  else jq -Rs '{case: {raw_project: {files: {"main.asm": .}, entry: "main.asm"}}, signature: ("C06|" + $k), detail: "found by the coverage-guided target"}' --arg k "$KIND" "$a" > "$R"; fi
  # the replay decides (known findings are honoured there)
  "$V/check" "$ID" --replay "$R" > "$W/replay.out" 2>&1; RR=$?
  if [ $RR -eq 1 ]; then grep -E "^VIOLATION|signature" "$W/replay.out"; RC=1; NV=$((NV+1)); fi
done
E2="$V/evidence/$ID.json"
if [ -f "$E2" ]; then
  jq --argjson execs "${EXECS:-0}" --argjson cov "${COV:-0}" --argjson corp "${CORP:-0}" --argjson secs "$((T1-T0))" --argjson nv "$NV" --argjson runs "$RUNS" \
    '.coverage.fuzz = {engine: "libFuzzer (cargo-fuzz), fork=16, sanitizer none (no unsafe code in the two crates)", target: "harness/fuzz/fuzz_targets/pipeline.rs", executions: $execs, requested: $runs, edge_coverage: $cov, corpus_size: $corp, wall_s: $secs, violations: $nv, note: "fresh corpus seeded with the repository example sources; inputs outside the check domain (fuzz_domain) are skipped by the target; time-outs and OOMs ignored"}' "$E2" > "$E2.tmp" && mv "$E2.tmp" "$E2"
fi
echo "$ID fuzz: executions=${EXECS:-0} edge_coverage=${COV:-0} corpus=${CORP:-0} violations=$NV wall=$((T1-T0))s"
exit $RC
