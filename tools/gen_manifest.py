#!/usr/bin/env python3
"""Regenerates /verif/MANIFEST.json from the table below (single source of truth)."""
import json, os, subprocess
HERE = os.path.dirname(os.path.dirname(os.path.abspath(__file__)))

CHECKS = {
 "C01": dict(
   technique="exhaustive enumeration of the form/branch/pair spaces + proptest random operands against an independent ISA table (differential oracle) and a concatenation metamorphic relation",
   text="Every (mnemonic, syntactic form, boundary operand, operand kind) cell, every branch distance -140..140 in three shapes and several origins, and every ordered pair of 41 position-independent statement forms with 4 separators is assembled in-process and compared with a reference opcode table written from the ISA / with the concatenation of the parts; random operands on top. Exhaustive over the finite spaces the property names, sampled over operand values.",
   note="Trusts model/isa.rs (self-tested on ISA literals) and the in-process mos-core API (segments(), diagnostics) as the observation point; negative operands and operands above $FFFF on absolute forms are outside the stated outcome and only checked for 'error or low 16 bits'.",
   ref="§5 C01"),
 "C02": dict(
   technique="proptest over entropy-built programs; oracle = independent reference layout walk (image checker) + symbol-table/VICE comparison",
   text="Generated programs (all legal instruction forms, data, text, labels, nested scopes, label-difference constants, variables, pc assignments, .align, 1-3 segments incl. relocated ones and segments.x.end chains, super/dotted/shadowed names, origins on the zero-page boundary so that forward references flip instruction sizes) are assembled in-process; a reference walk recomputes every byte, label address and operand value from the final layout (reading only the zp/abs size choice from the image, so every self-consistent image is accepted) and compares image, symbol table and VICE text. A confirmation campaign covers the recorded finding region (forward reference to a shadowing definition).",
   note="Trusts the reference models (layout.rs/eval.rs/isa.rs). Programs the model cannot evaluate are counted as model-unsupported (health floor), not judged. Non-terminating or failing assemblies are counted, not judged (C06/C04). CLI image equality is covered by C09/C10.",
   ref="§5 C02"),
 "C03": dict(
   technique="proptest over value-tracked expression trees; oracle = independent reference evaluator (differential)",
   text="Expression trees up to depth 5 over all operators, radixes, modifiers, `*`, defined(), unary -/!, strings (concat, compare, interpolation) are placed in .byte/.word/.dword/.text/immediates of small programs; emitted bytes are compared with a reference evaluator. Values are kept inside the documented domain by construction; operators whose meaning on negative operands differs between conventions are only generated where all conventions agree.",
   note="Trusts model/eval.rs. The generator parenthesises wherever the documentation fixes no relative precedence, so only documented precedence/associativity is asserted.",
   ref="§5 C03"),
 "C05": dict(
   technique="proptest text generation + character mutation; round-trip oracle (print(parse(t)) == t up to case/CRLF) with the contrapositive 'text lost => diagnostic'",
   text="Rendered generator programs with random trivia (nested/multi-line/non-ASCII comments, CRLF, case flips) and concatenated fragments of the repository's example sources, each with 0-2 inserted/deleted/replaced characters from a list of hostile characters, are parsed in-process; whenever no diagnostic is reported the concatenated Display of the tokens must reproduce the text.",
   note="Case is compared after upper-casing both sides and CRLF after normalising both sides, the weakest comparison that still accounts for every character. Only the main file's tokens are printed (as the property states).",
   ref="§5 C05"),
 "C06": dict(
   technique="proptest over 10 project shapes run in sandboxed worker processes; crash/abort monitor + pass-state-digest cycle detector (hook) + output-or-diagnostic and span-validity predicates",
   text="Generated projects (grammar programs with hostile trivia, character mutations, example-source fragments, extreme integers as directive/operator/option arguments, import graphs incl. cycles and missing files, mutually dependent segments, nested loops with edge-of-range branches, operands within a few bytes of their limit, hostile names, nesting of every kind of block, parentheses, calls and configuration maps to 6000 levels and single expressions of up to 240000 terms, macros that invoke themselves through up to 60 blocks per level, operands that compute the most negative 64-bit value) go through parse, codegen as `mos build`, merge/listing/symbols, format and codegen in the language server's analysis mode inside worker sub-processes. A panic, an abnormal worker exit, a repeated pass-state digest (deterministic proof of non-termination), 'neither output nor diagnostic' or a diagnostic span outside the project is a violation.",
   note="A watchdog kill makes the run inconclusive (exit 2) unless every thread of the worker sleeps (a deadlock, which is a violation); reaching the pass bound without a digest repeat is inconclusive, never a violation; .loop/.align/bank-size arguments above 70000 are excluded by construction (termination not decidable without a clock). The coverage-guided target of the thorough tier stays below 48 levels of nesting and 4096 bytes. Invalid UTF-8 file contents are only reachable through the CLI (covered by C04's CLI runs, not here).",
   ref="§5 C06"),
 "C12": dict(
   technique="proptest over generated programs x trivia x formatter options; metamorphic oracle between input and formatted output (parse-clean, token skeleton, comment multiset/order, bytes and diagnostics)",
   text="Error-free generated programs (statements sharing a line: label + instruction, instruction or label behind an implied instruction) with comments placed in every kind of trivia slot and random formatter options are formatted in-process; the output must parse without diagnostics, keep the token sequence (text with comments/whitespace stripped, case folded), keep every comment in order and assemble to the same segment bytes and diagnostic messages. Comments carry serial numbers so a lost comment names the slot it stood in; slots/layouts that trigger recorded findings are switched off in the clean campaign and confirmed one campaign each.",
   note="In-process formatter (mos-core::formatting::format) on every file of the project; the CLI half of the property (`mos format` rewrites each file / leaves all untouched on a parse error) is checked by the CLI campaign of this check when MOS_BIN is available. Token equality is approximated by the comment/whitespace-stripped skeleton plus byte equality.",
   ref="§5 C12"),
 "C13": dict(
   technique="proptest, idempotence (round-trip) oracle format(format(p)) == format(p)",
   text="Same generator as C12 (programs x trivia x options); the formatter output is formatted again with the same options and must be unchanged for every file. Layouts that trigger the three recorded findings are excluded from the clean campaign and confirmed separately.",
   note="In-process formatter; inputs whose first formatting does not parse are C12's business and are not judged here.",
   ref="§5 C13"),
 "C07": dict(
   technique="proptest over entropy-built programs; metamorphic oracle bytes(P) == bytes(expand_k(P)) for k in {loops, ifs, macros, constants, all}, anchored by the reference layout model on P and expand_all(P)",
   text="Generated programs with nested loops (with `index`), constant conditionals, macros (with parameters, invoked anywhere incl. inside loops, defining labels) and pure constants, with outer and forward references in bodies, are compared with their hand expansion (model/expand.rs): both must assemble (or both be rejected) to identical segment images; the fully expanded program and the original are also checked byte-for-byte against the reference layout walk, so a bug common to both sides is not invisible.",
   note="Import expansion is not generated yet (single-file programs); brace scopes are exercised as part of every expansion (loop bodies and macro bodies become brace scopes). Constants reached through dotted/super paths and variables are left unexpanded.",
   ref="§5 C07"),
 "C08": dict(
   technique="proptest, metamorphic oracle: canonical rendering vs random trivia/case rendering of the same AST must give equal bytes, symbols and diagnostic messages",
   text="Each generated program is rendered twice from the same AST: canonically and with random trivia in every slot the grammar allows (spaces, tabs, block/line/nested/multi-line/non-ASCII comments containing code-like text, blank lines, CRLF) and random letter case of mnemonics, directives, registers, hex digits, as/from/else, encodings and true/false (upper and mixed case; the literals 0 and 1 are written as keywords in half of their places); segment bytes, the symbol table and the sorted diagnostic messages must be equal.",
   note="The slot catalogue is the renderer's (gen/ast.rs), derived from the grammar; slots where the grammar allows no trivia are never filled.",
   ref="§5 C08"),
 "C11": dict(
   technique="proptest over assembling generator programs x bytes-per-line x attribution mode; oracle = reference layout model's (statement, value) -> address-range relation; listing text parsed back (round trip against the image)",
   text="For generated programs that assemble (a third of those with explicit segments end in a segment whose last byte lies at $FFFF), the source map's address ranges must equal the reference walk's emission sites, each entry's span must lie inside the renderer-recorded source range of the statement/value that emitted it (or an enclosing macro invocation in listing mode), address lookup must return that entry, and the `.lst` text produced by to_listing, parsed back, must show every source line once and in order, rows whose bytes are the image bytes at the row's address, per-line bytes in emission order and every emitted byte exactly once.",
   note="In-process (CodegenContext::source_map, io::to_listing); the file naming of `mos build` listings is covered by C10. Lookup and row-address checks are skipped for programs whose segments overlap in target addresses (the source map carries no segment identity).",
   ref="§5 C11"),
 "C04": dict(
   technique="proptest fault injection: valid generated program + one generated fault (class x position); located-diagnostic predicate in-process and on `mos build` (exit status, stdout, target directory snapshot)",
   text="One fault of 11 classes is injected into a valid generated program at a generated position (semantic faults at live positions only: taken branches, invoked macros, loops with count >= 1; syntax faults anywhere). In-process runs (volume) demand a diagnostic at the injector's file/line and, for semantic classes, column; CLI runs of `mos build -e Short` with listing and symbols enabled and a target directory pre-populated with sentinel files demand exit status 1, the located diagnostic on stdout and a byte- and mtime-identical target directory.",
   note="Single-file projects (faults inside imported files are not generated yet). The diagnostic's wording is not judged, only its location; columns are accepted anywhere inside the offending statement where the property does not single out a token. The base program is verified to assemble before injection.",
   ref="§5 C04"),
 "C09": dict(
   technique="proptest over bank/segment configurations; oracle = independent bank layout model (expected bytes of every output file, or rejection) compared with what `mos build` writes",
   text="Generated configurations of 0-4 banks and 1-6 non-empty segments (absolute and segments.x.start/end-relative placement incl. overlaps, adjacency, zero page and past-$FFFF, pc, write, bank incl. unknown/none) x output format x output filename are built by the real executable in scratch projects; the files in the target directory must equal the model's expectation byte for byte, or the build must fail with exit status 1 and write nothing.",
   note="The model is written from the property statement. Corners where the property names no outcome (prg output combined with a bank filename or an empty first bank, a lone bank-less segment next to bank definitions, unresolvable start chains) are counted as unspecified and not judged.",
   ref="§5 C09"),
 "C10": dict(
   technique="proptest over multi-file projects; metamorphic oracle: N repeated builds (in-process with fresh hash seeds, and fresh `mos build` processes) must be identical",
   text="Valid and invalid multi-file projects are built 8 times in-process (image, listings, VICE text, unsorted diagnostic sequence) and 6 times as fresh processes (stdout, exit status, every file in the target directory); any difference is a violation. Campaigns with the same undefined name at several places, clashing `*` imports and equal file stems in two directories target the places where hash order can leak.",
   note="Probabilistic detection: a leak of hash order among k equally ranked items is seen with probability about 1-(1/k!)^(N-1) per case.",
   ref="§5 C10"),
 "C18": dict(
   technique="proptest over generated test programs; differential oracle: independent 6502 interpreter + assertion evaluator (self-tested against emulator_6502) vs `mos test` output and exit status",
   text="Generated projects with 1-3 `.test` blocks (loops, nested loops, forward branches, subroutines in the test's segment or in a library segment of its bank, scopes, stack use, indexed/indirect memory, optionally two banks) get assertions chosen from a reference execution trace to be true, false, unevaluable or dependent on a later visit; the reference interpreter runs the model-derived image of the test's bank, evaluates every assertion at every visit and predicts verdict, failing assertion location and message for each test; `mos test` must print the matching verdict line per test, exit non-zero iff a test fails and report each failure at the assertion's file:line:column with the expected message.",
   note="The modelled instruction subset excludes decimal mode, jmp (ind), brk/rti as instructions and txs; programs are constructed to terminate. Flag symbols are only used for their truth value. The reference interpreter's self test (300 random programs against emulator_6502) runs before every campaign; its failure is exit 2, not a violation.",
   ref="§5 C18"),
 "C17": dict(
   technique="proptest over buffers sent to a live `mos lsp` process; differential oracle: LSP text edits applied per the LSP specification vs the file `mos format` writes",
   text="Generated error-free buffers (arbitrary spacing, comments, case; CRLF and non-ASCII in feature campaigns; 1 in 8 already formatted) are sent to a long-lived language server (didOpen/didChange) followed by textDocument/formatting or onTypeFormatting; the returned edits must be ordered, non-overlapping and in range, and applied in the standard manner (UTF-16 columns, ranges relative to the original text, positions beyond a line clamped) must give exactly the text the `mos format` executable writes for the same file with default options.",
   note="A server that dies or declines (null) is not judged here (C14). Default formatter options only, as the property states.",
   ref="§5 C17"),
 "C20": dict(
   technique="exhaustive enumeration of session states x shutdown orders (x seeded delay draws) against live `mos lsp` processes with an LSP and a DAP client; exit-status / port / deadlock-witness oracle",
   text="Every combination of 5 session states (no debugger, client connected, stopped at a breakpoint on the test runner, running a long test, test finished) and 4 orders (shutdown+exit, disconnect first, disconnect after shutdown, closing the pipe without shutdown) is driven against a real server process with generated delays; the process must exit with status 0 within 10 s and release its debug port. A process that is still alive is a violation only with a deadlock witness from /proc (all threads sleeping, no CPU consumed between samples).",
   note="Thread schedules are sampled by timing (delays), not enumerated: a shutdown race with a microsecond window may stay unseen. The VICE back-end is not exercised (no emulator in the sandbox); only the built-in test-runner machine.",
   ref="§5 C20"),
 "C14": dict(
   technique="proptest, model-based histories (vec of operations + interpreter) against a live `mos lsp` process; differential oracle: two freshly started servers given only the final buffers; liveness and well-formedness predicates on every response",
   text="Histories of 1-80 operations (didOpen/didChange by single typed characters, line replacements - among them lines with comments that span lines, non-BMP characters, and nesting or sums beyond what the parser accepts -, whole-text replacements, several changes in one notification, restore, didClose; on the main file, an imported file and a new file that is not on disk) interleaved with all 13 supported request kinds at 7 kinds of positions (incl. beyond end of line/file, inside multi-byte characters) in open, closed, non-project and non-existing documents. Every request must be answered with the process alive; every returned range must lie inside the current text of the document it names; semantic tokens must decode sorted, non-overlapping, non-empty, inside their line; after the history the last published diagnostics per file and a fixed battery of requests (documentSymbol, semanticTokens, codeLens, workspace/symbol, definition, references, highlight, hover, completion, prepareRename) must equal those of two fresh servers that receive only the final buffers (two, so that an answer that differs between identical fresh servers is reported as nondeterministic rather than blamed on the history).",
   note="Unknown methods, malformed parameters and documents that are not files are sent too (any answer, also an error response, counts). A request that is not answered within 20 s is inconclusive, unless every thread of the server sleeps without having used CPU time between two samples (a deadlock: violation). Response order inside arrays is not compared (sets).",
   ref="§5 C14"),
 "C19": dict(
   technique="proptest, model-based request sequences with generated delays against a live debug session (DAP over TCP on the test runner); oracle: reference trace of the uninterrupted run (emulator_6502 driven directly, image and line table from the independent layout model), located through the cycle counter the adapter reports",
   text="Generated test programs (nested counted loops up to 255x255 iterations, forward branches, subroutines two levels deep, a recursive subroutine, pha/pla inside subroutines, `.loop` blocks and macros invoked several times) are debugged through 2-17 generated operations: setBreakpoints on any code lines (halted and while running, biased towards call sites and subroutine bodies), configurationDone/continue with an optional pause after 0-60 ms, next/stepIn/stepOut, repeated inspection after a delay. At every stop the reported cycle counter locates the machine in the reference trace; registers, flags and evaluate results must equal that trace entry, the frame's lines must contain the line of the true program counter, nothing may change between two inspections, no instruction with a breakpoint may have been executed between resume and stop (or before the end of the test), a stop without pause must be at a breakpoint, and steps must land on the trace entry the uninterrupted run prescribes (next: after the call returns to the same frame; stepOut: first entry of the caller).",
   note="Thread schedules are not controlled (no scheduling hook was added): races are provoked by generated delays and 16 concurrent sessions, so a run is not a pure function of the seed; every reported violation is a real observation, and what was not observed is not claimed. stepOut outside any subroutine is not judged. A timeout is inconclusive.",
   ref="§5 C19"),
 "C15": dict(
   technique="proptest over generated programs x one identifier occurrence; oracle: static binding model (documented scoping, validated against the build through the layout model) for the exact edit set, metamorphic build comparison before/after the rename, round trip (rename back)",
   text="For a generated error-free program and one generated identifier occurrence (definition or any component of a use path) a live language server is asked to rename it to a fresh name; where prepareRename offers it, the WorkspaceEdit must touch exactly the occurrences bound to that symbol (none of `super`, equally named symbols, other text), the edited program must assemble to identical bytes and diagnostics, and a second rename back to the old name must restore the original text.",
   note="A second campaign renames in two-file projects (every form of `.import`, a library imported twice; a rename requested at an alias is held to the build comparison only). Occurrences in code the assembler never emits (zero-count loops, uninvoked macros) are optional in the expected edit set. New names are fresh only. Programs end in tests that refer to their symbols; one case in three has comments (also non-BMP characters) between the tokens, positions are exchanged in UTF-16 code units.",
   ref="§5 C15"),
 "C16": dict(
   technique="proptest over generated programs; oracle: static binding model of the documented scoping rule, anchored to the build by requiring byte-for-byte agreement of the image with the reference layout model",
   text="Every path component of every identifier use in a generated program is sent to textDocument/definition of a live server and must lead to exactly the definition the scoping rule binds it to; for every label/constant/variable definition textDocument/references (with and without declaration) and documentHighlight must equal exactly the set of occurrences bound to it.",
   note="The binding oracle is the one the build used: programs are only judged when the assembled image equals the reference model's image, whose operand values come from the same binding. Uses in never-emitted code and `super` components are not judged. A second campaign navigates two-file projects from every occurrence in both files. Programs end in tests that refer to their symbols; one case in three has comments (also non-BMP characters) between the tokens, positions are exchanged in UTF-16 code units.",
   ref="§5 C16"),
}

NOT_YET = {
}

def main():
    props = [json.loads(l) for l in open(os.path.join(HERE, "properties.jsonl"))]
    hooks_commits = ["2d83774", "1dd848b"]
    m = {
      "version": 1,
      "setup_cmd": "./setup",
      "hooks": {
        "guard": "mos_verif",
        "enable": "RUSTFLAGS=\"--cfg mos_verif\" (set by ./check and ./setup for the harness build, which compiles /repo/mos-core as a path dependency, and for the mos binary build)",
        "baseline_off_cmd": "cd /repo && cargo test --workspace --no-fail-fast --offline",
        "source_commits": hooks_commits,
        "add_only": True,
      },
      "engines": [
        {"name": "mv", "path": "harness/", "serves_properties": sorted(CHECKS.keys()),
         "kind_free_text": "Rust harness: proptest TestRunner driven from one multi-call binary, exhaustive enumerators, reference models, in-process mos-core and sub-process mos drivers"},
      ],
      "checks": [],
      "not_applicable": [],
      "notes": "All checks are property-based tests / fuzzing with explicit oracles (see DESIGN.md). Exit 2 = infrastructure or generator-health problem, never a violation. known-findings.jsonl lists recorded and fixed defects.",
    }
    for p in props:
        pid = p["id"]
        if pid in CHECKS:
            c = CHECKS[pid]
            m["checks"].append({
              "property_id": pid,
              "quick_cmd": f"./check {pid} quick",
              "thorough_cmd": f"./check {pid} thorough",
              "evidence_file": f"/verif/evidence/{pid}.json",
              "replay_cmd_template": f"./check {pid} --replay {{path}}",
              "engine": "mv",
              "level_claimed": {"category": "exploration", "text": c["text"], "design_ref": c["ref"]},
              "level_note": c["note"],
              "technique": c["technique"],
            })
        else:
            m["not_applicable"].append({"property_id": pid, "reason": NOT_YET.get(pid, "check not built yet in this session (design in DESIGN.md §5); not a statement that the technique cannot apply")})
    json.dump(m, open(os.path.join(HERE, "MANIFEST.json"), "w"), indent=1)
    print("wrote MANIFEST.json with", len(m["checks"]), "checks")

main()
