#!/usr/bin/env python3
"""Regenerates the generated regions of DESIGN.md (between <!-- NAME_BEGIN --> and <!-- NAME_END --> markers) from
known-findings.jsonl, seeded/*/meta.json and seeded/RESULTS.json."""
import json, subprocess, glob, os, re
V = '/verif'
rows = [json.loads(l) for l in open(f'{V}/known-findings.jsonl') if l.strip()]
log = dict(l.split(' ', 1) for l in subprocess.run(['git', '-C', '/repo', 'log', '--format=%h %s'], capture_output=True, text=True).stdout.splitlines())
esc = lambda s: s.replace('|', '\\|').replace('\n', ' ')
by = {}
for r in rows:
    if r['status'] == 'fixed':
        by.setdefault(r['commit'], []).append(r)
order = [h for h in reversed(list(log)) if h in by]
fixed = ['| commit | found by | what failed before |', '|---|---|---|']
for h in order:
    props = sorted(set(r['property'] for r in by[h]))
    whats = []
    for r in by[h]:
        w = r['what'].split(' ', 3)[-1]
        if w not in whats:
            whats.append(w)
    fixed.append('| `%s` | %s | %s |' % (h, ' '.join(props), ' **;** '.join(esc(w) for w in whats)))
nfix = sum(1 for h in log if log[h].startswith('fix:'))
unrec = [h for h in log if log[h].startswith('fix:') and h not in by]
fixed.append('')
fixed.append(f'{nfix} `fix:` commits in `/repo`, {len(order)} of them carry the entries above' + (f'; commits without an entry of their own: {", ".join("`%s`" % h for h in unrec)} (follow-ups of an entry above)' if unrec else '') + '.')
opn = ['| property | signature | what fails |', '|---|---|---|'] + ['| %s | `%s` | %s |' % (r['property'], esc(r['signature']), esc(r['what'])) for r in rows if r['status'] == 'open']
res = {}
if os.path.exists(f'{V}/seeded/RESULTS.json'):
    for r in json.load(open(f'{V}/seeded/RESULTS.json')):
        res[(r['kind'], r['id'])] = r
seed = ['| written for | change (by a sub-agent that saw only the property text) | needs | first result | result on the final tree |', '|---|---|---|---|---|']
for d in sorted(glob.glob(f'{V}/seeded/*/meta.json')):
    m = json.load(open(d)); pid = m['written_for']
    first = []
    for c, v in m['results']['checks'].items():
        s = f"{c}: " + ('caught' if v.get('exit') == 1 else 'not caught')
        if v.get('signature') and v.get('exit') == 1: s += f" (`{esc(v['signature'])}`)"
        if v.get('note'): s += ' — ' + esc(v['note'])
        first.append(s)
    fin = res.get(('seeded', os.path.basename(os.path.dirname(d))))
    if fin and fin.get('applied') and fin.get('checks'):
        f2 = '; '.join(f"{c}: " + ('caught' if v['exit'] == 1 else f"NOT caught (exit {v['exit']})") + (f" in {v['secs']} s" if v['exit'] == 1 else '') for c, v in fin['checks'].items())
        if fin.get('suite_failures'): f2 = 'suite fails: ' + ', '.join(fin['suite_failures'])
    elif fin and not fin.get('applied'):
        f2 = 'patch no longer applies'
    elif fin:
        f2 = 'suite: ' + (', '.join(fin.get('suite_failures', [])) or 'compile error')
    elif m.get('round', 1) >= 2:
        f2 = 'the same run: written for the final tree (`/repo` at `354eed3`)'
    else:
        f2 = '(not re-run yet)'
    if m.get('final_note'): f2 += ' — ' + esc(m['final_note'])
    if m.get('ported'): f2 += ' — ' + esc(m['ported'])
    seed.append('| %s | %s | %s | %s | %s |' % (pid + (' (round %d)' % m['round'] if m.get('round', 1) >= 2 else ''), esc(m['summary']), esc(m['trigger'])[:400], '<br>'.join(first), f2))
mut = ['| id | change | suite | checks |', '|---|---|---|---|']
if os.path.exists(f'{V}/tools/mutants.json'):
    for m in json.load(open(f'{V}/tools/mutants.json')):
        r = res.get(('mutant', m['id']))
        if not r:
            mut.append('| %s | `%s`: %s | | (not run yet) |' % (m['id'], m['file'], esc(m['what']))); continue
        suite = 'passes' if r.get('compiles') and not r.get('suite_failures') else ('killed by the suite: ' + ', '.join(r.get('suite_failures', [])) if r.get('compiles') else 'does not compile')
        ch = '; '.join(f"{c}: " + ('caught' if v['exit'] == 1 else f"NOT caught (exit {v['exit']})") + (f" (`{esc(v['signatures'][0])}`)" if v['signatures'] else '') for c, v in r.get('checks', {}).items())
        mut.append('| %s | `%s`: %s | %s | %s |' % (m['id'], m['file'], esc(m['what']), suite, ch))

ORACLE = {
 'C01': 'reference ISA table; concatenation relation', 'C02': 'reference layout walk over the image, symbols, VICE labels',
 'C03': 'reference evaluator', 'C04': 'located-diagnostic predicate, exit status, target directory snapshot',
 'C05': 'print(parse(t)) == t up to keyword case/CRLF; loss => diagnostic', 'C06': 'crash/abort monitor, pass-digest divergence, output-or-diagnostic, span validity',
 'C07': 'bytes(P) == bytes(expand_k(P)), anchored by the layout model', 'C08': 'canonical vs random trivia/case rendering of one AST',
 'C09': 'bank layout model (bytes of every output file, or rejection)', 'C10': 'identical outputs and messages across fresh hash seeds and processes',
 'C11': '(statement, value) -> address relation of the layout model; listing parsed back', 'C12': 'parse-clean, token skeleton, comments, bytes and diagnostics before/after',
 'C13': 'format(format(p)) == format(p)', 'C14': 'two fresh servers; liveness; range / semantic-token well-formedness',
 'C15': 'binding model edit set; build before/after; rename back; two-file projects', 'C16': 'binding model, anchored by image == layout model; two-file projects',
 'C17': 'LSP edits applied per the specification vs `mos format`', 'C18': 'reference 6502 + assertion evaluator (self-tested against emulator_6502)',
 'C19': 'reference trace located through the adapter cycle counter', 'C20': 'exit status 0, port free, deadlock witness',
}
ev = ['| id | tier | generated cases | distinct non-trivial | wall | oracle | non-trivial rule |', '|---|---|---|---|---|---|---|']
for i in range(1, 21):
    cid = 'C%02d' % i
    f = f'{V}/evidence/{cid}.json'
    if not os.path.exists(f):
        continue
    e = json.load(open(f)); c = e.get('coverage', {})
    rule = c.get('rule') or e.get('rule') or ''
    m = re.search(r'non-trivial = ([^.]*)', rule)
    nt = m.group(1).split(';')[0].strip() if m else 'every case'
    extra = ''
    if c.get('fuzz'):
        extra = f" + {c['fuzz']['executions']} libFuzzer executions"
    ev.append('| %s | %s | %s%s | %s | %s s | %s | %s |' % (cid, e.get('tier', ''), c.get('evaluations', ''), extra, c.get('distinct_nontrivial', ''), round(e.get('wall_s', 0)), ORACLE.get(cid, ''), esc(nt)[:160]))

p = f'{V}/DESIGN.md'; s = open(p).read()
for name, body in [('FIXED_TABLE', '\n'.join(fixed)), ('OPEN_TABLE', '\n'.join(opn)), ('SEEDED_TABLE', '\n'.join(seed)), ('MUTANT_TABLE', '\n'.join(mut)), ('EVIDENCE_TABLE', '\n'.join(ev))]:
    a, b = f'<!-- {name}_BEGIN -->', f'<!-- {name}_END -->'
    if a in s and b in s:
        i = s.index(a) + len(a); j = s.index(b)
        s = s[:i] + '\n' + body + '\n' + s[j:]
    else:
        print('marker missing:', name)
open(p, 'w').write(s)
print('fix commits', nfix, 'open', len(opn) - 2)
